"""Drive the real FileAccessor / ShardedFileAccessor file API and record.
No judging here: results, exception classes, directory trees, reads."""
import atexit
import itertools
import os
import shutil
import tempfile
import zlib

KEY = "10um_iso-2.5"
NAMES = ["a", "d/b.x", "d/b.y"]
CHUNKS = [[0, 2, 0, 2, 0, 1], [2, 3, 0, 2, 0, 1]]
CFGS = [{"flat": f, "gzip": g} for f in (False, True) for g in (False, True)]


def payloads(salt):
    import hashlib
    h = hashlib.sha256(str(salt).encode()).digest()
    # 3: same length and same first bytes as 1 (an overwrite that keeps the size)
    # 4: a payload that is itself a complete gzip stream (it must come back as stored)
    import gzip as _gzip
    return {0: b"", 1: b"\x01one-" + h[:13], 2: (h * 4)[:100] + b"\x00" * 20, 3: b"\x01one-" + h[13:26],
            4: _gzip.compress(b"inner-" + h[:9], mtime=0)}


def _id_of(data, pay):
    for k, v in pay.items():
        if v == data:
            return k
    return 98


def gunzip_strict(raw):
    """Independent RFC1952 inflate (gzip framing, CRC and length checked)."""
    try:
        d = zlib.decompressobj(wbits=31)
        out = d.decompress(raw) + d.flush()
        if not d.eof or d.unused_data:
            return None
        return out
    except zlib.error:
        return None


def tree_of(base, pay):
    out = []
    for root, dirs, files in os.walk(base):
        for fn in sorted(files):
            p = os.path.join(root, fn)
            rel = os.path.relpath(p, base)
            with open(p, "rb") as f:
                raw = f.read()
            if rel.endswith(".gz"):
                dec = gunzip_strict(raw)
                out.append({"p": rel, "gz": True, "gzok": dec is not None,
                            "data": _id_of(dec, pay) if dec is not None else 97})
            else:
                out.append({"p": rel, "gz": False, "gzok": True, "data": _id_of(raw, pay)})
    out.sort(key=lambda e: e["p"])
    # the abstract disk is keyed by the path WITHOUT the .gz marker handling:
    # Trace_FileStore compares paths as written (with ".gz").
    return out


def observe(base, pay, wcfg, level, long_lived=()):
    """fetch_file / file_exists of every name through a FRESH accessor and through
    the long-lived ones (the writer itself, a reader opened before the history:
    a stale cache inside an accessor object must not change the answers);
    the probe order is exists-then-fetch on odd steps, fetch-then-exists on even."""
    from neuroglancer_scripts import file_accessor as fa
    files = []
    fresh = fa.FileAccessor(base, flat=wcfg["flat"], gzip=wcfg["gzip"], compresslevel=level)
    for acc in (fresh,) + tuple(long_lived):
        for n in NAMES:
            ent = {"n": n}
            try:
                ent["ex"] = bool(acc.file_exists(n))
            except Exception as e:
                ent["ex"] = "exc:" + type(e).__name__
            try:
                ent.update(st="ok", v=_id_of(acc.fetch_file(n), pay))
            except Exception as e:
                ent.update(st="err", v=99, cls=type(e).__name__)
            files.append(ent)
    chunks = []
    for c in CHUNKS:
        rs = []
        for rc in CFGS:
            r = fa.FileAccessor(base, flat=rc["flat"], gzip=rc["gzip"])
            ent = dict(rc)
            try:
                ent.update(st="ok", v=_id_of(r.fetch_chunk(KEY, tuple(c)), pay))
            except Exception as e:
                ent.update(st="err", v=99, cls=type(e).__name__)
            rs.append(ent)
        chunks.append({"c": c, "r": rs})
    return files, chunks


class _Refused:
    """stands for an accessor that could not be built from documented options"""
    def store_file(self, *a, **k):
        raise OSError("documented command-line option refused by the argument parser")
    store_chunk = store_file

    def fetch_file(self, *a, **k):
        raise OSError("documented command-line option refused by the argument parser")
    fetch_chunk = fetch_file

    def file_exists(self, *a, **k):
        return False


def run_history(workdir, cfg, ops, salt=0, level=9, via="ctor"):
    from neuroglancer_scripts import file_accessor as fa
    base = tempfile.mkdtemp(prefix="fs_", dir=workdir)
    # dataset directories whose names hold characters that are special in URLs: '+' is a legal
    # literal in a URL path, a space and '%' must be percent-encoded there
    special = ("", "T1+T2_fused", "a b%41+c")[salt % 3]
    if special:
        base = os.path.join(base, special)
        os.makedirs(base)
    pay = payloads(salt)
    acc = fa.FileAccessor(base, flat=cfg["flat"], gzip=cfg["gzip"], compresslevel=level)
    if via != "ctor":
        # the accessor the command-line tools get: URL spelling + options dictionary
        from neuroglancer_scripts import accessor as acc_mod
        enc = base.replace("%", "%25").replace(" ", "%20")
        url = {"path": base, "file": "file://" + enc, "precomputed": "precomputed://" + base,
               "precomputed-file": "precomputed://file://" + enc, "argparse": base}[via]
        opts = {"flat": cfg["flat"], "gzip": cfg["gzip"], "compresslevel": level}
        if via == "path" and not cfg["flat"] and cfg["gzip"] and level == 9:
            opts = {}                      # the documented defaults: deep layout, gzip, level 9
        if via == "argparse":
            # the options dictionary as the command-line tools build it: the REAL argument parser
            # (accessor.add_argparse_options) on the documented option spellings
            import argparse
            import contextlib
            import io
            parser = argparse.ArgumentParser()
            acc_mod.add_argparse_options(parser)
            argv = ["--compresslevel", str(level)]
            if cfg["flat"]:
                argv.append("--flat")
            if not cfg["gzip"]:
                argv.append(("--no-gzip", "--no-compression")[salt % 2])
            url = base
            try:
                with contextlib.redirect_stderr(io.StringIO()):
                    opts = vars(parser.parse_args(argv))
            except SystemExit:
                opts = None        # a documented option was refused: every store of the history fails
        acc = acc_mod.get_accessor_for_url(url, opts) if opts is not None else _Refused()
    reader = fa.FileAccessor(base, flat=cfg["flat"], gzip=cfg["gzip"], compresslevel=level)
    events = []
    try:
        # both long-lived accessors look at the (still empty) dataset first
        observe(base, pay, cfg, level, long_lived=(acc, reader))
        for op in ops:
            e = dict(op)
            try:
                if op["op"] == "store_file":
                    acc.store_file(op["name"], pay[op["v"]], mime_type=op["mime"], overwrite=op["ow"])
                else:
                    acc.store_chunk(pay[op["v"]], KEY, tuple(op["c"]), mime_type=op["mime"],
                                    overwrite=op["ow"])
                e["res"] = "ok"
                e["cls"] = ""
            except Exception as ex:
                e["res"] = "exc"
                e["cls"] = type(ex).__name__
            e["tree"] = tree_of(base, pay)
            e["files"], e["chunks"] = observe(base, pay, cfg, level, long_lived=(acc, reader))
            e.setdefault("name", "")
            e.setdefault("c", [])
            events.append(e)
    finally:
        shutil.rmtree(base, ignore_errors=True)
    return {"kind": "hist", "cfg": cfg, "level": level, "via": via, "events": events,
            "segs": [], "abs": False, "op": "", "res": "", "touched": False}


def mixed_mime(ops):
    """Structural fact about the INPUT history: some name / chunk is stored with
    MIME types that differ in compressibility (plain vs .gz variant)."""
    nocomp = {"application/json", "image/jpeg", "image/png"}
    seen = {}
    for op in ops:
        t = op["name"] if op["op"] == "store_file" else tuple(op["c"])
        seen.setdefault(t, set()).add(op["mime"] in nocomp)
    return any(len(s) > 1 for s in seen.values())


def snapshot(root):
    out = {}
    for r, dirs, files in os.walk(root):
        for d in dirs:
            out[os.path.relpath(os.path.join(r, d), root) + "/"] = None
        for fn in files:
            p = os.path.join(r, fn)
            with open(p, "rb") as f:
                out[os.path.relpath(p, root)] = f.read()
    return out


CONFINE_NAMES = [
    (["..", "x"], False), (["d", "..", "..", "x"], False), (["..", "secret"], False),
    ([".", "..", "x"], False), (["..", "ds2", "info"], False), (["a", "..", "b"], False),
    (["d", "..", "b"], False), (["ok", "name"], False), (["..", "..", "x"], False),
    (["ABS", "x"], True), (["ABS", "secret"], True), (["with:colon"], False),
]


def run_confine(workdir, kind, op, segs, is_abs):
    """One confinement probe in a private sandbox  root/ds  (dataset dir) with
    root/secret outside it."""
    from neuroglancer_scripts import file_accessor as fa
    from neuroglancer_scripts import sharded_file_accessor as sfa
    root = tempfile.mkdtemp(prefix="cf_", dir=workdir)
    ds = os.path.join(root, "ds")
    os.makedirs(os.path.join(ds, "d"))
    with open(os.path.join(root, "secret"), "wb") as f:
        f.write(b"SECRET")
    with open(os.path.join(ds, "b"), "wb") as f:
        f.write(b"inside")
    if is_abs:
        name = os.path.join(root, *segs[1:])
    else:
        name = "/".join(segs)
    acc = fa.FileAccessor(ds, gzip=False) if kind == "file" else sfa.ShardedFileAccessor(ds)
    before = snapshot(root)
    res, cls, val = "ok", "", None
    try:
        if op == "store_file":
            acc.store_file(name, b"payload", overwrite=True)
        elif op == "fetch_file":
            val = acc.fetch_file(name)
        else:
            val = acc.file_exists(name)
    except Exception as e:
        res, cls = "exc", type(e).__name__
    finally:
        if kind != "file":
            atexit.unregister(acc.close)
    after = snapshot(root)
    shutil.rmtree(root, ignore_errors=True)
    return {"kind": "confine", "acc": kind, "op": op, "segs": segs if not is_abs else segs[1:],
            "abs": is_abs, "res": res, "cls": cls, "touched": before != after,
            "val": repr(val)[:40], "cfg": {"flat": False, "gzip": False}, "events": [], "level": 0}
