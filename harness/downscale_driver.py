"""C07 driver: calls the REAL downscalers and RECORDS (no judging).

Downscalers are always obtained through downscaling.get_downscaler: by the
explicit method name, or - method "auto" - through the selection path of the
command-line tools, get_downscaler("auto", info, options) with the info's
type attribute and an options dictionary carrying outside_value.  The case
then keeps method "auto" + itype; the documented selection rule is applied by
TLC (Trace_Downscale.Eff), not here.

Voxel values travel to TLC as exact scaled integers: plain naturals for
uint8 / uint16 cases (enc "nat"), <<sign, magnitude bits>> otherwise
(enc "sm").  float32 cases are scaled by one power of two per case so that
inputs, outside value and every block mean are integers (the data are dyadic
by construction); a result element that is not a multiple of the unit is
encoded as [2, [1]] (never equal to any value).
"""
import math
import warnings
from fractions import Fraction

import numpy as np

from .parsers import bits

NG_DTYPES = ["uint8", "uint16", "uint32", "uint64", "float32"]
AVG_FACTORS = [(a, b, c) for a in (1, 2) for b in (1, 2) for c in (1, 2)]
ANY_FACTORS = [(a, b, c) for a in (1, 2, 3) for b in (1, 2, 3) for c in (1, 2, 3)]
# larger factors (the stride and majority methods take any positive triple)
ANY_FACTORS += [(4, 1, 1), (1, 4, 1), (1, 1, 4), (4, 4, 4), (2, 2, 8), (8, 4, 2), (1, 6, 1), (5, 1, 2),
                (4, 2, 1), (6, 3, 2), (4, 4, 1), (2, 4, 2)]
EXTRA_FRAC_BITS = 3          # a mean of 8 values needs 3 more fraction bits


def exact(x):
    if isinstance(x, Fraction):
        return x
    if isinstance(x, (int, np.integer)):
        return Fraction(int(x))
    n, d = float(x).as_integer_ratio()
    return Fraction(n, d)


def _enc(fr, unit_bits, enc):
    """Fraction -> scaled integer in the case's encoding (None if not a
    multiple of 2^-unit_bits)."""
    sc = fr * (1 << unit_bits)
    if sc.denominator != 1:
        return [2, [1]]
    n = sc.numerator
    if enc == "nat":
        if not (0 <= n < (1 << 30)):
            return None
        return n
    return [1 if n < 0 else 0, bits(abs(n))]


_OBJECTS = {}


def get_downscaler(method, outside, itype="image"):
    """One downscaler OBJECT per (method, outside value, info type) and run: the
    object is then used for many arrays of different data types and shapes, as a
    process that converts several datasets does (downscalers are documented as
    plain strategy objects)."""
    key = (method, repr(outside), itype)
    uses = _USES.get(key, 0)
    _USES[key] = uses + 1
    if key not in _OBJECTS or uses % 40 == 39:
        # every now and then a NEW object is built - from the same options dictionary
        # the earlier ones were built from (a process keeps one vars(args) around)
        _OBJECTS[key] = _new_downscaler(method, outside, itype)
    return _OBJECTS[key]


_USES = {}
_SHARED_OPTIONS = {}


def _options_for(method, outside):
    """the caller's options dictionary, one per (method, outside value), handed to
    get_downscaler again and again"""
    key = (method, repr(outside))
    if key not in _SHARED_OPTIONS:
        _SHARED_OPTIONS[key] = ({"downscaling_method": "auto", "outside_value": outside} if method == "auto"
                                else {"outside_value": outside})
    return _SHARED_OPTIONS[key]


def _new_downscaler(method, outside, itype="image"):
    """method "auto": the selection path of the command-line tools -
    get_downscaler("auto", info, options) with the info's type attribute and
    the options dictionary carrying the outside value (as vars(args) does)."""
    from neuroglancer_scripts import downscaling
    if method == "auto":
        return downscaling.get_downscaler(
            "auto", {"type": itype, "data_type": "uint8", "num_channels": 1, "scales": []},
            _options_for("auto", outside))
    if method == "average":
        return downscaling.get_downscaler("average", options=_options_for("average", outside))
    return downscaling.get_downscaler(method)


def frac_bits_of(arr, outside):
    """Smallest s such that every value (and the outside value) is a multiple
    of 2^-s."""
    s = 0
    vals = [exact(x) for x in np.unique(arr).tolist()]
    if outside is not None:
        vals.append(exact(outside))
    for v in vals:
        s = max(s, v.denominator.bit_length() - 1)
    return s


def run_case(method, factors, outside, arr, itype="image"):
    """Call the real downscaler; return (case for TLC, raw record).
    method may be "auto" (with itype = the info's type attribute): the case
    then carries method "auto" + itype and TLC applies the documented
    selection rule."""
    arr = np.asarray(arr)
    dt = arr.dtype
    kind = "float" if dt.kind == "f" else "int"
    unit = 0
    if kind == "float":
        unit = frac_bits_of(arr, outside) + EXTRA_FRAC_BITS
    small = dt.name in ("uint8", "uint16") and (outside is None or 0 <= exact(outside) < (1 << 28))
    enc = "nat" if small else "sm"
    # integer data with a non-integer (dyadic) outside value: data and outside value travel in
    # units of 2^-ubits, the result elements stay plain integers (Downscale!UBits)
    ubits = 0
    averaging = method == "average" or (method == "auto" and itype == "image")
    if kind == "int" and averaging and outside is not None and exact(outside).denominator != 1:
        ubits = exact(outside).denominator.bit_length() - 1
    in_unit = unit + ubits
    case = {"method": method, "f": [int(x) for x in factors],
            "pad": "edge" if outside is None else "const",
            "ov": _enc(exact(0 if outside is None else outside), in_unit, enc),
            "kind": kind, "enc": enc, "dtype": dt.name, "itype": itype, "shape": list(arr.shape),
            "data": [_enc(exact(x), in_unit, enc) for x in arr.ravel().tolist()],
            "exc": "", "oshape": [], "odtype": "", "out": []}
    if ubits:
        case["u"] = ubits
    rec = {"method": method, "factors": list(factors), "outside": outside, "dtype": dt.name,
           "shape": list(arr.shape), "unit_bits": unit, "out": None, "itype": itype}
    before = arr.copy()
    try:
        with warnings.catch_warnings():
            warnings.simplefilter("ignore")
            ds = get_downscaler(method, outside, itype)
            res = ds.downscale(arr, tuple(factors))
        res = np.asarray(res)
        case["oshape"] = list(res.shape)
        case["odtype"] = res.dtype.name
        flat = np.ascontiguousarray(res).ravel().tolist()
        out = []
        for x in flat:
            if isinstance(x, float) and not math.isfinite(x):
                out.append([2, [1]])
            else:
                e = _enc(exact(x), unit, enc)
                out.append([2, [1]] if e is None else e)
        if enc == "nat" and any(isinstance(e, list) for e in out):
            # cannot happen for uint8/uint16 results; keep the case well-typed
            case["enc"] = "sm"
            case["ov"] = _enc(exact(0 if outside is None else outside), in_unit, "sm")
            case["data"] = [_enc(exact(x), in_unit, "sm") for x in arr.ravel().tolist()]
            out = [e if isinstance(e, list) else [0, bits(e)] for e in out]
        case["out"] = out
        rec["out"] = res
    except Exception as e:  # recorded; judged by TLC (oracle:Raised)
        case["exc"] = type(e).__name__
        rec["msg"] = str(e)[:200]
    rec["input_unchanged"] = bool(np.array_equal(before, arr))
    return case, rec


# -------------------------------------------------------------- generators --
def type_max(dtype):
    dt = np.dtype(dtype)
    return int(np.iinfo(dt).max) if dt.kind in "iu" else None


def outside_values(dtype):
    """none, 0, 7, type max (integers); dyadic values for float32."""
    if np.dtype(dtype).kind == "f":
        return [None, 0.0, 7.0, -2.5]
    return [None, 0, 7, type_max(dtype)]


def outside_values_fractional(dtype):
    """non-integer outside values inside the range of an integer data type
    (--outside-value is parsed as a float): fully judged, the mean of a border
    block being exact in rationals (halves, quarters; next to 0 and to the top)"""
    mx = type_max(dtype)
    return [0.5, 100.5, 7.25, mx - 0.5] if mx < 2 ** 40 else [0.5, 100.5, 7.25]


def outside_values_out_of_type(dtype):
    """outside values that are NOT values of the integer data type (weaker
    reading: only shape / dtype / range clauses are judged for them)"""
    mx = type_max(dtype)
    return [-3, -1, mx + 1, mx + 745, 2 * mx + 1]


def value_pool(rng, dtype):
    """Values an array is drawn from: {type min, min+1, small, max-1, type max}
    and random ones; float32: dyadic values with few bits."""
    dt = np.dtype(dtype)
    if dt.kind == "f" and rng.random() < 0.15:
        # few-bit values at the top of the float32 range: block means stay exactly
        # representable, but sums exceed the type's maximum
        top = 2.0 ** 127
        return rng.sample([top, 1.5 * top, 0.5 * top, 0.0, -top, 0.75 * top, -1.5 * top, 1.25 * top],
                          rng.randint(2, 5))
    if dt.kind == "f":
        q = rng.choice([1, 2, 4, 8])
        span = rng.choice([4, 64, 1024])
        return [rng.randint(-span * q, span * q) / q for _ in range(rng.randint(2, 6))]
    mx = type_max(dtype)
    style = rng.random()
    if style < 0.3:
        pool = [0, 1, mx - 1, mx, rng.randint(2, 20)]
    elif style < 0.5:
        pool = [mx, mx - 1, mx - rng.randint(2, 9), mx - rng.randint(10, 300)]
    elif style < 0.7:
        pool = [rng.randint(0, min(mx, 300)) for _ in range(rng.randint(2, 5))]
    elif style < 0.85:
        pool = [rng.randint(0, mx) for _ in range(rng.randint(2, 6))]
    else:
        k = rng.randint(1, dt.itemsize * 8)
        base = (1 << k) - 1
        pool = [base + d for d in (-2, -1, 0, 1, 2)]
    return [max(0, min(mx, v)) for v in pool]


def random_array(rng, dtype, shape=None):
    if shape is None:
        shape = [rng.choice([1, 2]), rng.randint(1, 6), rng.randint(1, 6), rng.randint(1, 6)]
    pool = value_pool(rng, dtype)
    n = shape[0] * shape[1] * shape[2] * shape[3]
    vals = [rng.choice(pool) for _ in range(n)]
    if np.dtype(dtype).kind == "f":
        return np.array(vals, dtype=np.float64).astype(dtype).reshape(shape)
    return np.array(vals, dtype=dtype).reshape(shape)


def concrete_triples(rng, dtype):
    """Concrete values for the abstract values 0, 1, 2 of Gen_Downscale."""
    if np.dtype(dtype).kind == "f":
        return rng.choice([(-1.5, 0.0, 2.25), (0.0, 1.0, 2.0), (-8.0, 0.5, 1024.0), (0.25, 0.5, 0.75)])
    mx = type_max(dtype)
    return rng.choice([(0, 1, mx), (0, 1, 2), (mx - 2, mx - 1, mx), (0, mx - 1, mx),
                       (5, 6, 8), (1, 3, 4)])


def block_class(case_rec, arr, method, factors):
    """Coverage rule helper (not a verdict): does some block of the call hold
    at least two different values / does a border block overhang?"""
    fz, fy, fx = factors[2], factors[1], factors[0]
    C, Z, Y, X = arr.shape
    mixed = False
    for c in range(C):
        for z in range(0, Z, fz):
            for y in range(0, Y, fy):
                for x in range(0, X, fx):
                    b = arr[c, z:z + fz, y:y + fy, x:x + fx]
                    if b.size and (b != b.flat[0]).any():
                        mixed = True
    overhang = (Z % fz != 0) or (Y % fy != 0) or (X % fx != 0)
    return mixed, overhang
