"""Drive the real info/transform generation (volume-to-precomputed
--generate-info, volume_reader.nibabel_image_to_info,
transform.matrix_as_compact_urlsafe_json) and RECORD (C16).
No judging: floats are re-encoded as exact rationals, TLC (Trace_Affine)
decides.

Histories recorded here (every result is judged, none by this file):
  * one file through the command line tool into an empty directory (src
    "file") and through nibabel_image_to_info on a freshly loaded image (src
    "api");
  * the SAME loaded image object used again: a second nibabel_image_to_info
    call with the sharding option toggled (src "api2"), then
    store_nibabel_image_to_fullres_info into a fresh directory with the plan's
    options (src "store");
  * files whose header voxel size (pixdim) disagrees with the column norms of
    the sform (plan["pixdim"], plan["qform"]);
  * fine voxels (plan["lenunit"]): affines at electron-microscopy scale or
    with voxel sizes that are thirds / sevenths of a millimetre - not a whole
    number of nanometres; A, a and the printed lengths are expressed in the
    plan's own small length unit (pure change of unit on both sides);
  * files that declare a spatial unit (plan["xyzt"]: micron, meter, mm,
    unknown): the printed lengths are re-encoded under the millimetre
    convention and, as an alternative, under the declared unit;
  * several generations in ONE process from ONE file path
    (run_samepath_case): the file replaced between the calls, ignore_scaling
    alternating, through the tool's main and volume_file_to_info;
  * several FILES described in one process through the function API
    (run_multifile_case) with the functions' default `options` argument or
    with one caller-owned dictionary re-used for all calls, ignore_scaling
    differing between the calls;
  * --generate-info run twice on ONE destination with two different volumes
    (run_rerun_case), the destination holding, before the second run, the
    pair of the first run / only its transform.json / only its
    info_fullres.json."""
import json
import math
import os
import shutil
import tempfile
from fractions import Fraction

import numpy as np

from . import vol_driver as vd

MAX_DEN = 4096
REACH = 131072    # case units (Affine!Reach): larger lengths are reported by name, not by value
REACH_PURE = 1024  # the same for pure numbers (matrix entries)
REL = Fraction(1, 10 ** 9)
K = 1000          # case unit: K units per millimetre (micrometres)


def simplest_between(lo, hi):
    """the rational with the smallest denominator in [lo, hi] (unique)"""
    if lo > hi:
        lo, hi = hi, lo
    if lo <= 0 <= hi:
        return Fraction(0)
    if hi < 0:
        return -simplest_between(-hi, -lo)
    fl = math.floor(lo)
    if fl == lo:
        return Fraction(fl)
    if fl + 1 <= hi:
        return Fraction(fl + 1)
    return fl + 1 / simplest_between(1 / (hi - fl), 1 / (lo - fl))


def snap(x, floor):
    """re-encode a float as the simplest rational within 1e-9 relative distance
    (absolute floor `floor`); None when it has no small-denominator neighbour"""
    if isinstance(x, bool) or not isinstance(x, (int, float)) or not math.isfinite(x):
        return None
    X = Fraction(x)
    tol = REL * max(abs(X), Fraction(floor))
    q = simplest_between(X - tol, X + tol)
    if q.denominator > MAX_DEN:
        return None
    return q


def q2(f):
    return [f.numerator, f.denominator]


def length_unit(plan):
    """the length unit of the plan's affine (A, a, vs) in millimetres.  1 for
    ordinary plans; electron-microscopy-scale plans give their affine in a
    small unit (2^-20 mm, 10 nm, the float32 nearest to 4.3e-6 mm ...) so that
    the exact rationals of the oracle keep small numerators and denominators.
    The file holds the binary32/binary64 numbers nearest to A * unit."""
    return Fraction(plan.get("lenunit", 1))


def build_nifti(path, plan, data):
    """plan['A'] 3x3, plan['a'] 3 as Fractions (mm).  NIfTI-1 stores the sform
    in float32: used only when every entry is exactly representable there;
    otherwise NIfTI-2 (float64 sform)."""
    import nibabel
    lu = length_unit(plan)      # A, a are given in this many millimetres (1 unless plan["lenunit"])
    aff = np.eye(4)
    for r in range(3):
        for k in range(3):
            aff[r, k] = float(plan["A"][r][k] * lu)
        aff[r, 3] = float(plan["a"][r] * lu)
    cls = nibabel.Nifti1Image if plan["nifti"] == 1 else nibabel.Nifti2Image
    img = cls(data, aff, dtype=data.dtype)
    if plan.get("pixdim"):
        # a header whose voxel size (pixdim) was not touched when the sform was
        # edited: the sform stays THE affine of the file (sform code 2); the
        # qform is either absent (code 0) or an axis-aligned "scanner" one
        hdr = img.header
        pix = [float(x) for x in plan["pixdim"]]
        if plan.get("qform") == "scanner":
            hdr.set_qform(np.diag(pix + [1.0]), code=1)
        else:
            hdr.set_qform(None, code=0)
        zooms = list(hdr.get_zooms())
        zooms[:3] = pix
        hdr.set_zooms(zooms)
        hdr.set_sform(aff, code=2)
        img = cls(data, None, header=hdr, dtype=data.dtype)
    if plan.get("slope") is not None:
        img.header.set_slope_inter(plan["slope"], plan["inter"])
    if plan.get("xyzt"):
        img.header.set_xyzt_units(plan["xyzt"])
    nibabel.save(img, path)


def check_file_affine(path, plan):
    """harness precondition (not a verdict): the file written by build_nifti
    carries the planned affine (its nearest binary64 values) - what nibabel
    reports as img.affine - and, when asked for, the planned disagreeing pixdim"""
    import nibabel

    from . import tlc
    img = nibabel.load(path)
    aff = img.affine
    lu = length_unit(plan)
    if plan["nifti"] == 1 and not (all(float32_exact(x * lu) for row in plan["A"] for x in row)
                                   and all(float32_exact(x * lu) for x in plan["a"])):
        raise tlc.MachineryError("NIfTI-1 plan whose affine is not exact in float32")
    for r in range(3):
        for k in range(3):
            if float(aff[r, k]) != float(plan["A"][r][k] * lu):
                raise tlc.MachineryError("file affine differs from the plan at (%d,%d)" % (r, k))
        if float(aff[r, 3]) != float(plan["a"][r] * lu):
            raise tlc.MachineryError("file translation differs from the plan at %d" % r)
    if plan.get("pixdim"):
        z = img.header.get_zooms()[:3]
        if [Fraction(float(x)) for x in z] != list(plan["pixdim"]):
            raise tlc.MachineryError("file pixdim differs from the plan")
    if plan.get("xyzt") and img.header.get_xyzt_units()[0] != plan["xyzt"]:
        raise tlc.MachineryError("file spatial unit differs from the plan")


def float32_exact(fr):
    try:
        return Fraction(float(np.float32(float(fr)))) == fr
    except OverflowError:
        return False


DECLARED_UNIT = {"micron": Fraction(1, 1000), "meter": Fraction(1000), "mm": Fraction(1),
                 "unknown": Fraction(1)}       # NIfTI xyzt_units, relative to the millimetre


def declared_unit(plan):
    return DECLARED_UNIT[plan.get("xyzt", "unknown")]


def lengths_under(resolution, M, floor, unit):
    """the printed lengths (resolution, translation; nanometres) re-encoded in
    case units under the convention '1 file unit = `unit` mm' (pure change of
    unit, exact).  Returns the alternative record handed to TLC."""
    alt = {"unit": q2(unit), "res": [], "t": [], "nonrat": [], "hugeres": [], "huget": []}
    for k, v in enumerate(resolution):
        q = snap_len(v, floor, unit)
        if q is None:
            alt["nonrat"].append("res%d" % k)
            q = Fraction(0)
        if abs(q) >= REACH:
            alt["hugeres"].append("res%d" % k)
            q = Fraction(0)
        alt["res"].append(q2(q))
    for r in range(3):
        q = snap_len(M[r][3], floor, unit)
        if q is None:
            alt["nonrat"].append("t%d" % r)
            q = Fraction(0)
        if abs(q) >= REACH:
            alt["huget"].append("t%d" % r)
            q = Fraction(0)
        alt["t"].append(q2(q))
    return alt


def observe(info, transform, vmin_mm, decls=(), base=Fraction(1)):
    """re-encode what the tool produced (no comparison with any expectation).
    The lengths are encoded in the millimetre convention (1 file unit = 1 mm);
    for every other unit in `decls` (units declared by the files involved) an
    alternative encoding of the SAME printed numbers is added to o["alts"].
    `base` = the length unit of the case's affine in mm (length_unit(plan)): the
    printed lengths are expressed in the same unit as the oracle's A and a."""
    o = _observe_mm(info, transform, vmin_mm, base)
    pure = [n for n in o["nonrat"] if not (n.startswith("res") or n.startswith("t"))]
    o["alts"] = []
    for u in sorted(set(decls)):
        if u != 1:
            alt = lengths_under(info["scales"][0]["resolution"], transform, Fraction(vmin_mm), u * base)
            alt["unit"] = q2(u)
            alt["nonrat"] = pure + alt["nonrat"]
            o["alts"].append(alt)
    return o


def _observe_mm(info, transform, vmin_mm, base=Fraction(1)):
    o = {"ok": True, "nonrat": [], "hugeres": [], "huget": [], "hugeT": [], "hugebottom": []}
    sc = info["scales"][0]
    o["size"] = [int(v) if float(v).is_integer() else -1 for v in sc["size"]]
    nc = info["num_channels"]
    o["channels"] = int(nc) if isinstance(nc, int) else -1
    o["dtype"] = str(info["data_type"])
    sh = sc.get("sharding")
    if sh is None:
        o["shard"] = {"present": False, "rec": {"type": "none"}}
    else:
        rec = {("type" if k == "@type" else k): v for k, v in sh.items()}
        o["shard"] = {"present": True, "rec": rec}
    floor_mm = Fraction(vmin_mm)
    res = []
    for k, v in enumerate(sc["resolution"]):
        q = snap_len(v, floor_mm, base)
        if q is None:
            o["nonrat"].append("res%d" % k)
            q = Fraction(0)
        if abs(q) >= REACH:
            o["hugeres"].append("res%d" % k)
            q = Fraction(0)
        res.append(q2(q))
    o["res"] = res
    T, t = [], []
    M = transform
    for r in range(3):
        row = []
        for k in range(3):
            q = snap(M[r][k], 1)
            if q is None:
                o["nonrat"].append("T%d%d" % (r, k))
                q = Fraction(0)
            if abs(q) >= REACH_PURE:
                o["hugeT"].append("T%d%d" % (r, k))
                q = Fraction(0)
            row.append(q2(q))
        T.append(row)
        q = snap_len(M[r][3], floor_mm, base)
        if q is None:
            o["nonrat"].append("t%d" % r)
            q = Fraction(0)
        if abs(q) >= REACH:
            o["huget"].append("t%d" % r)
            q = Fraction(0)
        t.append(q2(q))
    o["T"], o["t"] = T, t
    bottom = []
    for k in range(4):
        q = snap(M[3][k], 1) if len(M) > 3 else None
        if q is None:
            o["nonrat"].append("bottom%d" % k)
            q = Fraction(0)
        if abs(q) >= REACH_PURE:
            o["hugebottom"].append("bottom%d" % k)
            q = Fraction(0)
        bottom.append(q2(q))
    o["bottom"] = bottom
    return o


def snap_len(x_nm, floor_mm, unit=Fraction(1)):
    """a length printed in nanometres -> rational in case units (K per file
    unit; one file unit = `unit` mm, the millimetre by default)"""
    if isinstance(x_nm, bool) or not isinstance(x_nm, (int, float)) or not math.isfinite(x_nm):
        return None
    X = Fraction(x_nm) / (10 ** 6 * unit)            # exact, in file units
    tol = REL * max(abs(X), floor_mm)
    q = simplest_between(X - tol, X + tol)
    if q.denominator > MAX_DEN:
        return None
    return q * K


def data_facts(path, ignore_scaling):
    f = vd.file_facts(path)
    raw = f["czyx"]
    s, i = (Fraction(1), Fraction(0)) if ignore_scaling else (Fraction(f["slope"]), Fraction(f["inter"]))
    vals = [Fraction(v) * s + i for v in (raw.min().item(), raw.max().item())]
    lo, hi = min(vals), max(vals)
    integer = s.denominator == 1 and i.denominator == 1 and \
        bool(np.all(np.asarray(raw, dtype=np.float64) == np.floor(np.asarray(raw, dtype=np.float64))))
    return {"lo": math.floor(lo), "hi": math.ceil(hi), "integer": integer}, f


def cli_args(plan, nii, out):
    """argv of volume-to-precomputed --generate-info, the equivalent `options`
    of the Python API, and the sharding request [mb, sb, pb, enc] or None"""
    argv = ["volume-to-precomputed", nii, out, "--generate-info"]
    opts = {}
    if plan.get("ignore_scaling"):
        argv.append("--ignore-scaling")
    sh = plan.get("sharding")
    if sh:
        argv += ["--sharding", "%d,%d,%d" % (sh[0], sh[1], sh[2])]
        opts = api_opts(sh)
        if sh[3] == "raw":
            argv.append("--no-gzip")
    return argv, opts, sh


def api_opts(sh):
    if not sh:
        return {}
    return {"sharding": "%d,%d,%d" % (sh[0], sh[1], sh[2]), "gzip": sh[3] == "gzip"}


def req_of(sh):
    """the sharding request one generation was given (part of its observation)"""
    return {"given": bool(sh), "mb": sh[0] if sh else 0, "sb": sh[1] if sh else 0,
            "pb": sh[2] if sh else 0, "enc": sh[3] if sh else "raw"}


def toggled_sharding(plan, shape):
    """the OTHER sharding choice for a second generation from the same image
    object: none when the plan has one, else one derived from the shape"""
    if plan.get("sharding"):
        return None
    return [shape[0] % 6, shape[1] % 6, shape[2] % 5, "gzip" if (shape[0] + shape[1]) % 2 else "raw"]


def read_pair(out, vmin, decls=(), base=Fraction(1)):
    """re-encode the pair info_fullres.json + transform.json found in a directory"""
    try:
        with open(os.path.join(out, "info_fullres.json")) as f:
            info = json.load(f)
        with open(os.path.join(out, "transform.json")) as f:
            tr = json.load(f)
        return observe(info, tr, vmin, decls, base)
    except Exception as e:
        return {"ok": False, "why": type(e).__name__}


def vol_record(plan, dfacts, ffacts):
    return {"layout": ffacts["layout"], "shape": ffacts["shape"], "K": [K, 1],
            "unit": q2(declared_unit(plan)), "lenunit_mm": str(length_unit(plan)),
            "A": [[q2(plan["A"][r][k]) for k in range(3)] for r in range(3)],
            "a": [q2(plan["a"][r]) for r in range(3)], "data": dfacts}


def run_info_case(work, plan, data):
    """One file through both routes, then the loaded image object used again;
    returns (case, res, transform of the first API call)."""
    import nibabel
    from neuroglancer_scripts import accessor as ngacc
    from neuroglancer_scripts import volume_reader
    from neuroglancer_scripts.scripts import volume_to_precomputed as v2p
    d = tempfile.mkdtemp(prefix="aff_", dir=work)
    try:
        nii = os.path.join(d, "in.nii")
        out = os.path.join(d, "out")
        os.makedirs(out)
        build_nifti(nii, plan, data)
        if plan.get("pixdim") or plan.get("xyzt") or plan.get("lenunit"):
            check_file_affine(nii, plan)
        dfacts, ffacts = data_facts(nii, plan.get("ignore_scaling", False))
        argv, opts, sh = cli_args(plan, nii, out)
        res = vd.run_main(v2p.main, argv, record=False)
        vmin = min(plan["vs"])
        decls = (declared_unit(plan),)
        base = length_unit(plan)
        obs = []
        o = read_pair(out, vmin, decls, base)
        o["src"] = "file"
        o["req"] = req_of(sh)
        obs.append(o)
        img = None
        try:
            with vd.silenced():
                img = nibabel.load(nii)
                fi, jt, _, _ = volume_reader.nibabel_image_to_info(
                    img, ignore_scaling=bool(plan.get("ignore_scaling")), options=opts)
            o2 = observe(json.loads(fi), [[float(x) for x in row] for row in jt], vmin, decls, base)
            compact_src = [[float(x) for x in row] for row in jt]
        except Exception as e:
            o2 = {"ok": False, "why": type(e).__name__}
            compact_src = None
        o2["src"] = "api"
        o2["req"] = req_of(sh)
        obs.append(o2)
        if img is not None:
            # the same loaded image object, used again (history of length 3 on
            # one object): other sharding choice, then the storing function
            sh2 = toggled_sharding(plan, ffacts["shape"])
            try:
                with vd.silenced():
                    fi, jt, _, _ = volume_reader.nibabel_image_to_info(
                        img, ignore_scaling=bool(plan.get("ignore_scaling")), options=api_opts(sh2))
                o3 = observe(json.loads(fi), [[float(x) for x in row] for row in jt], vmin, decls, base)
            except Exception as e:
                o3 = {"ok": False, "why": type(e).__name__}
            o3["src"] = "api2"
            o3["req"] = req_of(sh2)
            obs.append(o3)
            out2 = os.path.join(d, "out2")
            os.makedirs(out2)
            try:
                with vd.silenced():
                    acc = ngacc.get_accessor_for_url(out2, accessor_options=opts)
                    volume_reader.store_nibabel_image_to_fullres_info(
                        img, acc, ignore_scaling=bool(plan.get("ignore_scaling")), options=opts)
                o4 = read_pair(out2, vmin, decls, base)
            except Exception as e:
                o4 = {"ok": False, "why": type(e).__name__}
            o4["src"] = "store"
            o4["req"] = req_of(sh)
            obs.append(o4)
        case = dict(vol_record(plan, dfacts, ffacts), kind="info",
                    sharding=req_of(sh),
                    run={"outcome": res["outcome"], "exit": res["exit"]},
                    obs=obs)
        return case, res, compact_src
    finally:
        shutil.rmtree(d, ignore_errors=True)


PRE_STATES = ("pair", "transform_only", "info_only")


def run_rerun_case(work, plan1, data1, plan2, data2, pre):
    """--generate-info twice on ONE destination directory with two volumes.
    `pre` = what the destination holds before the second run: the "pair" left
    by the first run, "transform_only" (info_fullres.json removed) or
    "info_only" (transform.json removed).  Returns (case, [res1, res2])."""
    from neuroglancer_scripts.scripts import volume_to_precomputed as v2p
    d = tempfile.mkdtemp(prefix="rerun_", dir=work)
    try:
        out = os.path.join(d, "out")
        os.makedirs(out)
        vmin = min(min(plan1["vs"]), min(plan2["vs"]))
        decls = (declared_unit(plan1), declared_unit(plan2))
        steps, results = [], []
        for k, (plan, data) in enumerate(((plan1, data1), (plan2, data2))):
            nii = os.path.join(d, "v%d.nii" % (k + 1))
            build_nifti(nii, plan, data)
            check_file_affine(nii, plan)
            dfacts, ffacts = data_facts(nii, plan.get("ignore_scaling", False))
            argv, _, sh = cli_args(plan, nii, out)
            if k == 1:
                if pre == "transform_only":
                    os.remove(os.path.join(out, "info_fullres.json"))
                elif pre == "info_only":
                    os.remove(os.path.join(out, "transform.json"))
            res = vd.run_main(v2p.main, argv, record=False)
            o = read_pair(out, vmin, decls)
            o["src"] = "file"
            o["req"] = req_of(sh)
            steps.append({"vol": vol_record(plan, dfacts, ffacts), "req": req_of(sh),
                          "run": {"outcome": res["outcome"], "exit": res["exit"]}, "obs": o})
            results.append(res)
            if k == 0 and not o.get("ok"):
                break
        if len(steps) == 1:          # the first generation already failed: judged as such
            steps.append(steps[0])
            results.append(results[0])
        return {"kind": "rerun", "pre": pre, "first": steps[0], "second": steps[1]}, results
    finally:
        shutil.rmtree(d, ignore_errors=True)


def run_samepath_case(work, steps):
    """Several generations in ONE process from ONE file path.
    steps: [{"plan", "data"} (write / replace the file before the call) or {}
    (file left as it is), "ignore": bool, "via": "main" | "api"].  Each call
    (volume-to-precomputed main, or volume_reader.volume_file_to_info) writes
    into its own fresh destination; it is recorded together with the facts of
    the file AS IT IS ON DISK at the time of the call.
    Returns (case, [res per step])."""
    from neuroglancer_scripts import volume_reader
    from neuroglancer_scripts.scripts import volume_to_precomputed as v2p
    d = tempfile.mkdtemp(prefix="same_", dir=work)
    try:
        nii = os.path.join(d, "vol.nii")
        plans = [st["plan"] for st in steps if st.get("plan") is not None]
        vmin = min(min(p["vs"]) for p in plans)
        decls = tuple(declared_unit(p) for p in plans)
        cur = None
        recs, results = [], []
        for k, st in enumerate(steps):
            if st.get("plan") is not None:
                cur = st["plan"]
                tmp = os.path.join(d, "incoming.nii")
                build_nifti(tmp, cur, st["data"])
                os.replace(tmp, nii)                  # the file is REPLACED (new inode)
                check_file_affine(nii, cur)
            plan = dict(cur, ignore_scaling=bool(st["ignore"]))
            dfacts, ffacts = data_facts(nii, plan["ignore_scaling"])
            out = os.path.join(d, "out%d" % k)
            os.makedirs(out)
            argv, opts, sh = cli_args(plan, nii, out)
            if st["via"] == "main":
                res = vd.run_main(v2p.main, argv, record=False)
            else:
                res = vd.run_main(
                    lambda _argv: volume_reader.volume_file_to_info(
                        nii, out, ignore_scaling=plan["ignore_scaling"], options=opts),
                    [], record=False)
            o = read_pair(out, vmin, decls)
            o["src"] = st["via"]
            o["req"] = req_of(sh)
            recs.append({"vol": vol_record(plan, dfacts, ffacts), "req": req_of(sh),
                         "ignore": plan["ignore_scaling"], "via": st["via"],
                         "replaced": st.get("plan") is not None,
                         "run": {"outcome": res["outcome"], "exit": res["exit"]}, "obs": o})
            results.append(res)
        return {"kind": "history", "steps": recs}, results
    finally:
        shutil.rmtree(d, ignore_errors=True)


# per entry point, the ignore_scaling flag of the first call of this process
# that relied on the function's DEFAULT `options` argument (recorded for
# replays: a default argument object lives as long as the process)
FIRST_DEFAULT_CALL = {}
ENTRY_POINTS = ("file_to_info", "image_to_info", "store")


def _call_entry(via, nii, out, ig, kw, returned):
    import nibabel
    from neuroglancer_scripts import accessor as ngacc
    from neuroglancer_scripts import volume_reader
    if via == "file_to_info":
        return volume_reader.volume_file_to_info(nii, out, ignore_scaling=ig, **kw)
    img = nibabel.load(nii)
    if via == "store":
        return volume_reader.store_nibabel_image_to_fullres_info(
            img, ngacc.get_accessor_for_url(out), ignore_scaling=ig, **kw)
    returned.append(volume_reader.nibabel_image_to_info(img, ignore_scaling=ig, **kw))
    return 0


def prime_default_options(work, first):
    """replay aid: repeat, on a one-voxel file, the recorded first
    default-options call of each entry point of the original process"""
    import nibabel
    d = tempfile.mkdtemp(prefix="prime_", dir=work)
    try:
        nii = os.path.join(d, "one.nii")
        nibabel.save(nibabel.Nifti1Image(np.zeros((1, 1, 1), dtype=np.uint8), np.eye(4)), nii)
        for via, ig in first.items():
            if via not in FIRST_DEFAULT_CALL:
                FIRST_DEFAULT_CALL[via] = bool(ig)
                out = os.path.join(d, "out_" + via)
                os.makedirs(out)
                vd.run_main(lambda _a, via=via, out=out, ig=ig: _call_entry(via, nii, out, bool(ig), {}, []),
                            [], record=False)
    finally:
        shutil.rmtree(d, ignore_errors=True)


def run_multifile_case(work, steps, mode):
    """Several volume FILES described in ONE process through the function API.
    mode "default": every call relies on the functions' default `options`
    argument (none passed);  mode "shared": ONE caller-owned dictionary is passed
    as `options` to every call of the history.
    steps: [{"plan", "data", "ignore": bool, "via": "file_to_info" | "image_to_info" | "store"}]
    Every call gets its own file, its own destination and its own
    ignore_scaling argument, and is recorded with the facts of ITS file under
    ITS argument.  Returns (case, [res per step])."""
    d = tempfile.mkdtemp(prefix="multi_", dir=work)
    try:
        vmin = min(min(st["plan"]["vs"]) for st in steps)
        decls = tuple(declared_unit(st["plan"]) for st in steps)
        shared = {}
        kw = {"options": shared} if mode == "shared" else {}
        recs, results = [], []
        for k, st in enumerate(steps):
            plan = dict(st["plan"], ignore_scaling=bool(st["ignore"]))
            plan.pop("sharding", None)              # the options are those of the mode
            nii = os.path.join(d, "f%d.nii" % k)
            build_nifti(nii, plan, st["data"])
            dfacts, ffacts = data_facts(nii, plan["ignore_scaling"])
            out = os.path.join(d, "out%d" % k)
            os.makedirs(out)
            ig = plan["ignore_scaling"]
            if mode == "default":
                FIRST_DEFAULT_CALL.setdefault(st["via"], ig)
            returned = []
            res = vd.run_main(lambda _a, st=st, nii=nii, out=out, ig=ig, returned=returned:
                              _call_entry(st["via"], nii, out, ig, kw, returned), [], record=False)
            if st["via"] == "image_to_info":
                try:
                    fi, jt = returned[0][0], returned[0][1]
                    o = observe(json.loads(fi), [[float(x) for x in row] for row in jt], vmin, decls)
                except Exception as e:
                    o = {"ok": False, "why": type(e).__name__}
            else:
                o = read_pair(out, vmin, decls)
            o["src"] = st["via"]
            o["req"] = req_of(None)
            recs.append({"vol": vol_record(plan, dfacts, ffacts), "req": req_of(None),
                         "ignore": ig, "via": st["via"], "replaced": True, "options": mode,
                         "run": {"outcome": res["outcome"], "exit": res["exit"]}, "obs": o})
            results.append(res)
        return {"kind": "history", "steps": recs}, results
    finally:
        shutil.rmtree(d, ignore_errors=True)


def hexval(x):
    if isinstance(x, bool) or not isinstance(x, (int, float)):
        return "notanumber:" + type(x).__name__
    try:
        x = float(x)
    except OverflowError:
        return "toolarge"
    if x == 0:
        x = 0.0           # numerical equality: the sign of zero is dropped
    return x.hex()


def compact_case(M):
    """format with the real function, parse back with a JSON parser"""
    from neuroglancer_scripts import transform
    res = {"outcome": "ok", "exc": ""}
    try:
        s = transform.matrix_as_compact_urlsafe_json(M)
    except Exception as e:
        return {"kind": "compact", "M": [[hexval(x) for x in row] for row in M],
                "parsed": [["raised:" + type(e).__name__]]}, {"outcome": "raised", "exc": type(e).__name__}, ""
    try:
        back = json.loads(s.replace("_", ","))
        parsed = [[hexval(x) for x in row] for row in back]
    except Exception as e:
        parsed = [["unparseable:" + type(e).__name__]]
    return {"kind": "compact", "M": [[hexval(x) for x in row] for row in M], "parsed": parsed}, res, s
