"""Drive the real sharded writer/reader and record what it did (no judging)."""
import atexit
import contextlib
import io
import hashlib
import itertools
import json
import os
import shutil
import tempfile

from . import parsers

KEY = "s0"


def make_info(grid, cs, pb, mb, sb, enc="raw", sizes=None, dtype="uint8", channels=1, ienc=None):
    if sizes is None:
        sizes = [g * cs for g in grid]
    return {
        "type": "image", "data_type": dtype, "num_channels": channels,
        "scales": [{
            "key": KEY, "size": list(sizes), "resolution": [1, 1, 1],
            "voxel_offset": [0, 0, 0], "chunk_sizes": [[cs, cs, cs]],
            "encoding": "raw",
            "sharding": {"@type": "neuroglancer_uint64_sharded_v1",
                         "minishard_bits": mb, "shard_bits": sb,
                         "preshift_bits": pb, "hash": "identity",
                         "minishard_index_encoding": ienc or enc, "data_encoding": enc},
        }],
    }


def coords_of(pos, cs, sizes):
    c = []
    for d in range(3):
        lo = pos[d] * cs
        c += [lo, min(lo + cs, sizes[d])]
    return tuple(c)


def payload_for(pos, salt, maxlen=6):
    h = hashlib.sha256(("%s|%s" % (list(pos), salt)).encode()).digest()
    n = 1 + h[0] % maxlen
    return bytes(h[1:1 + n])


def all_pos(grid):
    return [(x, y, z) for x in range(grid[0]) for y in range(grid[1]) for z in range(grid[2])]


def run_session(*a, **kw):
    """run _run_session with the library's progress prints silenced"""
    with contextlib.redirect_stdout(io.StringIO()):
        return _run_session(*a, **kw)


_EXIT_FLUSH_CHILD = r"""
import json, sys
from neuroglancer_scripts import sharded_file_accessor as sfa
job = json.load(open(sys.argv[1]))
acc = sfa.ShardedFileAccessor(job["dir"], strategy=job["strategy"])
errs = []
for pos, pay, coords in job["stores"]:
    try:
        acc.store_chunk(bytes(pay), job["key"], tuple(coords))
    except Exception as e:
        errs.append({"pos": pos, "cls": type(e).__name__})
json.dump(errs, open(sys.argv[2], "w"))
# no close(): the accessor registered its own close() with atexit
"""


def _run_session(workdir, cfg, order, strategy="in memory", salt=0, fetch_all=True,
                parse=True, cs=4, sizes=None, payload_fn=None, exit_flush=False,
                close_after=None, reuse_buffer=False, fetch_positions=None, coord_type=None):
    # close_after: the accessor is closed after that many stores and the session goes on
    #   with the SAME object (the caller makes sure the rest goes to other shards);
    # reuse_buffer: every payload is handed over in ONE bytearray that the caller
    #   overwrites for the next chunk
    """One store/close/reopen/fetch cycle on the real ShardedFileAccessor.

    cfg: dict(grid, pb, mb, sb, enc).  order: list of positions to store.
    Returns a dict with everything observable; no verdicts."""
    from neuroglancer_scripts import sharded_file_accessor as sfa
    grid = cfg["grid"]
    enc = cfg.get("enc", "raw")
    if sizes is None:
        # last chunk of each axis is partial when the grid has > 1 chunk there
        sizes = [g * cs - (1 if g > 1 else 0) for g in grid]
    ienc = cfg.get("ienc") or enc
    info = make_info(grid, cs, cfg["pb"], cfg["mb"], cfg["sb"], enc, sizes, ienc=ienc)
    d = tempfile.mkdtemp(prefix="ds_", dir=workdir)
    with open(os.path.join(d, "info"), "w") as f:
        json.dump(info, f)
    old_tmp = tempfile.tempdir
    tempfile.tempdir = workdir
    rec = {"cfg": {"grid": list(grid), "pb": cfg["pb"], "mb": cfg["mb"], "sb": cfg["sb"]},
           "enc": enc, "ienc": ienc, "strategy": strategy, "stores": [], "storeerr": [], "ids": [],
           "files": [], "fetch": [], "framing": [], "closeerr": None, "coord_type": coord_type}
    try:
        if exit_flush:
            # a writer PROCESS that stores and simply ends: the flush is the accessor's
            # own exit handler (registered in its constructor)
            import subprocess
            import sys
            job = os.path.join(workdir, "job_%s.json" % os.path.basename(d))
            rep = job + ".rep"
            stores = [[list(pos), list((payload_fn or payload_for)(pos, salt)), list(coords_of(pos, cs, sizes))]
                      for pos in order]
            with open(job, "w") as f:
                json.dump({"dir": d, "strategy": strategy, "key": KEY, "stores": stores}, f)
            env = dict(os.environ, TMPDIR=workdir, PYTHONDONTWRITEBYTECODE="1")
            p = subprocess.run([sys.executable, "-c", _EXIT_FLUSH_CHILD, job, rep], env=env,
                               capture_output=True, text=True, timeout=300)
            errs = json.load(open(rep)) if os.path.exists(rep) else [{"pos": [-1, -1, -1], "cls": "child:rc%d" % p.returncode}]
            bad = {tuple(e["pos"]) for e in errs}
            rec["stores"] = [{"pos": st[0], "pay": st[1]} for st in stores if tuple(st[0]) not in bad]
            rec["storeerr"] = errs
            rec["exit_flush"] = True
            rec["child_rc"] = p.returncode
            for q in (job, rep):
                if os.path.exists(q):
                    os.unlink(q)
        acc = sfa.ShardedFileAccessor(d, strategy=strategy)
        try:
            shared = bytearray()
            for n_done, pos in enumerate([] if exit_flush else order):
                pay = (payload_fn or payload_for)(pos, salt)
                if close_after is not None and n_done == close_after:
                    try:
                        acc.close()
                    except Exception as e:
                        rec["storeerr"].append({"pos": [-1, -1, -1], "cls": "midclose:" + type(e).__name__})
                arg = pay
                if reuse_buffer:
                    shared[:] = pay
                    arg = shared
                try:
                    cc = coords_of(pos, cs, sizes)
                    if coord_type:
                        # coordinates computed with numpy (np.arange grids): numpy integer scalars
                        import numpy as np
                        cc = tuple(np.dtype(coord_type).type(v) for v in cc)
                    acc.store_chunk(arg, KEY, cc)
                    rec["stores"].append({"pos": list(pos), "pay": list(pay)})
                except Exception as e:  # recorded, judged by TLC
                    rec["storeerr"].append({"pos": list(pos), "cls": type(e).__name__})
            try:
                acc.close()
            except Exception as e:
                rec["closeerr"] = type(e).__name__
                rec["storeerr"].append({"pos": [-1, -1, -1], "cls": "close:" + type(e).__name__})
        finally:
            atexit.unregister(acc.close)
        sdir = os.path.join(d, KEY)
        names = sorted(os.listdir(sdir)) if os.path.isdir(sdir) else []
        hashes = []
        framing = set()
        for n in names:
            p = os.path.join(sdir, n)
            with open(p, "rb") as f:
                raw = f.read()
            hashes.append(n + ":" + hashlib.sha1(raw).hexdigest())
            if parse and n.endswith(".shard"):
                form, fr = parsers.parse_shard(raw, n[:-len(".shard")], cfg["mb"], ienc, enc)
                rec["files"].append(form)
                framing.update(fr)
        rec["hash"] = "|".join(hashes)
        rec["framing"] = sorted(framing)
        if fetch_all:
            acc2 = sfa.ShardedFileAccessor(d)
            try:
                for pos in (fetch_positions if fetch_positions is not None else all_pos(grid)):
                    try:
                        b = acc2.fetch_chunk(KEY, coords_of(pos, cs, sizes))
                        if isinstance(b, (bytes, bytearray)):
                            rec["fetch"].append({"pos": list(pos), "st": "bytes", "data": list(b)})
                        else:
                            rec["fetch"].append({"pos": list(pos), "st": "other", "data": []})
                    except Exception as e:
                        rec["fetch"].append({"pos": list(pos), "st": "exc", "data": [],
                                             "cls": type(e).__name__})
            finally:
                atexit.unregister(acc2.close)
    finally:
        tempfile.tempdir = old_tmp
        rec["dir"] = d
    return rec


def run_multiscale(workdir, cfgs, order, strategy="in memory", salt=0, cs=4):
    """ONE accessor object writes several scales of one dataset (different grids, different
    sharding parameters), the stores of the scales interleaved as `order` says.

    cfgs: list of dict(grid, pb, mb, sb, enc[, ienc]); order: list of (scale index, pos).
    Returns one record per scale, each in the format of _run_session (judged separately)."""
    from neuroglancer_scripts import sharded_file_accessor as sfa
    keys = ["s%d" % k for k in range(len(cfgs))]
    sizes = [[g * cs - (1 if g > 1 else 0) for g in cfg["grid"]] for cfg in cfgs]
    info = None
    for k, cfg in enumerate(cfgs):
        enc = cfg.get("enc", "raw")
        one = make_info(cfg["grid"], cs, cfg["pb"], cfg["mb"], cfg["sb"], enc, sizes[k], ienc=cfg.get("ienc") or enc)
        one["scales"][0]["key"] = keys[k]
        one["scales"][0]["resolution"] = [2 ** k] * 3
        if info is None:
            info = one
        else:
            info["scales"].append(one["scales"][0])
    d = tempfile.mkdtemp(prefix="ms_", dir=workdir)
    with open(os.path.join(d, "info"), "w") as f:
        json.dump(info, f)
    old_tmp = tempfile.tempdir
    tempfile.tempdir = workdir
    recs = [{"cfg": {"grid": list(cfg["grid"]), "pb": cfg["pb"], "mb": cfg["mb"], "sb": cfg["sb"]},
             "enc": cfg.get("enc", "raw"), "ienc": cfg.get("ienc") or cfg.get("enc", "raw"),
             "strategy": strategy, "stores": [], "storeerr": [], "ids": [], "files": [], "fetch": [],
             "framing": [], "closeerr": None, "scale": k,
             "multiscale": {"cfgs": [dict(c) for c in cfgs], "order": [[j, list(q)] for j, q in order],
                            "salt": salt, "strategy": strategy}}
            for k, cfg in enumerate(cfgs)]
    try:
        with contextlib.redirect_stdout(io.StringIO()):
            acc = sfa.ShardedFileAccessor(d, strategy=strategy)
            try:
                for k, pos in order:
                    pay = payload_for(pos, salt + k)
                    try:
                        acc.store_chunk(pay, keys[k], coords_of(pos, cs, sizes[k]))
                        recs[k]["stores"].append({"pos": list(pos), "pay": list(pay)})
                    except Exception as e:  # recorded, judged by TLC
                        recs[k]["storeerr"].append({"pos": list(pos), "cls": type(e).__name__})
                try:
                    acc.close()
                except Exception as e:
                    for r in recs:
                        r["closeerr"] = type(e).__name__
                        r["storeerr"].append({"pos": [-1, -1, -1], "cls": "close:" + type(e).__name__})
            finally:
                atexit.unregister(acc.close)
            acc2 = sfa.ShardedFileAccessor(d)
            try:
                for k, cfg in enumerate(cfgs):
                    sdir = os.path.join(d, keys[k])
                    names = sorted(os.listdir(sdir)) if os.path.isdir(sdir) else []
                    hashes, framing = [], set()
                    for n in names:
                        with open(os.path.join(sdir, n), "rb") as f:
                            raw = f.read()
                        hashes.append(n + ":" + hashlib.sha1(raw).hexdigest())
                        if n.endswith(".shard"):
                            form, fr = parsers.parse_shard(raw, n[:-len(".shard")], cfg["mb"], recs[k]["ienc"], recs[k]["enc"])
                            recs[k]["files"].append(form)
                            framing.update(fr)
                    recs[k]["hash"] = "|".join(hashes)
                    recs[k]["framing"] = sorted(framing)
                    for pos in all_pos(cfg["grid"]):
                        try:
                            b = acc2.fetch_chunk(keys[k], coords_of(pos, cs, sizes[k]))
                            if isinstance(b, (bytes, bytearray)):
                                recs[k]["fetch"].append({"pos": list(pos), "st": "bytes", "data": list(b)})
                            else:
                                recs[k]["fetch"].append({"pos": list(pos), "st": "other", "data": []})
                        except Exception as e:
                            recs[k]["fetch"].append({"pos": list(pos), "st": "exc", "data": [], "cls": type(e).__name__})
            finally:
                atexit.unregister(acc2.close)
    finally:
        tempfile.tempdir = old_tmp
        shutil.rmtree(d, ignore_errors=True)
    for r in recs:
        r["dir"] = None
    return recs


def drop_dir(rec):
    shutil.rmtree(rec.pop("dir", ""), ignore_errors=True)


def structured_orders(ids_sorted):
    """Ascending, descending, rotations, an interleaving - for a list of
    positions already sorted by identifier."""
    n = len(ids_sorted)
    outs = [list(ids_sorted), list(reversed(ids_sorted))]
    for r in (1, n // 2):
        if 0 < r < n:
            outs.append(ids_sorted[r:] + ids_sorted[:r])
    ev, od = ids_sorted[::2], ids_sorted[1::2]
    outs.append(od + ev)
    uniq = []
    for o in outs:
        if o not in uniq:
            uniq.append(o)
    return uniq


def morton_ref(grid, pos):
    """Only used to ORDER positions when building structured histories (never
    for a verdict)."""
    nb = [max(0, (g - 1).bit_length()) for g in grid]
    code, j = 0, 0
    for i in range(max(nb) if nb else 0):
        for d in range(3):
            if (1 << i) < grid[d]:
                code |= ((pos[d] >> i) & 1) << j
                j += 1
    return code


def run_sessions(workdir, cfg, hist, salt=0, cs=4):
    """Replay a multi-session history (store / dup / close / reopen events of
    spec/ShardSessions.tla) on real accessor objects; returns the observed
    outcome of every duplicate store and the set of positions a fresh reader
    can fetch (non-empty bytes equal to the LAST payload stored for them)."""
    from neuroglancer_scripts import sharded_file_accessor as sfa
    grid = cfg["grid"]
    sizes = [g * cs - (1 if g > 1 else 0) for g in grid]
    info = make_info(grid, cs, cfg["pb"], cfg["mb"], cfg["sb"], "raw", sizes)
    d = tempfile.mkdtemp(prefix="ms_", dir=workdir)
    with open(os.path.join(d, "info"), "w") as f:
        json.dump(info, f)
    old_tmp = tempfile.tempdir
    tempfile.tempdir = workdir
    dups, last = [], {}
    gen = 0
    try:
        with contextlib.redirect_stdout(io.StringIO()):
            acc = sfa.ShardedFileAccessor(d, strategy="in memory")
            for ev in hist:
                kind = ev[0]
                if kind in ("store", "dup"):
                    pos = tuple(ev[1])
                    gen += 1
                    pay = payload_for(pos, "%s/%d" % (salt, gen))
                    try:
                        acc.store_chunk(pay, KEY, coords_of(pos, cs, sizes))
                        last[pos] = pay
                        if kind == "dup":
                            dups.append("replaced")
                    except RuntimeError:
                        dups.append("raised")
                    except Exception as e:
                        dups.append("other:" + type(e).__name__)
                elif kind == "close":
                    acc.close()
                elif kind == "reopen":
                    atexit.unregister(acc.close)
                    acc = sfa.ShardedFileAccessor(d, strategy="in memory")
            atexit.unregister(acc.close)
            rd = sfa.ShardedFileAccessor(d)
            visible = []
            for pos in all_pos(grid):
                try:
                    b = rd.fetch_chunk(KEY, coords_of(pos, cs, sizes))
                    if b and last.get(tuple(pos)) == bytes(b):
                        visible.append(list(pos))
                    elif b:
                        visible.append(list(pos) + ["stale"])
                except Exception:
                    pass
            atexit.unregister(rd.close)
    finally:
        tempfile.tempdir = old_tmp
        shutil.rmtree(d, ignore_errors=True)
    return {"dups": dups, "visible": sorted(visible)}
