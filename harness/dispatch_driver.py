"""Dataset life cycle through the REAL accessor dispatcher (spec/Dispatch.tla).

Runs a history (metadata written / made unreadable, accessors opened through
get_accessor_for_url in every URL form and with / without the "sharding"
option, chunks stored, sessions closed) on a real directory and RECORDS, after
every step, where the chunk sits (independent readers of the plain chunk file
and of the shard file) and what accessors that the dispatcher builds right now
read.  Nothing here judges: spec/Trace_Dispatch.tla does.
"""
import atexit
import builtins
import contextlib
import gzip
import io
import json
import os
import shutil

from . import parsers, shard_driver

KEY = shard_driver.KEY
COORDS = (0, 4, 0, 4, 0, 4)
FRESH_SCHEMES = ("path", "file", "precomputed-file", "http")
IO_ERRORS = ("DataAccessError", "OSError")


def payload(v):
    return bytes([16 * v + 1]) * 64


def payload_id(buf):
    if buf is None:
        return 0
    if len(buf) == 0:
        return 0
    for v in (1, 2):
        if buf == payload(v):
            return v
    return 9


def info_bytes(kind):
    full = shard_driver.make_info((1, 1, 1), 4, 0, 0, 0)
    if kind == "sharded":
        return json.dumps(full).encode()
    if kind == "plain":
        del full["scales"][0]["sharding"]
        return json.dumps(full).encode()
    if kind == "noscales":
        full["scales"] = []
        return json.dumps(full).encode()
    if kind == "malformed":
        return b'{"type": "image", "scales": ['
    raise ValueError(kind)


def write_info(d, kind):
    p = os.path.join(d, "info")
    if kind == "absent":
        if os.path.exists(p):
            os.unlink(p)
        return
    with open(p, "wb") as f:
        f.write(info_bytes(kind))


@contextlib.contextmanager
def unreadable(path, on):
    """While active, opening `path` for reading fails with EIO (the file still
    exists: stat / is_file are untouched)."""
    if not on:
        yield
        return
    real_open, real_io_open = builtins.open, io.open
    target = os.path.realpath(path)

    def my_open(file, mode="r", *a, **kw):
        if not isinstance(file, int):
            try:
                hit = os.path.realpath(os.fspath(file)) == target
            except TypeError:
                hit = False
            if hit and "r" in mode and "+" not in mode:
                raise OSError(5, "Input/output error", os.fspath(file))
        return real_open(file, mode, *a, **kw)

    builtins.open = my_open
    io.open = my_open
    try:
        yield
    finally:
        builtins.open = real_open
        io.open = real_io_open


def url_for(d, scheme, server):
    if scheme == "path":
        return d
    if scheme == "file":
        return "file://" + d
    if scheme == "precomputed":
        return "precomputed://" + d
    if scheme == "precomputed-file":
        return "precomputed://file://" + d
    if scheme == "http":
        return server.url("")
    raise ValueError(scheme)


BAD_URLS = {"ftp": "ftp://example.org/dataset",
            "file-remote": "file://otherhost/tmp/dataset",
            "file-badpercent": "file:///tmp/%ff%fe/dataset"}
OPTS = {"unset": {}, "none": {"sharding": None}, "true": {"sharding": True}}


def classify_handle(acc):
    from neuroglancer_scripts import file_accessor, http_accessor, sharded_file_accessor, sharded_http_accessor
    if isinstance(acc, sharded_file_accessor.ShardedFileAccessor):
        return "sharded"
    if isinstance(acc, sharded_http_accessor.ShardedHttpAccessor):
        return "httpsharded"
    if isinstance(acc, file_accessor.FileAccessor):
        return "plain"
    if isinstance(acc, http_accessor.HttpAccessor):
        return "http"
    return "other:" + type(acc).__name__


def classify_exc(e):
    from neuroglancer_scripts.accessor import DataAccessError, URLError
    if isinstance(e, URLError):
        return "urlerror"
    if isinstance(e, (DataAccessError, OSError)):
        return "dataerror"
    return "other:" + type(e).__name__


def open_real(url, opts):
    from neuroglancer_scripts import accessor
    try:
        acc = accessor.get_accessor_for_url(url, dict(opts))
    except Exception as e:  # recorded
        return None, classify_exc(e)
    if hasattr(acc, "close"):
        atexit.unregister(acc.close)
    return acc, classify_handle(acc)


def observe_disk(d):
    sd = os.path.join(d, KEY)
    plain = 0
    for rel in ("0-4_0-4_0-4", "0-4/0-4/0-4"):
        for suffix in ("", ".gz"):
            p = os.path.join(sd, rel + suffix)
            if os.path.isfile(p):
                with open(p, "rb") as f:
                    raw = f.read()
                if suffix:
                    try:
                        raw = gzip.decompress(raw)
                    except Exception:
                        plain = 9
                        continue
                plain = max(plain, payload_id(raw) if raw else 9)
    shard = 0
    if os.path.isdir(sd):
        for name in sorted(os.listdir(sd)):
            if name.endswith(".shard"):
                try:
                    rec, _ = parsers.parse_shard(os.path.join(sd, name), name, 0)
                    for m in rec["minis"]:
                        for ident, pay in zip(m["ids"], m["pay"]):
                            if parsers.unbits(ident) == 0 and pay["data"]:
                                shard = max(shard, payload_id(bytes(pay["data"])))
                except Exception:
                    shard = 9
    return {"plain": plain, "shard": shard}


def fresh_reads(d, server, readable):
    out = []
    with unreadable(os.path.join(d, "info"), not readable):
        for scheme in FRESH_SCHEMES:
            acc, res = open_real(url_for(d, scheme, server), {})
            rec = {"scheme": scheme, "kind": res, "st": "err", "v": 0, "cls": ""}
            if acc is not None:
                try:
                    with contextlib.redirect_stdout(io.StringIO()):
                        buf = acc.fetch_chunk(KEY, COORDS)
                    rec["st"] = "ok"
                    rec["v"] = payload_id(buf)
                except Exception as e:  # recorded
                    rec["cls"] = type(e).__name__
            out.append(rec)
    return out


def run_history(workdir, ops, server, tid):
    """ops: list of dicts as exported by Gen_Dispatch (first: op=init)."""
    d = os.path.join(workdir, "disp_%d" % tid)
    shutil.rmtree(d, ignore_errors=True)
    os.makedirs(d)
    server.set_root(d)
    server.set_deny(())
    init = ops[0]["k"]
    write_info(d, init)
    readable = True
    handles = {}
    events = []
    for op in ops[1:]:
        e = dict(op)
        e.setdefault("res", "ok")
        name = op["op"]
        info_path = os.path.join(d, "info")
        if name == "write_info":
            write_info(d, op["k"])
        elif name == "set_readable":
            readable = bool(op["b"])
            server.set_deny(() if readable else ("/info",))
        elif name == "open":
            with unreadable(info_path, not readable):
                acc, res = open_real(url_for(d, op["scheme"], server), OPTS[op["so"]])
            handles[op["h"]] = acc
            e["res"] = res
        elif name == "open_bad":
            with unreadable(info_path, not readable):
                _acc, res = open_real(BAD_URLS[op["url"]], {})
            e["res"] = res
        elif name == "store":
            acc = handles.get(op["h"])
            try:
                with unreadable(info_path, not readable), contextlib.redirect_stdout(io.StringIO()):
                    acc.store_chunk(payload(op["v"]), KEY, COORDS, overwrite=True)
            except Exception as ex:  # recorded
                e["res"] = "err"
                e["cls"] = type(ex).__name__
                e["msg"] = str(ex)[:160]
        elif name == "close":
            acc = handles.pop(op["h"], None)
            if acc is not None and hasattr(acc, "close"):
                try:
                    with unreadable(info_path, not readable), contextlib.redirect_stdout(io.StringIO()):
                        acc.close()
                except Exception as ex:  # recorded
                    e["res"] = "err"
                    e["cls"] = type(ex).__name__
                    e["msg"] = str(ex)[:160]
        else:
            raise ValueError(name)
        e["obs"] = observe_disk(d)
        e["fresh"] = fresh_reads(d, server, readable)
        events.append(e)
    # leave no open sessions behind
    for acc in handles.values():
        if acc is not None and hasattr(acc, "close"):
            with contextlib.suppress(Exception), contextlib.redirect_stdout(io.StringIO()):
                acc.close()
    shutil.rmtree(d, ignore_errors=True)
    return {"init": init, "events": events, "ops": ops}


# ------------------------------------------------------------ history makers --
INFO_KINDS = ("absent", "plain", "sharded", "malformed", "noscales")
LOCAL = ("path", "file", "precomputed", "precomputed-file")
SCHEMES = LOCAL + ("http",)


def directed_histories():
    """The decision table with a store behind every row: metadata kind x readable x URL form x
    option, then store, close, (readable again), a second session."""
    out = []
    for k in INFO_KINDS:
        for unread in (False, True):
            if unread and k == "absent":
                continue
            for scheme in LOCAL:
                for so in ("unset", "none", "true"):
                    ops = [{"op": "init", "k": k}]
                    if unread:
                        ops.append({"op": "set_readable", "b": False})
                    ops += [{"op": "open", "h": "h1", "scheme": scheme, "so": so},
                            {"op": "store", "h": "h1", "v": 1},
                            {"op": "close", "h": "h1"}]
                    if unread:
                        ops.append({"op": "set_readable", "b": True})
                    ops += [{"op": "open", "h": "h2", "scheme": "path", "so": "unset"},
                            {"op": "store", "h": "h2", "v": 2},
                            {"op": "close", "h": "h2"}]
                    out.append(ops)
    # the destination is opened WITH the sharding option before its metadata exists (convert-chunks
    # --copy-info, volume-to-precomputed --sharding), the sharded metadata is written, then chunks
    for scheme in LOCAL:
        for first in ("absent", "malformed", "noscales"):
            out.append([{"op": "init", "k": first},
                        {"op": "open", "h": "h1", "scheme": scheme, "so": "true"},
                        {"op": "write_info", "k": "sharded"},
                        {"op": "store", "h": "h1", "v": 1},
                        {"op": "close", "h": "h1"},
                        {"op": "open", "h": "h2", "scheme": "path", "so": "unset"},
                        {"op": "store", "h": "h2", "v": 2},
                        {"op": "close", "h": "h2"}])
    return out


def random_history(rng, n):
    """Weighted random walk that respects the preconditions of Dispatch.tla's actions (stores are as
    likely as opens, unlike in TLC's uniform simulation)."""
    info = rng.choice(INFO_KINDS + ("sharded", "plain"))
    ops = [{"op": "init", "k": info}]
    readable = True
    kind = {"h1": None, "h2": None}
    while len(ops) <= n:
        r = rng.random()
        if r < 0.10:
            k = rng.choice([x for x in INFO_KINDS if x != info])
            info = k
            ops.append({"op": "write_info", "k": k})
        elif r < 0.22:
            readable = not readable
            ops.append({"op": "set_readable", "b": readable})
        elif r < 0.27:
            ops.append({"op": "open_bad", "url": rng.choice(sorted(BAD_URLS))})
        elif r < 0.50:
            closed = [h for h in kind if kind[h] is None]
            if not closed:
                continue
            h = rng.choice(closed)
            scheme = rng.choice(LOCAL + LOCAL + ("http",))
            kind[h] = "local" if scheme != "http" else "http"
            ops.append({"op": "open", "h": h, "scheme": scheme, "so": rng.choice(["unset", "unset", "none", "true"])})
        elif r < 0.80:
            loc = [h for h in kind if kind[h] == "local"]
            if not loc:
                continue
            ops.append({"op": "store", "h": rng.choice(loc), "v": rng.choice([1, 2])})
        else:
            opened = [h for h in kind if kind[h] is not None]
            if not opened:
                continue
            h = rng.choice(opened)
            kind[h] = None
            ops.append({"op": "close", "h": h})
    return ops
