"""REPORT half of C20: the numbers printed by `scale-stats` match the dataset
the conversion commands actually produce.

Entry point for harness/props/c20.py:

    from .. import stats_report
    summary = stats_report.report_check(ctx)        # ctx: the C20 Ctx

`report_check` builds programs of the documented workflow with `scale-stats`
run at every stage (info only / full resolution written from a volume or from
a slice stack / pyramid computed /
all-in-one / converted destination; unsharded and sharded; several data types,
channel counts and sizes on both sides of the "B" / "kiB", one-decimal /
no-decimal formatting boundaries), runs them as REAL sub-processes
(pipeline_driver), tokenises the stdout losslessly and has TLC judge the traces
with spec/Trace_Pipeline.tla:

    oracle:StatsReportMissing  exit 0 but a scale line / the total is missing
    oracle:StatsChunkCount     chunks of a completely produced scale /= number
                               of chunks found on disk (files, or non-empty
                               minishard-index entries of the .shard files)
    oracle:StatsByteSize       shown size not within half a unit of its last
                               digit of prod(size) * itemsize * channels
                               ( = length of the decoded scale * itemsize)
    oracle:StatsTotals         totals /= sums (of the reported per-line counts, of
                               the chunks on disk, of the true sizes); an info
                               may list several chunk_sizes per scale: one line
                               per chunking, every chunking counts

The statistics function API is also called in-process for datasets A, B, A in one
interpreter, and datasets with entirely zero chunks are converted and reported.

(the other clauses of Trace_Pipeline are evaluated as well - a violation of any
of them is reported under the clause's own name).  Violations are registered
with ctx.violation(clause, sig, detail) by this function; DRIFT with
ctx.note_drift.  With account=True (default) it also calls ctx.count() once per
scale-stats invocation and ctx.nontrivial(("report", ...)) for every invocation
on a dataset with at least one completely produced scale.

Returns {"programs", "stats_runs", "stats_runs_on_produced_data", "verdicts"}.
`replay_report(ctx, path)` re-runs a replay file written for such a violation
(detail["label"] == "report"): returns 1 when the violation reproduces.
"""
import json

from . import pipeline_check as pc
from . import pipeline_driver as pd

C = pd.cmd


def _volumes(rng, quick):
    """(volume spec, sharded?, type, enc) classes; sizes chosen around the
    formatting boundaries of the report."""
    out = []

    def vol(shape, dtype, voxel, **kw):
        v = {"shape": shape, "dtype": dtype, "voxel": voxel, "kind": kw.pop("kind", "noise"), "perfect": True}
        v.update(kw)
        v["nall"] = min(3, pd.n_levels(shape, voxel))
        return v

    aniso = [1.0, 2.0, 4.0]
    iso = [1.0, 1.0, 1.0]
    # < 1000 B at the coarse scales, 1.0 .. 9.9 kiB and >= 10 kiB at the fine ones
    out.append((vol([300, 3, 2], "uint8", aniso), False, "image", "raw"))
    out.append((vol([260, 4, 3], "uint8", iso), True, "image", "raw"))
    out.append((vol([290, 4, 3], "uint16", [1.0, 4.0, 4.0]), False, "image", "raw"))
    out.append((vol([300, 4, 3, 3], "uint8", aniso), False, "image", "raw"))
    out.append((vol([270, 3, 3], "uint32", iso, kind="labels"), True, "segmentation", "compressed_segmentation"))
    out.append((vol([280, 4, 2], "uint64", aniso, kind="labels"), False, "segmentation", "raw"))
    out.append((vol([255, 5, 8], "uint8", iso), False, "image", "raw"))       # 10200 B
    out.append((vol([256, 4, 10], "uint8", iso), True, "image", "raw"))       # exactly 10 kiB, 1 scale x 4 chunks
    out.append((vol([257, 8, 5], "float32", [1.0, 1.0, 2.0]), False, "image", "raw"))
    out.append((vol([40, 5, 5], "uint8", iso), False, "image", "raw"))        # one scale, 1000 B
    out.append((vol([41, 5, 5], "uint8", iso), True, "image", "raw"))         # 1025 B -> "1.0 kiB"
    out.append((vol([300, 2, 2, 2], "uint16", aniso), False, "image", "raw"))
    # strongly anisotropic voxels: the chunk sizes differ between the axes ([128,128,16]-like),
    # and the volume spans several chunks along the thick axis only
    out.append((vol([6, 5, 40], "uint8", [1.0, 1.0, 8.0]), False, "image", "raw"))
    out.append((vol([5, 70, 4], "uint16", [1.0, 4.0, 1.0]), False, "image", "raw"))
    out.append((vol([36, 3, 4], "uint8", [8.0, 1.0, 2.0]), False, "image", "raw"))
    if not quick:
        for _ in range(60):
            dt = rng.choice(["uint8", "uint16", "uint32", "uint64", "float32"])
            sharded = rng.random() < 0.4
            if sharded:
                voxel = iso
                shape = [rng.randint(65, 310), rng.randint(1, 12), rng.randint(1, 9)]
            else:
                voxel = rng.choice([aniso, iso, [1.0, 4.0, 4.0], [2.0, 1.0, 4.0]])
                shape = [rng.randint(2, 9), rng.randint(2, 9), rng.randint(2, 9)]
                shape[voxel.index(1.0)] = rng.randint(30, 320)
            if rng.random() < 0.25 and dt in ("uint8", "uint16"):
                shape = shape + [rng.choice([2, 3])]
            seg = dt in ("uint32", "uint64") and rng.random() < 0.5
            if pd.n_levels(shape, voxel) > 3:
                continue
            out.append((vol(shape, dt, voxel, kind="labels" if seg else "noise"), sharded,
                        "segmentation" if seg else "image",
                        "compressed_segmentation" if seg and rng.random() < 0.5 else "raw"))
    return out


def _programs(ctx):
    rng = ctx.rng
    progs = []
    for k, (vol, sharded, typ, enc) in enumerate(_volumes(rng, ctx.quick)):
        sh = "s110" if sharded else "nosh"
        mx = ["all", "all", "two", "one"][k % 4]
        steps = [C("GenInfo", "A", sh=sh), C("GenScales", "A", src="A", type=typ, enc=enc, max=mx),
                 C("Stats", "A"), C("Vol", "A"), C("Stats", "A"), C("Compute", "A", m="auto"),
                 C("Stats", "A")]
        if k % 3 == 2 and vol["dtype"] in ("uint8", "uint16"):
            # the same workflow from a slice stack: hand-written full-resolution info,
            # slices-to-precomputed (sharding by editing the info)
            code = ["RPI", "LIP", "ASR", "IAL"][(k // 3) % 4]
            steps = ([C("HandInfo", "A", sh="nosh"), C("GenScales", "A", src="A", type=typ, enc=enc, max=mx)]
                     + ([C("Edit", "A", sh="s110")] if sharded else [])
                     + [C("Stats", "A"), C("Slices", "A", code=code), C("Stats", "A"),
                        C("Compute", "A", m="auto"), C("Stats", "A")])
        if k % 3 == 0:
            tail = [C("AllInOne", "B", type=typ, enc=enc, m="auto"), C("Stats", "B")]
        elif k % 3 == 1:
            tail = [C("Convert", "B", src="A", copy="copy" if not sharded else "keep"), C("Stats", "B")]
            if sharded:
                tail = [C("GenScales", "B", src="A", type=typ, enc=enc, max=mx)] + tail
        else:
            tail = [C("Stats", "B")]          # no info there: must fail, nothing to report
        progs.append({"vol": vol, "cmds": steps + tail,
                      "lay": {"A": rng.choice(list(pd.LAYOUTS)), "B": rng.choice(list(pd.LAYOUTS))},
                      "explicit": rng.random() < 0.5, "seed": rng.randrange(1 << 30),
                      "docs_shflag": rng.random() < 0.5, "shard_enc": rng.choice(["gzip", "raw"]),
                      "slice_format": ["png", "tiff"][k % 2]})
    progs += (_boundary_programs(ctx) + _multi_chunking_programs(ctx) + _zero_background_programs(ctx)
              + _in_process_programs(ctx) + _history_programs(ctx) + _slice_boundary_programs(ctx)
              + _thick_slice_programs(ctx))
    return progs


def _prog(rng, vol, cmds, **kw):
    p = {"vol": vol, "cmds": cmds,
         "lay": {"A": rng.choice(list(pd.LAYOUTS)), "B": rng.choice(list(pd.LAYOUTS))},
         "explicit": rng.random() < 0.5, "seed": rng.randrange(1 << 30),
         "docs_shflag": rng.random() < 0.5, "shard_enc": rng.choice(["gzip", "raw"])}
    p.update(kw)
    return p


def _vol(shape, dtype, voxel, tgt=64, **kw):
    v = {"shape": shape, "dtype": dtype, "voxel": voxel, "kind": kw.pop("kind", "noise"), "perfect": True}
    v.update(kw)
    v["nall"] = min(3, pd.n_levels(shape, voxel, tgt))
    return v


def _boundary_programs(ctx):
    """Volumes whose size along an axis is 1, n*chunk + 1, n*chunk, n*chunk - 1
    (each axis in turn): the chunk counts of the report against what
    volume-to-precomputed / compute-scales / the all-in-one command wrote."""
    rng = ctx.rng
    iso = [1.0, 1.0, 1.0]
    shapes = [([65, 3, 2], 64, False), ([3, 65, 2], 64, False), ([2, 3, 65], 64, False),
              ([129, 2, 1], 64, False), ([1, 5, 4], 64, False), ([5, 1, 4], 64, True),
              ([5, 4, 1], 64, False), ([64, 3, 2], 64, False), ([2, 63, 3], 64, False),
              ([3, 2, 128], 64, True), ([2, 127, 2], 64, False), ([2, 2, 129], 64, True),
              ([33, 20, 17], 16, False), ([16, 17, 33], 16, False), ([17, 1, 9], 8, False)]
    if not ctx.quick:
        for _ in range(40):
            t = rng.choice([64, 16, 8])
            n = [rng.choice([1, t - 1, t, t + 1, 2 * t, 2 * t + 1]) if rng.random() < 0.5
                 else rng.randint(1, 5) for _ in range(3)]
            if max(n) > 5 and pd.n_levels(n, iso, t) <= 3:
                shapes.append((n, t, rng.random() < 0.3))
    progs = []
    for k, (shape, tgt, sharded) in enumerate(shapes):
        vol = _vol(shape, ["uint8", "uint16"][k % 2], iso, tgt)
        cmds = [C("GenInfo", "A", sh="s110" if sharded else "nosh"),
                C("GenScales", "A", src="A", type="image", enc="raw", max="all"),
                C("Vol", "A"), C("Stats", "A"), C("Compute", "A", m="auto"), C("Stats", "A")]
        if tgt == 64:      # the all-in-one command has no chunk size option
            cmds += [C("AllInOne", "B", type="image", enc="raw", m="auto"), C("Stats", "B")]
        progs.append(_prog(rng, vol, cmds, tgt=None if tgt == 64 else tgt))
    return progs


def _zero_background_programs(ctx):
    """Datasets with ENTIRELY zero chunks (chunk-aligned background slab, all-zero
    volume), converted: the report of the destination against the chunks that
    were really written."""
    rng = ctx.rng
    progs = []
    for k, (shape, voxel, kw) in enumerate([([280, 3, 2], [1.0, 2.0, 4.0], {"zero_slab": 128}),
                                            ([270, 4, 3], [1.0, 1.0, 1.0], {"zero_slab": 128}),
                                            ([150, 4, 3], [1.0, 1.0, 1.0], {"allzero": True})]):
        vol = _vol(shape, ["uint8", "uint16"][k % 2], voxel, **kw)
        sharded = k == 1
        cmds = [C("GenInfo", "A", sh="nosh"), C("GenScales", "A", src="A", type="image", enc="raw", max="all"),
                C("Vol", "A"), C("Compute", "A", m="auto"), C("Stats", "A")]
        if sharded:
            cmds += [C("GenScales", "B", src="A", type="image", enc="raw", max="all"), C("Edit", "B", sh="s110"),
                     C("Convert", "B", src="A", copy="keep")]
        else:
            cmds += [C("Convert", "B", src="A", copy="copy")]
        cmds += [C("Stats", "B"), C("Convert", "B", src="A", copy="keep"), C("Stats", "B")]
        progs.append(_prog(rng, vol, cmds))
    return progs


def _slice_boundary_programs(ctx):
    """Slice stacks whose size along the image width (columns), the image height
    (rows) or the slice axis is n*chunk + 1 (also n*chunk, 1): the chunk counts
    of the report against what slices-to-precomputed wrote.  The orientation
    code decides which volume axis the columns / rows / slices run along."""
    rng = ctx.rng
    iso = [1.0, 1.0, 1.0]
    cases = [([65, 3, 2], 64, "RAS"), ([3, 65, 2], 64, "ARS"), ([2, 3, 65], 64, "SRA"),
             ([3, 65, 2], 64, "RPI"), ([9, 13, 5], 4, "RAS"), ([13, 5, 9], 4, "LIP"),
             ([5, 9, 13], 4, "SAL"), ([17, 1, 9], 8, "RAS"), ([33, 17, 16], 16, "PIR")]
    if not ctx.quick:
        codes = ["RAS", "LPI", "ARS", "SRA", "IAL", "PSR", "RIP", "ASL"]
        for _ in range(24):
            t = rng.choice([4, 8, 16])
            shape = [rng.choice([1, t, t + 1, 2 * t + 1, 2 * t, rng.randint(2, 3 * t)]) for _ in range(3)]
            if max(shape) > t and pd.n_levels(shape, iso, t) <= 3:
                cases.append((shape, t, rng.choice(codes)))
    progs = []
    for k, (shape, tgt, code) in enumerate(cases):
        vol = _vol(shape, ["uint8", "uint16"][k % 2], iso, tgt)
        cmds = [C("HandInfo", "A", sh="nosh"), C("GenScales", "A", src="A", type="image", enc="raw", max="all"),
                C("Slices", "A", code=code), C("Stats", "A"), C("Compute", "A", m="auto"), C("Stats", "A")]
        progs.append(_prog(rng, vol, cmds, tgt=None if tgt == 64 else tgt, slice_format=["png", "tiff"][k % 2]))
    return progs


def _thick_slice_programs(ctx):
    """Thick-slice / strongly anisotropic voxels (1x1x4, 4x1x1, 1x4x1, 1x3x1): the chunk sizes
    of consecutive scales differ per axis and SHRINK along some axes; with --max-scales the
    affected scale is the last one.  Vol, Compute, Stats."""
    rng = ctx.rng
    progs = []
    cases = [([12, 20, 8], [1.0, 1.0, 4.0], 4, "two"), ([12, 20, 8], [1.0, 1.0, 4.0], 4, "all"),
             ([8, 12, 20], [4.0, 1.0, 1.0], 4, "two"), ([20, 8, 12], [1.0, 4.0, 1.0], 4, "two"),
             ([10, 22, 6], [1.0, 3.0, 1.0], 4, "two"), ([24, 40, 6], [1.0, 1.0, 4.0], 8, "two"),
             ([20, 18, 10], [2.0, 1.0, 8.0], 4, "two")]
    if not ctx.quick:
        for _ in range(20):
            t = rng.choice([4, 8])
            voxel = rng.choice([[1.0, 1.0, 4.0], [4.0, 1.0, 1.0], [1.0, 4.0, 1.0], [1.0, 3.0, 1.0], [1.0, 2.0, 8.0]])
            cases.append(([rng.randint(t + 1, 5 * t), rng.randint(t + 1, 5 * t), rng.randint(2, 3 * t)], voxel, t,
                          rng.choice(["two", "all"])))
    for k, (shape, voxel, tgt, mx) in enumerate(cases):
        lv = pd.n_levels(shape, voxel, tgt)
        if lv > 3 and mx == "all":
            mx = "two"
        vol = _vol(shape, ["uint8", "uint16"][k % 2], voxel, tgt)
        cmds = [C("GenInfo", "A", sh="nosh"), C("GenScales", "A", src="A", type="image", enc="raw", max=mx),
                C("Vol", "A"), C("Stats", "A"), C("Compute", "A", m=["auto", "stride"][k % 2]), C("Stats", "A")]
        progs.append(_prog(rng, vol, cmds, tgt=tgt))
    return progs


def _history_programs(ctx):
    """Histories after which the report must still equal the dataset:
      - compute-scales run again after a run that failed half way (one input chunk hidden while
        the last scale is written, then restored);
      - convert-chunks into a destination whose info lists MORE (and fewer) scales than the source;
      - volume-to-precomputed into a sharded destination whose first shard file cannot be written."""
    rng = ctx.rng
    iso = [1.0, 1.0, 1.0]
    progs = []
    gen = lambda sh="nosh", mx="all": [C("GenInfo", "A", sh=sh),
                                       C("GenScales", "A", src="A", type="image", enc="raw", max=mx)]
    for shape, tgt, dt in [([70, 10, 8], 16, "uint8"), ([40, 6, 5], 8, "uint16")] + (
            [] if ctx.quick else [([rng.randint(66, 120), rng.randint(3, 9), rng.randint(2, 6)], 16, "uint8")
                                  for _ in range(6)]):
        vol = _vol(shape, dt, iso, tgt)
        vol["nall"] = min(vol["nall"], 2)
        progs.append(_prog(rng, vol, gen(mx="two") + [C("Vol", "A"), C("Damage", "A", m="hide"),
                                                      C("Compute", "A", m="auto"), C("Stats", "A"),
                                                      C("Restore", "A"), C("Compute", "A", m="auto"),
                                                      C("Stats", "A")], tgt=tgt))
    for src_max, dst_max, shape, voxel in [("two", "all", [300, 3, 2], [1.0, 2.0, 4.0]),
                                           ("one", "all", [270, 4, 3], iso),
                                           ("all", "two", [290, 3, 2], [1.0, 2.0, 4.0])]:
        vol = _vol(shape, "uint8", voxel)
        progs.append(_prog(rng, vol, gen(mx=src_max) + [C("Vol", "A"), C("Compute", "A", m="auto"),
                                                        C("GenScales", "B", src="A", type="image", enc="raw",
                                                          max=dst_max),
                                                        C("Stats", "B"), C("Convert", "B", src="A", copy="keep"),
                                                        C("Stats", "B")]))
    progs.append(_prog(rng, _vol([270, 3, 2], "uint8", iso),
                       gen("s110") + [C("Obstruct", "A", m="first"), C("Vol", "A"), C("Stats", "A")]))
    return progs


def _in_process_programs(ctx):
    """The statistics FUNCTION API (scripts.scale_stats.show_scale_file_info) called
    for several datasets in a row in ONE interpreter: dataset A, dataset B, dataset
    A again (pipeline_driver.run_linked).  Every report is judged against the
    dataset it was asked about."""
    rng = ctx.rng
    progs = []
    groups = [(([300, 3, 2], "uint8", [1.0, 2.0, 4.0], "nosh"), ([200, 4, 3], "uint16", [1.0, 4.0, 4.0], "nosh")),
              (([260, 4, 3], "uint8", [1.0, 1.0, 1.0], "s110"), ([40, 5, 5], "uint8", [1.0, 1.0, 1.0], "nosh"))]
    if not ctx.quick:
        groups += [(([rng.randint(130, 300), rng.randint(2, 5), rng.randint(2, 4)], rng.choice(["uint8", "uint16", "float32"]),
                     [1.0, 1.0, 1.0], rng.choice(["nosh", "s110"])),
                    ([rng.randint(30, 300), rng.randint(2, 5), rng.randint(2, 4)], rng.choice(["uint8", "uint32"]),
                     [1.0, 1.0, 1.0], "nosh")) for _ in range(8)]
    for g, (a, b) in enumerate(groups):
        for n, (shape, dt, voxel, sh) in enumerate((a, b)):
            build = [C("GenInfo", "A", sh=sh), C("GenScales", "A", src="A", type="image", enc="raw", max="all"),
                     C("Vol", "A"), C("Compute", "A", m="auto")]
            if g % 2 == 1 and n == 1:
                build = build[:2]               # the info alone
            ncall = 2 if n == 0 else 1          # call order: A, B, A
            progs.append(_prog(rng, _vol(shape, dt, voxel), build + [C("Stats", "A")] * ncall,
                               link="stats%d" % g, link_calls=ncall))
    return progs


def _multi_chunking_programs(ctx):
    """Infos that list SEVERAL chunk_sizes per scale (allowed by the format): one
    report line per chunking, totals over all of them - on the info alone (hand
    edit) and on datasets in which every chunking is stored (re-tiled source,
    convert-chunks destination)."""
    rng = ctx.rng
    iso = [1.0, 1.0, 1.0]
    progs = []
    specs = [([24, 20, 18], 8, "cs4", "uint8"), ([40, 12, 9], 16, "cs8", "uint16"),
             ([20, 20, 12], 8, "cs4x2x8,4", "uint8"), ([30, 9, 7], 16, "cs8,4,2x4x4", "uint32")]
    if not ctx.quick:
        specs += [([rng.randint(17, 40), rng.randint(5, 20), rng.randint(3, 12)], rng.choice([8, 16]),
                   rng.choice(["cs4", "cs4,2", "cs8x4x2", "cs2x2x4,4"]), rng.choice(["uint8", "uint16"]))
                  for _ in range(12)]
    for k, (shape, tgt, cs, dt) in enumerate(specs):
        vol = _vol(shape, dt, iso, tgt)
        gen = [C("GenInfo", "A", sh="nosh"), C("GenScales", "A", src="A", type="image", enc="raw", max="all")]
        # the info alone, edited by hand
        progs.append(_prog(rng, vol, gen + [C("Edit", "A", m=cs, sh="keep"), C("Stats", "A")], tgt=tgt))
        # every chunking stored: re-tiled source, then a converted copy
        progs.append(_prog(rng, vol, gen + [C("Vol", "A"), C("Compute", "A", m="auto"),
                                            C("Rechunk", "A", m=cs), C("Stats", "A"),
                                            C("Convert", "B", src="A", copy="copy"), C("Stats", "B")],
                           tgt=tgt))
    return progs


def report_check(ctx, account=True):
    """See the module docstring.  Registers violations / drift on ctx."""
    progs = _programs(ctx)
    for p in progs:
        # fault-free programs: scale-stats must report; the data-writing commands the report is
        # compared with must succeed too (pipeline_check.must_ops drops this for fault programs)
        p.setdefault("mustops", ["Stats", "Vol", "Slices", "Compute", "Convert", "AllInOne"])
    res = pc.run_and_judge(ctx, progs, workers=12, chunk=100, label="report")
    summary = {"programs": len(res), "stats_runs": 0, "stats_runs_on_produced_data": 0, "verdicts": {}}
    for p, case, (st, clause, pos) in res:
        summary["verdicts"][clause] = summary["verdicts"].get(clause, 0) + 1
        for ev in case["events"]:
            if ev["cmd"]["op"] != "Stats":
                continue
            summary["stats_runs"] += 1
            if account:
                ctx.count()
            sd = ev["snap"][ev["cmd"]["d"]]
            done = [s for s in sd["scales"] if s["vox"]]
            if ev["exit"] == 0 and done:
                summary["stats_runs_on_produced_data"] += 1
                if account:
                    ctx.nontrivial(json.dumps(["report", sd["info"]["dtype"], sd["info"]["channels"],
                                               [s["size"] for s in sd["scales"]],
                                               [s["sharded"] for s in sd["scales"]], len(done)]))
    ctx.notes["report_check"] = summary
    if res:
        p, case, v = res[0]
        ctx.sample({"report_program": [pd.cmd_str(c) for c in p["cmds"]], "vol": p["vol"],
                    "stdout": [lg["stdout"] for lg in case["_log"] if lg["stdout"]][-1:],
                    "verdict": list(v)})
    return summary


def replay_report(ctx, path):
    return pc.replay_prog(ctx, path)


def extra_cases(ctx):
    """Name expected by the hook in harness/props/c20.py:
        from .. import stats_report
        def extra_cases(ctx):
            return stats_report.extra_cases(ctx)
    and in c20.replay, before the readable_count branch:
        if d.get("label") == "report":
            return stats_report.replay_report(ctx, path)
    """
    return report_check(ctx)
