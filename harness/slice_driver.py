"""Drive the real slices-to-precomputed tool and RECORD what it did (C15).
No judging here: Trace_Orientation (TLC) decides.

A stack is written as PNG / TIFF files whose pixel value encodes where the
pixel comes from:
    value = 1 + column + ncol * (row + nrow * (slice + nslice * channel))
(channel = position in the expected output channel order: directories in
command-line order, and R,G,B inside an RGB file).  TLC decodes the values
found in the converted dataset.
"""
import os
import shutil
import tempfile

import numpy as np

from . import vol_driver as vd

AXIS = {"R": 0, "L": 0, "A": 1, "P": 1, "S": 2, "I": 2}


def out_size(code, insize):
    """size of the info file for this stack (selection only: Trace_Orientation
    re-derives it with OutSize and rejects the case if it differs)"""
    size = [0, 0, 0]
    for k in range(3):
        size[AXIS[code[k]]] = insize[k]
    return size


def encode_value(insize, c, r, s, ch):
    ncol, nrow, nsl = insize
    return 1 + c + ncol * (r + nrow * (s + nsl * ch))


def save_image(path, a):
    if path.endswith(".png"):
        from PIL import Image
        Image.fromarray(a).save(path)
    else:
        import tifffile
        tifffile.imwrite(path, a, photometric="rgb" if a.ndim == 3 else "minisblack")


def write_stack(dirpath, insize, first_channel, rgb, dtype, ext, blank=None, mixpix=False, drop_last=False):
    """one directory of slices; returns the number of channels it carries"""
    ncol, nrow, nsl = insize
    os.makedirs(dirpath, exist_ok=True)
    nch = 3 if rgb else 1
    cc, rr = np.meshgrid(np.arange(ncol), np.arange(nrow))      # [row, column]
    for s in range(nsl):
        planes = [1 + cc + ncol * (rr + nrow * (s + nsl * (first_channel + k))) for k in range(nch)]
        img = np.stack(planes, axis=-1) if rgb else planes[0]
        if blank and blank[s]:
            img = img * 0
        if drop_last and s == nsl - 1:
            continue            # an INVALID stack: one slice fewer than the info announces
        dt = dtype
        if mixpix and not rgb and int(img.max()) <= 255:
            dt = np.dtype("uint8")      # slices of one stack may have different pixel types
        save_image(os.path.join(dirpath, "slice_%04d%s" % (s, ext)), img.astype(dt))
    return nch


def prepare_stack(work, plan):
    """plan: code (str), insize [ncol,nrow,nslice], chunk [cx,cy,cz], dirs (n),
    rgb (bool), pixel ('uint8'|'uint16'), ext, out_dtype, flat, gzip, sharding"""
    d = tempfile.mkdtemp(prefix="sl_", dir=work)
    dirs = []
    ch = 0
    for k in range(plan["dirs"]):
        # directory names whose lexicographic order is NOT the order on the command line
        p = os.path.join(d, ["red", "green", "blue", "alpha"][k] if plan["dirs"] > 1 and k < 4 else "in%d" % k)
        ch += write_stack(p, plan["insize"], ch, plan["rgb"], np.dtype(plan["pixel"]), plan["ext"],
                          plan.get("blank"), mixpix=bool(plan.get("mixpix")),
                          drop_last=bool(plan.get("short")) and k == plan["dirs"] - 1)
        dirs.append(p)
    out = os.path.join(d, "out")
    size = out_size(plan["code"], plan["insize"])
    vd.write_info(out, size, plan["chunk"], ch, plan["out_dtype"], encoding=plan.get("encoding", "raw"),
                  block=plan.get("block"), sharding=plan.get("sharding"))
    argv = dirs + [out, "--input-orientation", plan["code"]] + vd.storage_args(plan)
    return {"dir": d, "out": out, "argv": argv, "channels": ch, "outsize": size, "dirs": dirs,
            "code": plan["code"]}


def convert_inprocess(prepd, timeout):
    from neuroglancer_scripts.scripts import slices_to_precomputed as s2p
    return vd.run_main(s2p.main, ["slices-to-precomputed"] + prepd["argv"], timeout=timeout)


def convert_api(prepd, timeout):
    """The function API, called the way a script converting several stacks in one
    process calls it: no options dictionary of its own."""
    from neuroglancer_scripts.scripts import slices_to_precomputed as s2p
    return vd.run_main(lambda _argv: s2p.convert_slices_in_directory(
        [__import__("pathlib").Path(p) for p in prepd["dirs"]], prepd["out"], input_orientation=prepd["code"]),
        [], timeout=timeout)


def convert_subprocess(prepd, timeout):
    return vd.run_tool_subprocess("slices-to-precomputed", prepd["argv"], timeout=timeout,
                                  tmpdir=prepd["dir"])


def slice_case(plan, prepd, res):
    case = {"code": list(plan["code"]), "insize": list(plan["insize"]),
            "outsize": prepd["outsize"], "channels": prepd["channels"],
            "depth": plan["chunk"][AXIS[plan["code"][2]]],
            "blank": list(plan.get("blank") or [0] * plan["insize"][2]),
            "invalid": bool(plan.get("short")),
            "run": {"outcome": res["outcome"], "exit": res["exit"]}}
    n = prepd["channels"] * int(np.prod(plan["insize"]))
    missing_cls = []
    try:
        info, arr, reads, missing = vd.read_back(prepd["out"])
        stored, bad = vd.fixed(arr, 1)
        missing_cls = sorted({m["cls"] for m in missing})
        missing = [m["co"] for m in missing]
    except Exception as e:
        stored, bad, missing = [0] * n, [], [[0, 0, 0, 0, 0, 0]]
        missing_cls = [type(e).__name__]
    if len(stored) != n:
        stored, bad = [0] * n, list(range(1, n + 1))
    case["stored"] = stored
    case["nonrep"] = bad
    case["missing"] = missing
    return case, {"missing_cls": missing_cls}


def drop(prepd):
    shutil.rmtree(prepd["dir"], ignore_errors=True)
