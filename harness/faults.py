"""In-process I/O interposer: enumerates the I/O calls an operation makes below
the library (open / write / read / seek / close / stat / mkdir / unlink ...),
injects an OSError at the k-th call, or abandons the process state at the k-th
call (crash: exactly a prefix of the writes reaches the disk, the k-th write
optionally torn in half; everything later is a no-op while a BaseException
unwinds past the library)."""
import builtins
import errno as _errno
import io
import os


class Crash(BaseException):
    """Simulated interruption; not catchable by `except Exception/OSError`."""


ERRORS_FOR = {
    "stat": ["EACCES", "EIO"],
    "mkdir": ["ENOSPC", "EACCES"],
    "open": ["EACCES", "ENOSPC", "ENOENT", "EIO"],
    "write": ["ENOSPC", "EIO"],
    "read": ["EIO"],
    "seek": ["EIO"],
    "close": ["EIO"],
    "unlink": ["EACCES"],
    "rename": ["EACCES"],
}


class FileProxy:
    def __init__(self, ip, real, path, mode, raw=False):
        self._ip, self._f, self._path, self.mode = ip, real, path, mode
        self.name = path
        self._raw = raw        # the caller asked for an unbuffered file (buffering=0)
        self._pending = bytearray()

    # -- counted operations --
    BUFSIZE = 8192

    def write(self, b):
        """A buffered file object (the default of open()) keeps small writes in memory
        until flush / close / finalisation - an error of the real write then surfaces
        THERE (and is swallowed when it happens in the finaliser of an object that was
        never closed).  Raw files (buffering=0) write through."""
        b = bytes(b)
        if self._raw:
            return self._write_now(b)
        self._pending += b
        if len(self._pending) >= self.BUFSIZE:
            self._flush_pending()
        return len(b)

    def _flush_pending(self):
        if self._pending:
            data, self._pending = bytes(self._pending), bytearray()
            self._write_now(data)

    def _write_now(self, b):
        act = self._ip._call("write", self._path, len(b))
        if act == "noop":
            return len(b)
        if act == "torn":
            os.write(self._f.fileno(), b[:len(b) // 2])
            self._ip._crash_now()
        if act == "short":
            # POSIX short write: only the first half reaches the file.  A buffered file
            # object (the default) retries the remainder and gets the error; a raw one
            # (buffering=0) just reports the number of bytes written.
            n = os.write(self._f.fileno(), b[:len(b) // 2])
            if self._raw:
                return n
            raise OSError(_errno.ENOSPC, os.strerror(_errno.ENOSPC), os.fspath(self._path))
        return self._f.write(b)

    def read(self, n=-1):
        self._flush_pending()
        act = self._ip._call("read", self._path, n)
        if act == "noop":
            return b""
        return self._f.read(n)

    def readinto(self, buf):
        self._flush_pending()
        act = self._ip._call("read", self._path, len(buf))
        if act == "noop":
            return 0
        return self._f.readinto(buf)

    def seek(self, *a):
        self._flush_pending()
        act = self._ip._call("seek", self._path, a[0] if a else 0)
        if act == "noop":
            return 0
        return self._f.seek(*a)

    def close(self):
        if self._f.closed:
            return
        try:
            self._flush_pending()
        finally:
            try:
                self._ip._call("close", self._path, 0)
            finally:
                self._f.close()
        return None

    def __del__(self):
        # an object that was never closed: the interpreter flushes it in the finaliser and
        # only PRINTS what goes wrong there ("Exception ignored in ...")
        try:
            if not self._f.closed:
                self.close()
        except BaseException:
            pass

    # -- pass-through --
    def tell(self):
        return self._f.tell() + len(self._pending)

    def flush(self):
        self._flush_pending()
        return None

    def fileno(self):
        self._flush_pending()
        return self._f.fileno()

    def readable(self):
        return self._f.readable()

    def writable(self):
        return self._f.writable()

    def seekable(self):
        return self._f.seekable()

    @property
    def closed(self):
        return self._f.closed

    def __enter__(self):
        return self

    def __exit__(self, *a):
        self.close()
        return False

    def __iter__(self):
        return iter(self._f)


class Interposer:
    """plan: None (dry run: record calls) or dict(k=index, mode="fail"|"crash"|"torn", err="ENOSPC")."""

    def __init__(self, root, plan=None, extra_roots=()):
        self.root = os.path.realpath(root)
        # further directories whose I/O is enumerated too (the sharded writer's
        # temporary files live in TMPDIR); paths are logged relative to `root`
        self.roots = [self.root] + [os.path.realpath(r) for r in extra_roots]
        self.plan = plan
        self.calls = []
        self.crashed = False
        self.fired = False
        self._saved = {}

    # ---------------------------------------------------------------
    def _mine(self, path):
        try:
            p = os.path.realpath(os.fspath(path))
        except TypeError:
            return False
        return any(p == r or p.startswith(r + os.sep) for r in self.roots)

    def _crash_now(self):
        self.crashed = True
        self.fired = True
        raise Crash()

    def _call(self, kind, path, arg):
        """Register an I/O call; returns "do" | "noop" | "torn"; may raise."""
        if self.crashed:
            return "noop"
        idx = len(self.calls)
        rel = os.path.relpath(os.path.realpath(os.fspath(path)), self.root) if path else ""
        self.calls.append((kind, rel))
        if self.plan and not self.fired and self.plan["k"] == idx:
            mode = self.plan["mode"]
            if mode == "fail":
                self.fired = True
                code = getattr(_errno, self.plan["err"])
                raise OSError(code, os.strerror(code), os.fspath(path) if path else None)
            if mode == "crash":
                self._crash_now()
            if mode == "torn":
                if kind == "write":
                    return "torn"
                self._crash_now()
            if mode == "short":
                self.fired = True
                if kind == "write":
                    return "short"
                code = _errno.ENOSPC
                raise OSError(code, os.strerror(code), os.fspath(path) if path else None)
        return "do"

    # ---------------------------------------------------------------
    def __enter__(self):
        ip = self
        real_open = builtins.open
        real_io_open = io.open
        real_stat, real_mkdir, real_unlink = os.stat, os.mkdir, os.unlink
        real_rename, real_replace = os.rename, os.replace
        self._saved = dict(open=real_open, io_open=real_io_open, stat=real_stat, mkdir=real_mkdir,
                           unlink=real_unlink, rename=real_rename, replace=real_replace)

        def my_open(file, mode="r", *a, **kw):
            if isinstance(file, int) or not ip._mine(file):
                return real_open(file, mode, *a, **kw)
            act = ip._call("open", file, mode)
            if act == "noop":
                # after a crash nothing may touch the disk any more
                return FileProxy(ip, real_open(os.devnull, "rb", buffering=0), file, mode)
            if "b" not in mode:
                return real_open(file, mode, *a, **kw)
            raw = real_open(file, mode, buffering=0)
            buffering = a[0] if a else kw.get("buffering", -1)
            return FileProxy(ip, raw, file, mode, raw=(buffering == 0))

        def my_stat(path, *a, **kw):
            if isinstance(path, int) or not ip._mine(path):
                return real_stat(path, *a, **kw)
            ip._call("stat", path, 0)
            return real_stat(path, *a, **kw)

        def my_mkdir(path, *a, **kw):
            if not ip._mine(path):
                return real_mkdir(path, *a, **kw)
            act = ip._call("mkdir", path, 0)
            if act == "noop":
                return None
            return real_mkdir(path, *a, **kw)

        def my_unlink(path, *a, **kw):
            if not ip._mine(path):
                return real_unlink(path, *a, **kw)
            act = ip._call("unlink", path, 0)
            if act == "noop":
                return None
            return real_unlink(path, *a, **kw)

        def my_rename(src, dst, *a, **kw):
            if not ip._mine(dst):
                return real_rename(src, dst, *a, **kw)
            act = ip._call("rename", dst, 0)
            if act == "noop":
                return None
            return real_rename(src, dst, *a, **kw)

        builtins.open = my_open
        io.open = my_open
        os.stat = my_stat
        if not os.environ.get("VERIF_SELFTEST_NO_MKDIR_HOOK"):      # selftest of harness/strace_audit.py only
            os.mkdir = my_mkdir
        os.unlink = my_unlink
        os.rename = my_rename
        os.replace = my_rename
        return self

    def __exit__(self, *exc):
        s = self._saved
        builtins.open = s["open"]
        io.open = s["io_open"]
        os.stat, os.mkdir, os.unlink = s["stat"], s["mkdir"], s["unlink"]
        os.rename, os.replace = s["rename"], s["replace"]
        return False
