"""Drive the real volume tools (volume-to-precomputed, generate-scales-info)
and RECORD what they did.  No judging here: the cases built by this module are
handed to TLC (Trace_Grid for C01, Trace_Affine for C16).

Everything is driven through the public entry points: the scripts'
``main(argv)`` (in-process) or the console scripts as real sub-processes (so
that the ``atexit`` flush of the sharded accessor is part of what is observed).
"""
import atexit
import contextlib
import io
import json
import logging
import os
import re
import signal
import subprocess
import sys
import traceback
from fractions import Fraction

import numpy as np

KEY_TIMEOUT = 60
_EXC_LINE = re.compile(r"^[A-Za-z_][\w.]*(Error|Exception|Exit|Interrupt|Timeout|Warning)\b")


class _Timeout(BaseException):
    pass


@contextlib.contextmanager
def wall_clock(seconds):
    """wall-clock limit for an in-process tool run (main thread only)"""
    def handler(signum, frame):
        raise _Timeout()
    old = signal.signal(signal.SIGALRM, handler)
    signal.setitimer(signal.ITIMER_REAL, seconds)
    try:
        yield
    finally:
        signal.setitimer(signal.ITIMER_REAL, 0)
        signal.signal(signal.SIGALRM, old)


@contextlib.contextmanager
def silenced():
    """the tools log through logging + tqdm: keep the check's output clean"""
    buf = io.StringIO()
    prev = logging.root.manager.disable
    logging.disable(logging.CRITICAL)
    try:
        with contextlib.redirect_stdout(buf), contextlib.redirect_stderr(buf):
            yield buf
    finally:
        logging.disable(prev)


@contextlib.contextmanager
def record_store_chunk(log):
    """run-time wrapper at the accessor boundary: logs (key, coords) of every
    store_chunk call of the file accessors (nothing in /repo is edited)"""
    from neuroglancer_scripts import file_accessor, sharded_file_accessor
    classes = [file_accessor.FileAccessor, sharded_file_accessor.ShardedFileAccessor]
    saved = []
    for cls in classes:
        orig = cls.store_chunk

        def wrapper(self, buf, key, chunk_coords, *a, _orig=orig, **kw):
            log.append((key, [int(v) for v in chunk_coords]))
            return _orig(self, buf, key, chunk_coords, *a, **kw)
        saved.append((cls, orig))
        cls.store_chunk = wrapper
    try:
        yield
    finally:
        for cls, orig in saved:
            cls.store_chunk = orig


def _where(tb):
    """innermost frame inside the package under test (for the finding sig)"""
    for fr in reversed(traceback.extract_tb(tb)):
        if "neuroglancer_scripts" in fr.filename:
            return "%s:%s" % (os.path.basename(fr.filename), fr.name)
    fr = traceback.extract_tb(tb)[-1]
    return "%s:%s" % (os.path.basename(fr.filename), fr.name)


def run_main(main, argv, timeout=KEY_TIMEOUT, record=True):
    """Call a script's main(argv) in-process.  Returns
    dict(outcome ok|raised|timeout, exit, exc, where, writes)."""
    writes = []
    res = {"outcome": "ok", "exit": 0, "exc": "", "where": "", "writes": writes,
           "haswrites": bool(record)}
    try:
        with silenced(), wall_clock(timeout):
            if record:
                with record_store_chunk(writes):
                    rc = main(argv)
            else:
                rc = main(argv)
        res["exit"] = int(rc or 0)
    except _Timeout:
        res["outcome"] = "timeout"
        res["exc"] = "Timeout"
    except SystemExit as e:
        code = e.code
        res["exit"] = code if isinstance(code, int) else (0 if code is None else 1)
    except KeyboardInterrupt:
        raise
    except BaseException as e:
        res["outcome"] = "raised"
        res["exc"] = type(e).__name__
        res["where"] = _where(e.__traceback__)
        res["msg"] = str(e)[:200]
    return res


def tool_cmd(tool):
    """argv prefix of a real sub-process run of a console script.  With
    VERIF_REPO set the module is run with -m so that PYTHONPATH (set by the
    harness) selects the tree under test."""
    mod = {"volume-to-precomputed": "neuroglancer_scripts.scripts.volume_to_precomputed",
           "slices-to-precomputed": "neuroglancer_scripts.scripts.slices_to_precomputed",
           "generate-scales-info": "neuroglancer_scripts.scripts.generate_scales_info"}[tool]
    exe = os.path.join(os.path.dirname(sys.executable), tool)
    if os.environ.get("VERIF_REPO", "/repo") == "/repo" and os.path.exists(exe):
        return [exe]
    return [sys.executable, "-m", mod]


def run_tool_subprocess(tool, args, timeout=KEY_TIMEOUT, tmpdir=None):
    """tmpdir: where the tool's own temporary files go (the sharded writer
    leaves its buffer directories behind) - inside the check's scratch space"""
    res = {"outcome": "ok", "exit": 0, "exc": "", "where": "", "writes": [],
           "haswrites": False}
    env = dict(os.environ)
    if tmpdir:
        env["TMPDIR"] = tmpdir
    try:
        p = subprocess.run(tool_cmd(tool) + list(args), capture_output=True, text=True,
                           timeout=timeout, env=env)
    except subprocess.TimeoutExpired:
        res["outcome"] = "timeout"
        res["exc"] = "Timeout"
        return res
    res["exit"] = p.returncode
    if p.returncode != 0 and "Traceback (most recent call last)" in p.stderr:
        res["outcome"] = "raised"
        text = p.stderr.replace("\r", "\n")
        text = text[text.rindex("Traceback (most recent call last)"):]
        lines = [l for l in text.splitlines() if l.strip()]
        exc_lines = [l for l in lines[1:] if _EXC_LINE.match(l)]
        last = exc_lines[-1] if exc_lines else (lines[-1] if lines else "")
        res["exc"] = last.split(":")[0].split(".")[-1].strip()
        res["msg"] = last[:200]
        fr = [l for l in lines if l.strip().startswith("File ") and "neuroglancer_scripts" in l]
        if fr:
            f = fr[-1].strip()
            res["where"] = "%s:%s" % (os.path.basename(f.split('"')[1]), f.rsplit(" in ", 1)[-1])
    return res


# --------------------------------------------------------------------------
# NIfTI input
RGB_DTYPE = np.dtype([("R", "u1"), ("G", "u1"), ("B", "u1")])


def write_nifti(path, arr, affine, slope=None, inter=None):
    import nibabel
    img = nibabel.Nifti1Image(arr, affine, dtype=arr.dtype)
    if slope is not None:
        img.header.set_slope_inter(slope, inter)
    nibabel.save(img, path)


def file_facts(path):
    """What is in the NIfTI file, re-read with nibabel: the on-disk values
    (before scaling) as a (C,Z,Y,X) integer/float array, slope, inter."""
    import nibabel
    img = nibabel.load(path)
    raw = np.asarray(img.dataobj.get_unscaled())
    if raw.dtype.names:
        raw = np.stack([raw[n] for n in raw.dtype.names], axis=-1)
        layout = "rgb"
    else:
        layout = "4d" if raw.ndim == 4 else "3d"
    if raw.ndim == 3:
        raw = raw[..., np.newaxis]
    czyx = np.transpose(raw, (3, 2, 1, 0))
    slope = img.dataobj.slope
    inter = img.dataobj.inter
    return {"czyx": czyx, "slope": float(slope), "inter": float(inter), "layout": layout,
            "disk_dtype": str(img.get_data_dtype()), "affine": np.array(img.affine),
            "shape": [int(v) for v in img.header.get_data_shape()]}


def frac(x):
    f = Fraction(x)
    return [f.numerator, f.denominator]


def fixed(arr, unit):
    """values * unit as Python ints + flat positions that are not exact /
    finite / small (pure re-encoding)"""
    flat = np.asarray(arr).reshape(-1)
    out, bad = [], []
    for k, v in enumerate(flat.tolist()):
        try:
            f = Fraction(v) * unit
        except (ValueError, OverflowError):
            bad.append(k + 1)
            out.append(0)
            continue
        if f.denominator != 1 or abs(f.numerator) >= 2 ** 31 - 1:
            bad.append(k + 1)
            out.append(0)
        else:
            out.append(int(f.numerator))
    return out, bad


# --------------------------------------------------------------------------
# reading a dataset back
def grid_coords(size, chunk):
    out = []
    for z in range(0, size[2], chunk[2]):
        for y in range(0, size[1], chunk[1]):
            for x in range(0, size[0], chunk[0]):
                out.append([x, min(x + chunk[0], size[0]), y, min(y + chunk[1], size[1]),
                            z, min(z + chunk[2], size[2])])
    return out


def read_back(outdir):
    """Re-open the dataset with a FRESH accessor + PrecomputedIO and read every
    chunk of scale 0.  Returns (info, array (C,Z,Y,X) or None, reads, missing)."""
    from neuroglancer_scripts import accessor, precomputed_io
    with silenced():
        acc = accessor.get_accessor_for_url(outdir)
        if hasattr(acc, "close"):
            atexit.unregister(acc.close)
        pio = precomputed_io.get_IO_for_existing_dataset(acc)
        info = pio.info
        sc = info["scales"][0]
        size, chunk = sc["size"], sc["chunk_sizes"][0]
        nch = info["num_channels"]
        arr = np.zeros((nch, size[2], size[1], size[0]), dtype=np.dtype(info["data_type"]))
        reads, missing = [], []
        for co in grid_coords(size, chunk):
            reads.append(co)
            try:
                ch = pio.read_chunk(sc["key"], tuple(co))
                arr[:, co[4]:co[5], co[2]:co[3], co[0]:co[1]] = ch
            except Exception as e:
                missing.append({"co": co, "cls": type(e).__name__})
    return info, arr, reads, missing


def write_info(outdir, size, chunk, channels, dtype, encoding="raw", block=None,
               sharding=None, resolution=(1000000, 1000000, 1000000), key="s0"):
    sc = {"key": key, "size": list(size), "resolution": list(resolution),
          "voxel_offset": [0, 0, 0], "chunk_sizes": [list(chunk)], "encoding": encoding}
    if encoding == "compressed_segmentation":
        sc["compressed_segmentation_block_size"] = list(block or [8, 8, 8])
    if sharding:
        mb, sb, pb, enc = sharding
        sc["sharding"] = {"@type": "neuroglancer_uint64_sharded_v1", "minishard_bits": mb,
                          "shard_bits": sb, "preshift_bits": pb, "hash": "identity",
                          "minishard_index_encoding": enc, "data_encoding": enc}
    info = {"type": "segmentation" if encoding == "compressed_segmentation" else "image",
            "data_type": dtype, "num_channels": channels, "scales": [sc]}
    os.makedirs(outdir, exist_ok=True)
    with open(os.path.join(outdir, "info"), "w") as f:
        json.dump(info, f)
    return info


# --------------------------------------------------------------------------
# one complete volume conversion (C01)
def scaling_args(plan):
    args = []
    if plan.get("ignore_scaling"):
        args.append("--ignore-scaling")
    if plan.get("imax") is not None:
        if plan.get("imin") is not None:
            args += ["--input-min=%r" % float(plan["imin"])]
        args += ["--input-max=%r" % float(plan["imax"])]
    return args


def _plan_variant(plan, salt, n):
    """deterministic choice among n spellings of the same request"""
    import zlib
    return zlib.crc32(repr((salt, sorted((k, repr(v)) for k, v in plan.items()))).encode()) % n


def storage_args(plan):
    args = []
    if plan.get("flat"):
        args.append("--flat")
    if not plan.get("gzip", True):
        # both documented spellings
        args.append(("--no-gzip", "--no-compression")[_plan_variant(plan, "nogz", 2)])
    else:
        lvl = (None, None, 0, 1, 6, 9)[_plan_variant(plan, "lvl", 6)]
        if lvl is not None:
            args += ["--compresslevel", str(lvl)]
    return args


def prepare_volume(work, plan, data):
    """Write the NIfTI file and the info (through the real tools or directly).
    data: numpy array in nibabel order (X,Y,Z[,C]) or structured RGB (X,Y,Z).
    Returns dict(dir, nii, out, argv, prep) - prep lists the tool runs made."""
    import tempfile
    from neuroglancer_scripts.scripts import generate_scales_info as gsi
    from neuroglancer_scripts.scripts import volume_to_precomputed as v2p
    d = tempfile.mkdtemp(prefix="vol_", dir=work)
    nii = os.path.join(d, "in" + plan.get("ext", ".nii"))
    out = os.path.join(d, "out")
    vs = plan.get("voxel_mm", [1.0, 1.0, 1.0])
    affine = np.diag(list(vs) + [1.0])
    write_nifti(nii, data, affine, plan.get("slope"), plan.get("inter"))
    prep = []
    if plan["info"] == "tools":
        os.makedirs(out, exist_ok=True)
        a1 = ["volume-to-precomputed", nii, out, "--generate-info"] + scaling_args(plan)
        r1 = run_main(v2p.main, a1, record=False)
        prep.append({"tool": "generate-info", "outcome": r1["outcome"], "exit": r1["exit"],
                     "exc": r1["exc"], "where": r1["where"]})
        if r1["outcome"] == "ok":
            fr = os.path.join(out, "info_fullres.json")
            if plan.get("out_dtype"):
                # "please adjust if needed": the documented manual step
                with open(fr) as f:
                    ji = json.load(f)
                ji["data_type"] = plan["out_dtype"]
                with open(fr, "w") as f:
                    json.dump(ji, f)
            a2 = ["generate-scales-info", fr, out, "--target-chunk-size", str(plan["target_chunk"])]
            if plan.get("encoding") == "compressed_segmentation":
                a2 += ["--encoding", "compressed_segmentation"]
            r2 = run_main(gsi.main, a2, record=False)
            prep.append({"tool": "generate-scales-info", "outcome": r2["outcome"],
                         "exit": r2["exit"], "exc": r2["exc"], "where": r2["where"]})
    else:
        write_info(out, plan["size"], plan["chunk"], plan["channels"], plan["out_dtype"],
                   plan.get("encoding", "raw"), plan.get("block"), plan.get("sharding"))
    argv = [nii, out] + scaling_args(plan) + storage_args(plan)
    if plan.get("mmap"):
        argv.append("--mmap")
    elif _plan_variant(plan, "full", 4) == 0:
        argv.append("--load-full-volume")          # the default, spelled out
    prepd = {"dir": d, "nii": nii, "out": out, "argv": argv, "prep": prep}
    if plan.get("prepopulate") and not any(x["outcome"] != "ok" for x in prep):
        # the destination already holds the conversion of ANOTHER volume of the same
        # geometry (same options): the conversion under test must replace every voxel
        other = np.flip(data, axis=0).copy() if data.dtype.names is None else data[::-1].copy()
        nii0 = os.path.join(d, "earlier" + plan.get("ext", ".nii"))
        write_nifti(nii0, other, affine, plan.get("slope"), plan.get("inter"))
        r0 = convert_inprocess(dict(prepd, argv=[nii0] + argv[1:])) if not plan.get("sharding") \
            else convert_subprocess(dict(prepd, argv=[nii0] + argv[1:]))
        prepd["earlier"] = {"outcome": r0["outcome"], "exit": r0["exit"]}
    return prepd


def convert_inprocess(prepd, timeout=KEY_TIMEOUT):
    from neuroglancer_scripts.scripts import volume_to_precomputed as v2p
    return run_main(v2p.main, ["volume-to-precomputed"] + prepd["argv"], timeout=timeout)


def convert_api(prepd, plan, timeout=KEY_TIMEOUT):
    """The function API the way a script converting several volumes in one process
    calls it: keyword arguments, no options dictionary (default storage options)."""
    from neuroglancer_scripts import volume_reader
    return run_main(lambda _argv: volume_reader.volume_file_to_precomputed(
        prepd["nii"], prepd["out"], ignore_scaling=bool(plan.get("ignore_scaling")),
        input_min=plan.get("imin") if plan.get("imax") is not None else None,
        input_max=plan.get("imax"), load_full_volume=not plan.get("mmap")), [], timeout=timeout)


def convert_subprocess(prepd, timeout=KEY_TIMEOUT):
    return run_tool_subprocess("volume-to-precomputed", prepd["argv"], timeout=timeout,
                               tmpdir=prepd["dir"])


def mapping_of(plan, facts, out_dtype, iu, ou):
    if plan.get("ignore_scaling"):
        slope, inter = 1.0, 0.0
    else:
        slope, inter = facts["slope"], facts["inter"]
    m = {"slope": frac(slope), "inter": frac(inter), "rescale": plan.get("imax") is not None,
         "imin": frac(plan["imin"] if plan.get("imin") is not None else 0),
         "imax": frac(plan["imax"] if plan.get("imax") is not None else 1),
         "dtype": out_dtype, "iu": iu, "ou": ou}
    return m


def volume_case(plan, prepd, res):
    """Everything TLC needs to judge one conversion (Trace_Grid)."""
    facts = file_facts(prepd["nii"])
    iu = int(plan.get("iu", 1))
    ou = int(plan.get("ou", 1))
    inp, inbad = fixed(facts["czyx"], iu)
    if inbad:
        raise RuntimeError("harness produced an input that is not in its own unit")
    case = {"run": {"outcome": res["outcome"], "exit": res["exit"]},
            "haswrites": bool(res["haswrites"]),
            "writes": [w[1] for w in res["writes"]],
            "input": inp}
    info = None
    try:
        info, arr, reads, missing = read_back(prepd["out"])
    except Exception as e:   # no usable info / dataset: recorded, judged by TLC
        arr, reads, missing = None, [], [{"co": [0, 0, 0, 0, 0, 0], "cls": type(e).__name__}]
    if info is not None:
        sc = info["scales"][0]
        case["cfg"] = {"size": sc["size"], "chunk": sc["chunk_sizes"][0],
                       "channels": info["num_channels"]}
        out_dtype = info["data_type"]
        if not np.issubdtype(np.dtype(out_dtype), np.integer):
            stored, bad = fixed(arr, ou)
        else:
            ou = 1
            stored, bad = fixed(arr, 1)
        case["reads"] = reads
    else:
        case["cfg"] = {"size": plan["size"], "chunk": plan.get("chunk", plan["size"]),
                       "channels": plan["channels"]}
        out_dtype = plan.get("out_dtype") or "uint8"
        stored, bad = [0] * len(inp), []
        case["reads"] = grid_coords(case["cfg"]["size"], case["cfg"]["chunk"])
    if len(stored) != len(inp):
        # the dataset does not even have the shape of the input: every voxel
        # position of the input is compared, missing ones are not representable
        bad = list(range(1, len(inp) + 1))
        stored = [0] * len(inp)
        c = case["cfg"]
        c["size"], c["channels"] = facts["czyx"].shape[:0:-1], facts["czyx"].shape[0]
        c["size"] = [int(v) for v in c["size"]]
        case["reads"] = grid_coords(c["size"], c["chunk"])
    case["stored"] = stored
    case["nonrep"] = bad
    case["missing"] = [m["co"] for m in missing]
    case["map"] = mapping_of(plan, facts, out_dtype, iu, ou)
    extra = {"missing_cls": sorted({m["cls"] for m in missing}), "layout": facts["layout"],
             "disk_dtype": facts["disk_dtype"], "out_dtype": out_dtype}
    return case, extra
