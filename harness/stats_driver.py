"""C20 (formatter half) driver: calls the REAL utils.readable_count on the
integer bands and RECORDS; Trace_Stats (TLC) judges.

A case is {"n": count as little-endian bit list, "s": the returned string as
the list of its characters} - both lossless.
"""
from . import tlc
from .parsers import bits

MS = (1, 10, 100, 1000, 1024)


def band_counts(ctx):
    """The integer bands of DESIGN 5.C20 (ordered, without duplicates)."""
    dense = 20000
    w = 300
    counts = list(range(0, dense + 1))
    for k in range(1, 7):
        for m in MS:
            c = m * 1024 ** k
            counts += range(c - w, c + w + 1)
    for e in range(0, 71):
        counts += [2 ** e + d for d in (-2, -1, 0, 1, 2)]
    # just below / above 9.95, 10, 999.5 and 1000 times each prefix (the
    # places where the number of shown characters changes)
    wq = ctx.pick(40, 300)
    for k in range(1, 7):
        f = 1024 ** k
        for num, den in ((995, 100), (10, 1), (9995, 10), (1000, 1), (1023, 1), (95, 100), (5, 100)):
            c = num * f // den
            counts += range(max(0, c - wq), c + wq + 1)
    # stride sample over the whole range up to 2^70 (seeded)
    rng = ctx.rng
    for _ in range(ctx.pick(4000, 150000)):
        e = rng.randint(10, 70)
        counts.append(rng.getrandbits(e) | (1 << (e - 1)))
    for _ in range(ctx.pick(2000, 100000)):
        k = rng.randint(1, 6)
        # uniform in the mantissa range 0.9 .. 1100 of prefix k
        counts.append(int(rng.uniform(0.9, 1100.0) * 1024 ** k) + rng.randint(-3, 3))
    seen = set()
    out = []
    for c in counts:
        if c >= 0 and c not in seen:
            seen.add(c)
            out.append(c)
    return out


def readable_cases(ctx):
    """Run the real formatter over the bands; returns the cases for TLC."""
    from neuroglancer_scripts.utils import readable_count
    cases = []
    for c in band_counts(ctx):
        try:
            s = readable_count(c)
            exc = ""
        except Exception as e:  # recorded; judged as a format failure by TLC
            s = "!" + type(e).__name__
            exc = type(e).__name__
        if not isinstance(s, str):
            s = "!" + type(s).__name__
        cases.append({"n": bits(c), "s": list(s), "_count": c, "_str": s, "_exc": exc})
    return cases


def _sig(c, clause):
    num, _, pre = c["_str"].partition(" ")
    k = 0
    while c["_count"] >= 1024 ** (k + 1):
        k += 1
    return {"shown_number": num, "shown_prefix": pre, "log1024": k,
            "count_bits": c["_count"].bit_length(), "exc": c["_exc"]}


def judge_readable(ctx, cases):
    """TLC judges every (count, string); registers evaluations, distinct
    non-trivial cases, violations and design drift in ctx."""
    # d = 1: also compare with the design layer (drift only); every case in the
    # thorough tier, one in four in the quick tier
    step = ctx.pick(4, 1)
    pub = [{"n": c["n"], "s": c["s"], "d": 1 if k % step == 0 else 0} for k, c in enumerate(cases)]
    for k, (c, p) in enumerate(zip(cases, pub)):
        c["tid"] = p["tid"] = k + 1
    verdicts = ctx.judge("Trace_Stats", pub, workers=8, chunk=25000)
    drift = 0
    for c in cases:
        st, clause, pos = verdicts[c["tid"]]
        if clause.startswith("machinery:"):
            raise tlc.MachineryError("%s on count %d" % (clause, c["_count"]))
        ctx.count()
        if c["_count"] >= 1000:          # a prefix has to be chosen and the value rounded
            ctx.nontrivial(("readable", c["_count"]))
        if pos == 1:
            drift += 1
            if drift <= 3:
                ctx.note_drift("design:ReadableFormat", {"count": c["_count"], "real": c["_str"]})
        if st != "ok":
            ctx.violation(clause, _sig(c, clause),
                          {"kind": "readable_count", "count": c["_count"], "returned": c["_str"]})
    ctx.notes["readable_cases"] = len(cases)
    ctx.notes["readable_design_disagreements"] = drift
    for c in cases:
        if c["_count"] in (10188, 1048575, 2 ** 60):
            ctx.sample({"count": c["_count"], "returned": c["_str"],
                        "verdict": verdicts[c["tid"]][1]})
    return verdicts
