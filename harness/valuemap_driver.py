"""C11 driver: calls the REAL get_chunk_dtype_transformer and RECORDS.

Nothing here judges.  Numbers are re-encoded losslessly into the value
triples of spec/BitsNum.tla (sign, integer bits little endian, fraction bits
most significant first) through int / float.as_integer_ratio() - no decimal
rounding anywhere.  Buffers are dumped as hex of their element bytes in
logical (C) order.

Byte order (ORDERS): the input type may reach the transformer as a dtype
object in NON-NATIVE byte order (what arr.dtype of data read from a
big-endian TIFF / NIfTI file is): "swapped" builds the transformer from the
byte-swapped dtype AND passes a byte-swapped chunk, "transformer_swapped" /
"chunk_swapped" swap only one of the two (equivalent dtypes, accepted by the
transformer).  The values held by the array are the same in every order; TLC
sees the type by its byte-order-free name.  The result is dumped in native
byte order and its dtype recorded by name (the property does not speak about
the byte order of the result).
"""
import math
import warnings
from fractions import Fraction

import numpy as np

from .parsers import bits, unbits

IN_DTYPES = ["int8", "int16", "int32", "int64", "uint8", "uint16", "uint32", "uint64",
             "float32", "float64"]
OUT_DTYPES = ["uint8", "uint16", "uint32", "uint64", "float32"]
MODES = ("preserve", "inplace")
LAYOUTS = ("contig", "strided", "fortran", "readonly")
ORDERS = ("native", "swapped", "transformer_swapped", "chunk_swapped")


def orders_for(in_dtype):
    """one-byte types have no byte order"""
    return ORDERS if np.dtype(in_dtype).itemsize > 1 else ("native",)


# ---------------------------------------------------------------- encoding --
def exact(x):
    """Python int / float / numpy scalar -> Fraction (exact)."""
    if isinstance(x, Fraction):
        return x
    if isinstance(x, (int, np.integer)):
        return Fraction(int(x))
    n, d = float(x).as_integer_ratio()
    return Fraction(n, d)


def enc_fraction(fr, neg_zero=False):
    """Fraction with power-of-two denominator -> [s, i, f]."""
    s = 1 if (fr < 0 or neg_zero) else 0
    a = abs(fr)
    num, den = a.numerator, a.denominator
    e = den.bit_length() - 1
    assert den == 1 << e, "not a dyadic rational"
    ip, rem = divmod(num, den)
    f = [(rem >> (e - 1 - k)) & 1 for k in range(e)]
    return [s, bits(ip), f]


def enc_scalar(x):
    """numpy / python scalar (finite) -> [s, i, f]."""
    if isinstance(x, (float, np.floating)):
        xf = float(x)
        return enc_fraction(exact(xf), neg_zero=(xf == 0.0 and math.copysign(1.0, xf) < 0))
    return enc_fraction(Fraction(int(x)))


def enc_result(x):
    """Result element -> (rk, [s, i, f])."""
    if isinstance(x, (float, np.floating)):
        xf = float(x)
        if math.isnan(xf):
            return "nan", [0, [], []]
        if math.isinf(xf):
            return "inf", [1 if xf < 0 else 0, [], []]
    return "fin", enc_scalar(x)


def dec_value(v):
    """[s, i, f] (as exported by TLC) -> Fraction."""
    s, i, f = v
    fr = Fraction(unbits(i))
    for k, b in enumerate(f):
        if b:
            fr += Fraction(1, 1 << (k + 1))
    return -fr if s else fr


def representable(fr, dtype):
    dt = np.dtype(dtype)
    if dt.kind in "iu":
        info = np.iinfo(dt)
        return fr.denominator == 1 and info.min <= fr <= info.max
    try:
        f = float(fr)
    except OverflowError:
        return False
    if Fraction(*f.as_integer_ratio()) != fr:
        return False
    with np.errstate(all="ignore"):
        g = dt.type(f)
    return bool(np.isfinite(g)) and exact(g) == fr


def make_array(values, dtype):
    """list of Fractions (all representable in dtype) -> 1-D array holding
    exactly these values."""
    dt = np.dtype(dtype)
    if dt.kind in "iu":
        return np.array([int(v) for v in values], dtype=dt)
    return np.array([float(v) for v in values], dtype=np.float64).astype(dt)


def value_class(fr, out_dtype):
    """Structural class of an input value relative to the target type (only
    used in the sig of a violation and in the coverage rule)."""
    dt = np.dtype(out_dtype)
    if dt.kind in "iu":
        lo, hi = np.iinfo(dt).min, np.iinfo(dt).max
    else:
        hi = exact(np.finfo(dt).max)
        lo = -hi
    rng = "below_min" if fr < lo else "above_max" if fr > hi else "in_range"
    frac = fr - math.floor(fr)
    fc = "int" if frac == 0 else "half" if frac == Fraction(1, 2) else "frac"
    a = abs(fr)
    mag = "le2^24" if a <= 2 ** 24 else "le2^53" if a <= 2 ** 53 else "gt2^53"
    return "%s/%s/%s" % (rng, fc, mag)


# ---------------------------------------------------------------- layouts ---
def lay_out(data, layout):
    """Fresh input array with the requested memory layout holding `data`
    (2-D, C order)."""
    if layout == "contig":
        return np.array(data, order="C")
    if layout == "fortran":
        return np.asfortranarray(data)
    if layout == "strided":
        base = np.zeros((data.shape[0] + 1, 2 * data.shape[1] + 1), dtype=data.dtype)
        view = base[1:, 1::2]
        view[...] = data
        return view
    if layout == "readonly":
        a = np.array(data, order="C")
        a.flags.writeable = False
        return a
    raise ValueError(layout)


def dump(a):
    return a.tobytes(order="C").hex()


def dump_native(a):
    """element bytes in logical order, native byte order (lossless re-encoding)"""
    return np.asarray(a, dtype=a.dtype.newbyteorder("=")).tobytes(order="C").hex()


def run_group(in_dtype, out_dtype, values, order="native"):
    """Call the real transformer on the same values in every mode x layout.

    Returns {"in", "out", "values" (Fractions), "shape", "runs": [...]};
    each run: mode, layout, exc, before, after, res (hex), rdtype, rshape,
    elems (python scalars of the result, logical order)."""
    from neuroglancer_scripts.data_types import get_chunk_dtype_transformer
    values = list(values)
    if len(values) % 2:
        values.append(Fraction(0))
    native = np.dtype(in_dtype)
    swapped = native.newbyteorder("S")
    chunk_dt = swapped if order in ("swapped", "chunk_swapped") else native
    tr_dt = swapped if order in ("swapped", "transformer_swapped") else native
    data = make_array(values, in_dtype).reshape(2, -1).astype(chunk_dt)
    if data.dtype != chunk_dt or data.dtype.byteorder != chunk_dt.byteorder \
            or [exact(x) for x in data.ravel().tolist()] != values:
        raise AssertionError("input array does not hold the requested values exactly")
    runs = []
    for mode in MODES:
        for layout in LAYOUTS:
            arr = lay_out(data, layout)
            run = {"mode": mode, "layout": layout, "exc": "", "before": dump(arr),
                   "after": "", "res": "", "rdtype": "", "rshape": [], "elems": None}
            try:
                with warnings.catch_warnings():
                    warnings.simplefilter("ignore")
                    tr = get_chunk_dtype_transformer(tr_dt, out_dtype, warn=False)
                    res = tr(arr, preserve_input=(mode == "preserve"))
                run["res"] = dump_native(res)
                run["rdtype"] = res.dtype.name
                run["rshape"] = list(res.shape)
                run["elems"] = [res[idx] for idx in np.ndindex(*res.shape)] \
                    if res.shape == data.shape else None
            except Exception as e:  # recorded, judged by TLC (oracle:Raised)
                run["exc"] = type(e).__name__
                run["msg"] = str(e)[:200]
            run["after"] = dump(arr)
            runs.append(run)
    return {"in": in_dtype, "out": out_dtype, "values": values, "order": order,
            "shape": list(data.shape), "runs": runs, "data": data}


# ------------------------------------------------- encoder entry points ------
ENCODINGS = {"raw": OUT_DTYPES, "compressed_segmentation": ["uint32", "uint64"]}


def run_encoder_group(encoding, in_dtype, out_dtype, values):
    """The other place where the package may convert voxel types: the lossless
    chunk encoders' encode(chunk) called with a chunk of ANOTHER numeric type
    than the dataset's data_type.  Records the exception class, or the values
    that were actually stored (raw: the bytes read as little-endian elements of
    the dataset type; compressed_segmentation: the package's own decoder, which
    no conversion passes through)."""
    from neuroglancer_scripts import chunk_encoding
    values = list(values)
    while len(values) % 4:
        values.append(Fraction(0))
    data = make_array(values, in_dtype).reshape(1, 2, 2, -1)
    if [exact(x) for x in data.ravel().tolist()] != values:
        raise AssertionError("input array does not hold the requested values exactly")
    rec = {"encoding": encoding, "in": in_dtype, "out": out_dtype, "values": values,
           "exc": "", "msg": "", "elems": None}
    if encoding == "raw":
        enc = chunk_encoding.RawChunkEncoder(out_dtype, 1)
    else:
        enc = chunk_encoding.CompressedSegmentationEncoder(out_dtype, 1, [8, 8, 8])
    before = data.copy()
    try:
        with warnings.catch_warnings():
            warnings.simplefilter("ignore")
            buf = enc.encode(data)
    except Exception as e:      # recorded: a refusal
        rec["exc"] = type(e).__name__
        rec["msg"] = str(e)[:200]
        return rec
    rec["input_unchanged"] = bool(np.array_equal(before, data))
    if encoding == "raw":
        stored = np.frombuffer(bytes(buf), dtype=np.dtype(out_dtype).newbyteorder("<"))
    else:
        stored = enc.decode(bytes(buf), (data.shape[3], data.shape[2], data.shape[1])).ravel()
    rec["stored_count"] = int(stored.size)
    if stored.size == data.size:
        rec["elems"] = [stored[k] for k in range(stored.size)]
    return rec


# ------------------------------------------------------------ random values -
def _int_candidates(rng, dt, out_dt, n):
    info = np.iinfo(dt)
    out = []
    lims = [info.min, info.max, 0]
    odt = np.dtype(out_dt)
    if odt.kind in "iu":
        lims += [np.iinfo(odt).min, np.iinfo(odt).max]
    else:
        lims += [2 ** 24, 2 ** 25, 2 ** 53, -2 ** 24]
    for _ in range(n):
        r = rng.random()
        if odt.kind == "f" and info.bits == 64 and r < 0.25:
            # next to a midpoint between two adjacent float32 values above 2^53 (a detour
            # through float64 would round twice)
            e = rng.randint(54, info.bits - 2)
            half_ulp = 2 ** (e - 24)
            v = 2 ** e + rng.choice([1, 3, 5, 2 ** 22 + 1]) * half_ulp + rng.choice([-2, -1, 0, 1, 2])
            v *= rng.choice([1, 1, -1]) if info.min < 0 else 1
        elif r < 0.3:
            v = rng.randint(info.min, info.max)
        elif r < 0.6:
            k = rng.randint(0, info.bits)
            v = rng.choice([-1, 1]) * (rng.getrandbits(k) if k else 0)
        else:
            v = rng.choice(lims) + rng.randint(-40, 40)
        out.append(min(max(v, info.min), info.max))
    return [Fraction(v) for v in out]


def _float_candidates(rng, dt, out_dt, n):
    ft = np.dtype(dt).type
    odt = np.dtype(out_dt)
    mant = np.finfo(dt).nmant
    xs = []
    if odt.kind in "iu":
        lims = [0, np.iinfo(odt).max, 2 ** mant, 2 ** (mant + 1), 255, 65535]
    else:
        lims = [0, 2 ** 24, 2 ** 25, 2 ** 53, 1]
    for _ in range(n):
        r = rng.random()
        if r < 0.35:
            k = rng.choice(lims) + rng.randint(-30, 30)
            # ... including values a hair off a rounding tie (a float32 detour would land ON the tie)
            h = rng.choice([0, 0.5, -0.5, 0.25, 0.75, 2.0 ** -20, -2.0 ** -20, 0.5 + 2.0 ** -20,
                            0.5 - 2.0 ** -20, 0.5 - 2.0 ** -30, 0.5 + 2.0 ** -30, -0.5 + 2.0 ** -30,
                            -0.5 - 2.0 ** -30, 0.5 - 2.0 ** -40])
            x = float(k) + h
        elif r < 0.55:
            k = rng.randint(0, 70)
            x = rng.choice([-1, 1]) * (rng.getrandbits(k) if k else 0) + rng.choice([0, 0.5, 0.5, 0.25])
        elif r < 0.8:
            e = rng.randint(-30, 70)
            x = rng.choice([-1, 1]) * (1 + rng.random()) * 2.0 ** e
        elif r < 0.9 and odt.kind == "f":
            # a float32 value plus a fraction of its unit in the last place
            b = float(np.float32((1 + rng.random()) * 2.0 ** rng.randint(-140, 120)))
            ulp = float(np.spacing(np.float32(b)))
            x = b + ulp * rng.choice([0.5, 0.25, 0.75, 0.5 + 2.0 ** -20, 0.5 - 2.0 ** -20, 0])
        else:
            x = rng.choice([-1, 1]) * (1 + rng.random()) * 2.0 ** rng.randint(-150, 126)
        with np.errstate(all="ignore"):
            g = ft(x)
        if np.isfinite(g):
            xs.append(exact(g))
    return xs


def random_values(rng, in_dtype, out_dtype, n):
    dt = np.dtype(in_dtype)
    if dt.kind in "iu":
        return _int_candidates(rng, dt, out_dtype, n)
    return _float_candidates(rng, dt, out_dtype, n)
