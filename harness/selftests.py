"""Binding demonstration (./check Cxx --selftest): take REAL recorded cases that
the trace specification accepts, corrupt one logged field (or one event) and
require TLC to reject the corrupted copy with the expected oracle clause.
A trace specification that accepts a corrupted observation constrains nothing.
Exit 0: every corruption rejected with the expected clause; exit 2 otherwise
(a selftest failure is a machinery failure, never a verdict on the repository).
"""
import copy
import os
import json

from . import tlc


def _judge_pairs(ctx, module, good, mutants, **kw):
    """good: accepted case; mutants: list of (name, expected clause, case)."""
    cases = [copy.deepcopy(good)] + [copy.deepcopy(m[2]) for m in mutants]
    for k, c in enumerate(cases):
        c["tid"] = k + 1
    verdicts = ctx.judge(module, cases, count_traces=False, **kw)
    ok = True
    st, clause, _ = verdicts[1]
    print("  %-28s uncorrupted case: %s %s" % (module, st, clause))
    if st != "ok":
        ok = False
    for k, (name, expected, _) in enumerate(mutants):
        st, clause, _ = verdicts[k + 2]
        good_rej = st != "ok" and (clause == expected or (isinstance(expected, (list, tuple)) and clause in expected))
        print("  %-28s %-34s -> %s %s %s" % (module, name, st, clause, "" if good_rej else "  <-- EXPECTED " + str(expected)))
        ok = ok and good_rej
    return ok


def st_shard(ctx, mode):
    from . import shard_driver as sd
    from .props import c04
    work = ctx.scratch("verif_st_")
    cfg = {"grid": [3, 3, 1], "pb": 0, "mb": 2, "sb": 2, "enc": "raw"}
    pos = sorted(sd.all_pos(cfg["grid"]), key=lambda p: sd.morton_ref(cfg["grid"], p))
    rec = sd.run_session(work, cfg, list(reversed(pos[1:])), strategy="in memory", salt=1)
    sd.drop_dir(rec)
    good = c04.case_from(rec, mode, [rec["hash"], rec["hash"]])
    muts = []
    if mode == "C04":
        m = copy.deepcopy(good)
        f = next(f for f in m["files"] if any(x["st"] == "ok" for x in f["minis"]))
        mi = next(x for x in f["minis"] if x["st"] == "ok")
        mi["pay"][0]["data"][0] ^= 1
        muts.append(("payload byte flipped", "oracle:SpecLookupBytes", m))
        m = copy.deepcopy(good)
        f = next(f for f in m["files"] if sum(x["st"] == "ok" for x in f["minis"]) >= 1 and len(f["minis"]) >= 2)
        f["minis"][0], f["minis"][1] = f["minis"][1], f["minis"][0]
        f["index"][0], f["index"][1] = f["index"][1], f["index"][0]
        muts.append(("two index slots swapped", ("oracle:SlotRule", "oracle:SpecLookupFinds"), m))
        m = copy.deepcopy(good)
        m["files"] = m["files"][1:]
        muts.append(("one shard file removed", "oracle:SpecLookupFinds", m))
        m = copy.deepcopy(good)
        f = next(f for f in m["files"] if any(x["st"] == "ok" and len(x["ids"]) >= 1 for x in f["minis"]))
        mi = next(x for x in f["minis"] if x["st"] == "ok")
        mi["sizes"][0] += 5000
        muts.append(("entry size beyond the file", ("oracle:RangesInside", "oracle:RangesDisjoint", "machinery:Extractor"), m))
    else:
        m = copy.deepcopy(good)
        fe = next(x for x in m["fetch"] if x["st"] == "bytes" and x["data"])
        fe["data"][0] ^= 1
        muts.append(("fetched byte flipped", "oracle:FetchStored", m))
        m = copy.deepcopy(good)
        fe = next(x for x in m["fetch"] if x["st"] != "bytes" or not x["data"])
        fe["st"], fe["data"] = "bytes", [1, 2, 3]
        muts.append(("never-stored chunk has data", "oracle:NeverStoredHasData", m))
        m = copy.deepcopy(good)
        m["hashes"] = [m["hashes"][0], m["hashes"][0] + "x"]
        muts.append(("file hash of a run differs", "oracle:ByteIdentical", m))
        m = copy.deepcopy(good)
        m["stores"] = m["stores"] + [{"pos": pos[0][:], "pay": [9, 9]}] if False else m["stores"]
        fe = next(x for x in m["fetch"] if x["st"] == "bytes" and x["data"])
        fe["st"], fe["data"] = "exc", []
        muts.append(("stored chunk fetch raised", "oracle:FetchStored", m))
    return _judge_pairs(ctx, "Trace_Shard", good, muts)


def st_c09(ctx):
    from neuroglancer_scripts import sharded_base as sb
    from .props import c09
    items = c09.cmc_items(sb.ShardVolumeSpec, [9, 6, 3], 3, [(0, 0, 0), (3, 3, 0), (6, 3, 0), (9, 0, 0), (-3, 0, 0)])
    good = {"kind": "cmc", "size": [9, 6, 3], "cs": 3, "items": items, "pb": 0, "mb": 0, "sb": 0}
    m1 = copy.deepcopy(good)
    m1["items"][2]["bits"] = (m1["items"][2]["bits"] + [0, 1])
    m2 = copy.deepcopy(good)
    m2["items"][3].update(st="id", bits=[1])
    m3 = copy.deepcopy(good)
    m3["items"][1].update(st="rejected", bits=[])
    return _judge_pairs(ctx, "Trace_Morton", good, [
        ("identifier bit added", "oracle:CodeValue", m1),
        ("outer-boundary position accepted", "oracle:AcceptsOutsidePosition", m2),
        ("valid position rejected", "oracle:RejectsValidPosition", m3)])


def st_c12(ctx):
    from . import file_driver as fd
    work = ctx.scratch("verif_st_")
    ops = [{"op": "store_chunk", "c": fd.CHUNKS[0], "v": 1, "mime": "application/octet-stream", "ow": True},
           {"op": "store_file", "name": "d/b.x", "v": 2, "mime": "application/octet-stream", "ow": False},
           {"op": "store_file", "name": "d/b.x", "v": 1, "mime": "application/octet-stream", "ow": False}]
    good = fd.run_history(work, {"flat": False, "gzip": True}, ops, salt=3)
    good["mixed"] = False
    muts = []
    m = copy.deepcopy(good)
    m["events"][1]["files"][1]["v"] = 1
    muts.append(("fetched file content changed", "oracle:LastWriteWins", m))
    m = copy.deepcopy(good)
    m["events"][2]["res"] = "ok"
    muts.append(("no-overwrite store reported ok", "oracle:NoOverwriteRefused", m))
    m = copy.deepcopy(good)
    next(t for t in m["events"][0]["tree"] if t["gz"])["gzok"] = False
    muts.append(("stored .gz not a valid stream", "oracle:GzValid", m))
    m = copy.deepcopy(good)
    r = next(r for r in m["events"][0]["chunks"][0]["r"] if not r["gzip"])
    r["st"], r["v"] = "err", 99
    muts.append(("other-config reader misses chunk", "oracle:CrossConfigRead", m))
    m = copy.deepcopy(good)
    for t in m["events"][0]["tree"]:
        t["p"] = t["p"].replace("0-2/0-2/0-1", "0-2_0-2_0-1")
    muts.append(("chunk at the flat path (deep cfg)", "oracle:ChunkPath", m))
    del m
    ok = _judge_pairs(ctx, "Trace_FileStore", good, muts)
    conf = fd.run_confine(work, "file", "store_file", ["..", "x"], False)
    conf["mixed"] = False
    c1 = copy.deepcopy(conf)
    c1["res"] = "ok"
    c2 = copy.deepcopy(conf)
    c2["touched"] = True
    ok = _judge_pairs(ctx, "Trace_FileStore", conf, [
        ("escaping name accepted", "oracle:ConfinementRefused", c1),
        ("refused but file system touched", "oracle:ConfinementTouchedFs", c2)]) and ok
    return st_dispatch(ctx, work) and ok


def st_dispatch(ctx, work):
    """binding of Trace_Dispatch: a real recorded life-cycle history, corrupted field by field"""
    from . import dispatch_driver as dd
    from . import http_server
    ops = [{"op": "init", "k": "sharded"},
           {"op": "open", "h": "h1", "scheme": "file", "so": "unset"},
           {"op": "store", "h": "h1", "v": 1},
           {"op": "close", "h": "h1"},
           {"op": "open_bad", "url": "ftp"},
           {"op": "open", "h": "h2", "scheme": "http", "so": "unset"}]
    srv = http_server.Server(work)
    try:
        good = dd.run_history(work, ops, srv, 1)
    finally:
        srv.stop()
    muts = []
    m = copy.deepcopy(good)
    m["events"][2]["fresh"][0].update(st="err", v=0)
    muts.append(("fresh reader misses the chunk", "oracle:DispatchReadYourWrites", m))
    m = copy.deepcopy(good)
    m["events"][2]["fresh"][3].update(v=2)
    muts.append(("http reader gets another payload", ("oracle:DispatchReadYourWrites", "oracle:DispatchStaleRead"), m))
    m = copy.deepcopy(good)
    m["events"][1]["obs"]["plain"] = 1
    muts.append(("plain chunk file in a sharded dataset", "oracle:DispatchMisroutePlain", m))
    m = copy.deepcopy(good)
    m["events"][3]["res"] = "plain"
    muts.append(("unsupported URL accepted", "oracle:BadUrlAccepted", m))
    m = copy.deepcopy(good)
    m["events"][0]["res"] = "other:KeyError"
    muts.append(("open raised an internal exception", "oracle:OpenRaisedOther", m))
    m = copy.deepcopy(good)
    m["events"][0]["res"] = "dataerror"
    muts.append(("open failed on a readable dataset", "oracle:OpenFailed", m))
    m = copy.deepcopy(good)
    m["events"][0]["fresh"][1].update(st="ok", v=2)
    muts.append(("payload read although nothing was stored", "oracle:DispatchStaleRead", m))
    return _judge_pairs(ctx, "Trace_Dispatch", good, muts)


def st_c03(ctx):
    from . import chunk_driver as cd
    work = ctx.scratch("verif_st_")
    info = [{"size": [3, 4, 1], "chunks": [[2, 2, 1]]}, {"size": [2, 2, 1], "chunks": [[2, 2, 1]]}]
    ops = [{"op": "write", "s": 1, "c": [0, 2, 0, 2, 0, 1], "a": 1},
           {"op": "write", "s": 1, "c": [1, 3, 0, 2, 0, 1], "a": 1},
           {"op": "write", "s": 2, "c": [0, 2, 0, 2, 0, 1], "a": 2},
           {"op": "read", "s": 1, "c": [0, 2, 0, 2, 0, 1], "a": 0}]
    good = cd.run_history(work, info, ops, {"acc": "file", "flat": True, "gzip": True}, "uint16", 2, "raw",
                          ctx.np_rng(7))
    reads = [k for k, e in enumerate(good["events"]) if e["op"] == "read" and e["res"] == "ok"]
    muts = []
    m = copy.deepcopy(good)
    m["events"][reads[0]]["bytes"][0] ^= 1
    m["events"][reads[0]]["late"] = list(m["events"][reads[0]]["bytes"])
    muts.append(("read byte flipped", "oracle:ReadYourWrites", m))
    m = copy.deepcopy(good)
    m["events"][reads[-1]]["late"][0] ^= 1
    muts.append(("returned array changed later", "oracle:ReadResultMutatedLater", m))
    m = copy.deepcopy(good)
    m["events"][1]["res"] = "ok"
    muts.append(("off-grid write reported stored", "oracle:OffGridStored", m))
    m = copy.deepcopy(good)
    m["events"][0]["res"] = "assert"
    muts.append(("valid write rejected", "oracle:ValidWriteRejected", m))
    m = copy.deepcopy(good)
    m["events"][reads[0]]["shape"] = [2, 1, 2, 1]
    muts.append(("read shape wrong", "oracle:ReadShape", m))
    m = copy.deepcopy(good)
    m["events"][reads[0]]["dt"] = "uint8"
    muts.append(("read dtype wrong", "oracle:ReadDtype", m))
    ok = _judge_pairs(ctx, "Trace_ChunkStore", good, muts)
    v = cd.validate_case(ctx.rng, (3, 4, 1), [(2, 2, 1)], 50)
    v1 = copy.deepcopy(v)
    k = next(i for i, it in enumerate(v1["items"]) if it["res"] == "false")
    v1["items"][k]["res"] = "true"
    v2 = copy.deepcopy(v)
    k = next(i for i, it in enumerate(v2["items"]) if it["res"] == "true")
    v2["items"][k]["res"] = "false"
    return _judge_pairs(ctx, "Trace_ChunkStore", v, [
        ("validator accepts an off-grid tuple", "oracle:ValidatorAcceptsOffGrid", v1),
        ("validator rejects an on-grid tuple", "oracle:ValidatorRejectsOnGrid", v2)]) and ok


def st_c14(ctx):
    good = {"kind": "shard", "target": "chunk", "nminis": 0, "declared": True,
            "accClass": "ShardedHttpAccessor", "infoFaulted": False,
            "reqs": [{"m": "GET", "rng": False, "applied": "Normal"}, {"m": "GET", "rng": True, "applied": "Normal"}],
            "local": {"st": "ok", "data": [1, 2, 3]}, "http": {"st": "ok", "data": [1, 2, 3], "cls": ""}}
    m1 = copy.deepcopy(good)
    m1["http"]["data"] = [1, 2, 4]
    m2 = copy.deepcopy(good)
    m2["http"] = {"st": "exc", "data": [], "cls": "ShardedIOError"}
    m3 = copy.deepcopy(good)
    m3["local"] = {"st": "exc", "data": []}
    m4 = copy.deepcopy(good)
    m4["accClass"] = "HttpAccessor"
    m5 = copy.deepcopy(good)
    m5.update(kind="plain", declared=False, accClass="HttpAccessor")
    m5["reqs"][1]["applied"] = "ServerError"
    m5["http"] = {"st": "exc", "data": [], "cls": "HTTPError"}
    return _judge_pairs(ctx, "Trace_HttpRead", good, [
        ("one fetched byte differs", "oracle:WrongBytes", m1),
        ("fault-free fetch failed", "oracle:FaultFreeFailed", m2),
        ("missing resource returned data", "oracle:MissingNotError", m3),
        ("sharded info, plain accessor", "oracle:Dispatch", m4),
        ("plain dataset, wrong error class", "oracle:PlainErrorClass", m5)])


def st_c18(ctx):
    from . import fault_driver as fdv
    work = ctx.scratch("verif_st_")
    scen = fdv.Scenario("file.gz.deep.store_overwrite", "file", op="store_overwrite")
    dry, meta = fdv.run_once(work, scen, None)
    k = next(i for i, c in enumerate(meta["calls"]) if c[0] == "write")      # the (buffered) data write
    crash, cmeta = fdv.run_once(work, scen, {"k": k, "mode": "torn", "err": ""})
    fail, fmeta = fdv.run_once(work, scen, {"k": k, "mode": "fail", "err": "ENOSPC"})
    ok = True
    m1 = copy.deepcopy(crash)
    m1["targets"][0].update(st="ok", data=[(x + 1) % 256 for x in m1["targets"][0]["new"]])
    m2 = copy.deepcopy(crash)
    m2["others"][0]["data"] = [0] * len(m2["others"][0]["exp"])
    m2["others"][0]["st"] = "ok"
    m3 = copy.deepcopy(crash)
    m3["targets"][0].update(ast="ok", adata=m3["targets"][0]["new"][:3])
    ok = _judge_pairs(ctx, "Trace_FaultStore", crash, [
        ("wrong voxels decoded after a crash", "oracle:WrongAfterCrash", m1),
        ("another chunk wrong after a crash", "oracle:OthersWrongAfterCrash", m2),
        ("truncated .gz returned silently", "oracle:TruncatedGzipReadSilently", m3)]) and ok
    f1 = copy.deepcopy(fail)
    f1["outcome"] = {"st": "raised", "osErr": False, "dataAccess": False}
    f2 = copy.deepcopy(fail)
    f2["outcome"] = {"st": "returned", "osErr": False, "dataAccess": False}
    f3 = copy.deepcopy(fail)
    f3["others"][0].update(st="exc", data=[])
    f4 = copy.deepcopy(fail)
    f4["failkind"] = "open"
    f4["targets"][0].update(st="exc", data=[])
    ok = _judge_pairs(ctx, "Trace_FaultStore", fail, [
        ("unrelated exception class", "oracle:UnrelatedException", f1),
        ("failed store returned normally", "oracle:SilentFailure", f2),
        ("earlier chunk unreadable", "oracle:OthersChanged", f3),
        ("old content gone, failure at open", "oracle:OldDestroyedBeforeWrite", f4)]) and ok
    d1 = copy.deepcopy(dry)
    d1["targets"][0]["data"][0] ^= 1
    ok = _judge_pairs(ctx, "Trace_FaultStore", dry, [("fault-free store reads back wrong", "oracle:FaultFreeBroken", d1)]) and ok
    # the strace audit must notice an interposer that misses a class of calls:
    # with the os.mkdir hook removed, mkdir system calls have no counterpart
    from . import faults, strace_audit as sa
    if sa.available():
        good = sa.audit(work, "v2p.file.gz")
        env_flag = "VERIF_SELFTEST_NO_MKDIR_HOOK"
        os.environ[env_flag] = "1"
        try:
            blind = sa.audit(work, "v2p.file.gz")
        finally:
            del os.environ[env_flag]
        a_ok = not good["uncovered"] and not good["count_mismatch"] and any(u.startswith("mkdir ") for u in blind["uncovered"])
        print("  %-44s %s" % ("strace audit: complete interposer accepted, mkdir-blind one reported",
                              "ok" if a_ok else "NOT OK %s / %s" % (good["uncovered"][:3], blind["uncovered"][:3])))
        ok = ok and a_ok
    else:
        print("  strace not usable here: audit selftest skipped")
    return ok


TESTS = {"C03": st_c03, "C04": lambda c: st_shard(c, "C04"), "C05": lambda c: st_shard(c, "C05"),
         "C09": st_c09, "C12": st_c12, "C14": st_c14, "C18": st_c18}


def run(ctx):
    fn = TESTS.get(ctx.prop)
    if fn is None:
        print("no selftest registered for", ctx.prop)
        return 2
    print("selftest %s: corrupted observations must be rejected with the expected clause" % ctx.prop)
    ok = fn(ctx)
    ctx.cleanup()
    import shutil
    shutil.rmtree(ctx._tmproot, ignore_errors=True)
    print("SELFTEST %s %s" % (ctx.prop, "PASS" if ok else "FAIL"))
    return 0 if ok else 2
