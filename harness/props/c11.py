"""C11 - data-type conversion rounds to nearest and saturates, never wraps.

M    : MC_ValueMap - on 3/4-bit integers and a toy float TLC proves that the
       bit-sequence oracle Convert is the nearest-representable function
       (ties to even, saturating, monotone, idempotent, identity when
       representable) against plain integer arithmetic, and that the design
       of the two buffer modes implies the contract; the deviation switch
       CopyPolicy = "copyFalse" (NumPy-1 idiom) must FAIL (Works).
S->C : Gen_ValueMap - TLC enumerates the anchor points of every input type
       (limits of all types +- {0, 1/4, 1/2, 3/4, 1, ... 3}, 2^24, 2^53, float32
       ties / subnormals / overflow); each is run through the real transformer
       for every output type.
C->S : seeded random values per (input, output) pair.  Every group of values
       is converted by the REAL transformer in both modes x four layouts, and
       - for every multi-byte input type - in four byte-order arrangements:
       native, transformer built from the byte-swapped dtype AND byte-swapped
       chunk (data of a big-endian file, as slices_to_precomputed passes
       block.dtype), only the transformer's dtype swapped, only the chunk
       swapped.  The values are the same in every arrangement; TLC sees the
       type by its byte-order-free name, results are dumped in native order;
       Trace_ValueMap judges every element of the reference call against
       Convert (oracle:Nearest) and every call for oracle:Raised,
       oracle:InputModified, oracle:OutputType, oracle:ModeDependent.
ENC  : the lossless chunk encoders' encode(chunk) (raw, compressed_segmentation)
       called with a chunk of ANOTHER numeric type than the dataset's
       data_type - the other place where the package may convert voxel types.
       Interpretation (weaker reading): the encoders do not promise a
       conversion, so a refusal (any exception, TypeError today) is accepted
       and not judged; but IF encode returns, the values it stored are the
       result of "converting voxel values from one numeric type to another"
       and every one of them is judged by the same oracle:Nearest (Convert):
       exact when representable, nearest / half-even / saturated otherwise,
       never wrapped or truncated.  Anchor and random values per (input type,
       dataset type, encoding); a stored element count different from the
       chunk's is oracle:OutputType.  (A stored chunk that reads back with
       other values is also a matter of C03's round trip.)
"""
import json

from .. import tlc
from .. import valuemap_driver as vd

LEVEL = "model_checking"
RULE = ("value case = (input dtype, output dtype, exact input value); non-trivial when the dtypes differ "
        "and the value is not a small in-range integer (needs rounding, saturation, or exceeds 2^24); "
        "distinct = distinct (in, out, value) triples (transformer) and (encoding, in, out, value) (encoder entry points).  Call case = (pair, mode, layout, values); "
        "non-trivial when the mode is in-place, the layout is not contiguous or the byte order is not "
        "native; call cases are distinct per byte-order arrangement")


def value_cases_of(group, ref):
    out = []
    for fr, x in zip(group["values"], ref["elems"]):
        rk, r = vd.enc_result(x)
        out.append({"k": "v", "in": group["in"], "out": group["out"],
                    "v": vd.enc_fraction(fr), "rk": rk, "r": r,
                    "_fr": fr, "_mode": ref["mode"], "_layout": ref["layout"], "_order": group["order"],
                    "_obs": repr(x)})
    return out


def run_cases_of(group, ref):
    out = []
    for run in group["runs"]:
        out.append({"k": "run", "in": group["in"], "out": group["out"], "order": group["order"],
                    "mode": run["mode"],
                    "layout": run["layout"], "exc": run["exc"], "before": run["before"],
                    "after": run["after"], "res": run["res"],
                    "ref": ref["res"] if ref is not None else run["res"],
                    "rdtype": run["rdtype"], "rshape": run["rshape"], "shape": group["shape"],
                    "_group": group, "_run": run})
    return out


def reference_run(group):
    for run in group["runs"]:
        if not run["exc"] and run["elems"] is not None:
            return run
    return None


def strip(c):
    return {k: v for k, v in c.items() if not k.startswith("_")}


def build_groups(ctx):
    groups = []
    # S->C: anchor points exported by TLC, per input type
    recs = ctx.export("Gen_ValueMap", workers=8)
    anchors = {}
    for r in recs:
        d = json.loads(r[1])
        anchors[d["in"]] = (d["outs"], [vd.dec_value(v) for v in d["pts"]])
    if sorted(anchors) != sorted(vd.IN_DTYPES):
        raise tlc.MachineryError("Gen_ValueMap exported %s" % sorted(anchors))
    ctx.notes["anchor_points_exported"] = {k: len(v[1]) for k, v in sorted(anchors.items())}
    nrand = ctx.pick(64, 10000)
    per = 64
    for i in vd.IN_DTYPES:
        outs, pts = anchors[i]
        if sorted(outs) != sorted(vd.OUT_DTYPES):
            raise tlc.MachineryError("output types of the spec and of the driver differ")
        for p in pts:
            if not vd.representable(p, i):
                raise tlc.MachineryError("TLC anchor %s is not a value of %s" % (p, i))
        for o in vd.OUT_DTYPES:
            vals = vd.random_values(ctx.rng, i, o, nrand)     # C->S: random values
            for order in vd.orders_for(i):
                for k in range(0, len(pts), per):
                    groups.append(("anchor", vd.run_group(i, o, pts[k:k + per], order)))
                for k in range(0, len(vals), per):
                    groups.append(("random", vd.run_group(i, o, vals[k:k + per], order)))
    return groups, anchors


def encoder_cases(ctx, anchors):
    """ENC: value cases recorded from the encoders' encode()"""
    cases = []
    stats = {"calls": 0, "refused": {}, "returned": 0}
    per = 64
    for encoding, outs in vd.ENCODINGS.items():
        for i in vd.IN_DTYPES:
            pts = anchors[i][1]
            for o in outs:
                vals = pts + vd.random_values(ctx.rng, i, o, ctx.pick(32, 2000))
                for k in range(0, len(vals), per):
                    rec = vd.run_encoder_group(encoding, i, o, vals[k:k + per])
                    stats["calls"] += 1
                    if rec["exc"]:
                        stats["refused"][rec["exc"]] = stats["refused"].get(rec["exc"], 0) + 1
                        continue
                    stats["returned"] += 1
                    if rec["elems"] is None:
                        cases.append({"k": "run", "in": i, "out": o, "order": "native", "mode": "preserve",
                                      "layout": "encoder:" + encoding, "exc": "", "before": "", "after": "",
                                      "res": "", "ref": "", "rdtype": o, "rshape": [rec["stored_count"]],
                                      "shape": [len(rec["values"])],
                                      "_group": {"values": rec["values"]}, "_run": rec})
                        continue
                    for fr, x in zip(rec["values"], rec["elems"]):
                        rk, r = vd.enc_result(x)
                        cases.append({"k": "v", "in": i, "out": o, "v": vd.enc_fraction(fr), "rk": rk, "r": r,
                                      "_fr": fr, "_mode": "encode", "_layout": "encoder:" + encoding,
                                      "_order": "native", "_obs": repr(x), "_origin": "encoder"})
    ctx.notes["encoder_calls"] = stats
    return cases


def sig_value(c):
    return {"in_dtype": c["in"], "out_dtype": c["out"], "mode": c["_mode"], "layout": c["_layout"],
            "byte_order": c["_order"], "value_class": vd.value_class(c["_fr"], c["out"])}


def sig_run(c):
    return {"in_dtype": c["in"], "out_dtype": c["out"], "mode": c["mode"], "layout": c["layout"],
            "byte_order": c["order"], "exc": c["exc"], "value_class": "array"}


def judge_groups(ctx, groups, extra=()):
    vcases, rcases = [], []
    seen = set()
    for c in extra:             # ENC cases (value cases, or a run case for a wrong element count)
        if c["k"] == "run":
            rcases.append(c)
            continue
        key = (c["_layout"], c["in"], c["out"], c["_fr"], c["rk"], json.dumps(c["r"]))
        if key not in seen:
            seen.add(key)
            vcases.append(c)
    for origin, g in groups:
        ref = reference_run(g)
        rcases += run_cases_of(g, ref)
        if ref is not None:
            for c in value_cases_of(g, ref):
                key = (c["in"], c["out"], c["_fr"], c["rk"], json.dumps(c["r"]))
                if key in seen:
                    continue
                seen.add(key)
                c["_origin"] = origin
                vcases.append(c)
    cases = vcases + rcases
    for k, c in enumerate(cases):
        c["tid"] = k + 1
    verdicts = ctx.judge("Trace_ValueMap", [strip(c) for c in cases], workers=12, chunk=10000)
    return cases, verdicts


def report(ctx, cases, verdicts):
    nsample = 0
    for c in cases:
        st, clause, _ = verdicts[c["tid"]]
        if clause.startswith("machinery:"):
            ctx.undecided("%s on %s" % (clause, json.dumps(strip(c))[:400]))
            continue
        ctx.count()
        if c["k"] == "v":
            cls = vd.value_class(c["_fr"], c["out"])
            if c["in"] != c["out"] and cls != "in_range/int/le2^24":
                ctx.nontrivial(("v", c["in"], c["out"], str(c["_fr"])) if c["_origin"] != "encoder"
                               else ("enc", c["_layout"], c["in"], c["out"], str(c["_fr"])))
            if st != "ok":
                ctx.violation(clause, sig_value(c),
                              {"kind": "value", "in": c["in"], "out": c["out"],
                               "value": str(c["_fr"]), "value_hex": float(c["_fr"]).hex()
                               if abs(c["_fr"]) < 2 ** 1000 else "", "observed": c["_obs"],
                               "mode": c["_mode"], "layout": c["_layout"], "order": c["_order"],
                               "case": strip(c)})
            elif nsample < 2 and cls != "in_range/int/le2^24" and c["in"] != c["out"]:
                nsample += 1
                ctx.sample({"in": c["in"], "out": c["out"], "value": str(c["_fr"]),
                            "observed": c["_obs"], "verdict": "ok"})
        else:
            if c["mode"] == "inplace" or c["layout"] != "contig" or c["order"] != "native":
                ctx.nontrivial(("run", c["in"], c["out"], c["order"], c["mode"], c["layout"], c["before"][:64],
                                len(c["before"])))
            if st != "ok":
                g = c["_group"]
                ctx.violation(clause, sig_run(c),
                              {"kind": "run", "in": c["in"], "out": c["out"], "order": c["order"],
                               "mode": c["mode"],
                               "layout": c["layout"], "exc": c["exc"], "msg": c["_run"].get("msg", ""),
                               "values": [str(v) for v in g["values"]]})
    run_ok = [c for c in cases if c["k"] == "run" and verdicts[c["tid"]][0] == "ok"
              and c["mode"] == "inplace" and c["layout"] == "strided"]
    if run_ok:
        c = run_ok[0]
        ctx.sample({"in": c["in"], "out": c["out"], "mode": c["mode"], "layout": c["layout"],
                    "before": c["before"][:48], "after": c["after"][:48], "res": c["res"][:48],
                    "verdict": "ok"})


def run(ctx):
    ctx.cov["rule"] = RULE
    ctx.assumptions += [
        "float32 target: a value whose IEEE rounding exceeds the largest finite float32 may come out as "
        "that maximum or as infinity (both accepted); -0.0 = +0.0; NaN/inf inputs are outside the property",
        "in the in-place mode the caller's buffer may hold anything after the call",
        "encoder entry points: a refusal (exception) of a chunk of another type is accepted; a returned "
        "encode() is judged on the values it stored (oracle:Nearest)",
        "an input type in non-native byte order is the same input type (same values); the byte order of the "
        "RESULT's dtype is not constrained (dtype compared by name, content in native order)",
        "TLC 1.8 evaluates the oracle faithfully; harness/valuemap_driver.py only re-encodes numbers "
        "(int / float.as_integer_ratio -> bit sequences) and buffer bytes (hex)",
    ]
    ctx.mc("MC_ValueMap", workers=16, coverage=not ctx.quick)
    bad = tlc.model_check("MC_ValueMap", "MC_ValueMap_copyFalse", workers=8)
    if bad["ok"]:
        raise tlc.MachineryError("deviation switch CopyPolicy=copyFalse did not violate Works (vacuous model)")
    ctx.notes["switch_copyFalse_violates"] = bad["invariant_violated"]
    groups, anchors = build_groups(ctx)
    ctx.notes["groups"] = len(groups)
    ctx.notes["transformer_calls"] = sum(len(g["runs"]) for _, g in groups)
    enc = encoder_cases(ctx, anchors)
    ctx.notes["encoder_value_cases"] = sum(1 for c in enc if c["k"] == "v")
    cases, verdicts = judge_groups(ctx, groups, enc)
    ctx.notes["value_cases"] = sum(1 for c in cases if c["k"] == "v")
    ctx.notes["call_cases"] = sum(1 for c in cases if c["k"] == "run")
    report(ctx, cases, verdicts)


def replay(ctx, path):
    from fractions import Fraction
    with open(path) as f:
        rp = json.load(f)
    d = rp["detail"]
    if d["kind"] == "value":
        values = [Fraction(d["value"])]
    else:
        values = [Fraction(v) for v in d["values"]]
    if str(d.get("layout", "")).startswith("encoder:"):
        rec = vd.run_encoder_group(d["layout"].split(":", 1)[1], d["in"], d["out"], values)
        print("replay: encode", d["layout"], d["in"], "->", d["out"], rec["exc"] or "returned")
        extra = []
        if not rec["exc"] and rec["elems"] is not None:
            for fr, x in zip(rec["values"], rec["elems"]):
                rk, r = vd.enc_result(x)
                extra.append({"k": "v", "in": d["in"], "out": d["out"], "v": vd.enc_fraction(fr), "rk": rk,
                              "r": r, "_fr": fr, "_mode": "encode", "_layout": d["layout"],
                              "_order": "native", "_obs": repr(x), "_origin": "encoder"})
        cases, verdicts = judge_groups(ctx, [], extra) if extra else ([], {})
        worst = "ok"
        for c in cases:
            st, clause, _ = verdicts[c["tid"]]
            if c["_fr"] == values[0]:
                print("replay: v", c["in"], c["out"], c["_obs"], "->", clause)
                if st != "ok":
                    worst = clause
        print("replay verdict:", worst)
        ctx.cleanup()
        return 0 if worst == "ok" else 1
    g = vd.run_group(d["in"], d["out"], values, d.get("order", "native"))
    cases, verdicts = judge_groups(ctx, [("replay", g)])
    worst = "ok"
    for c in cases:
        st, clause, _ = verdicts[c["tid"]]
        if c["k"] == "run" and (c["mode"], c["layout"]) != (d["mode"], d["layout"]) and d["kind"] == "run":
            continue
        if c["k"] == "v" and d["kind"] == "value" and c["_fr"] != values[0]:
            continue
        if c["k"] == "v" and d["kind"] == "run":
            continue
        if c["k"] == "run" and d["kind"] == "value":
            continue
        print("replay:", c["k"], c["in"], c["out"], c.get("mode", c.get("_mode")),
              c.get("layout", c.get("_layout")), c.get("_obs", c.get("exc", "")), "->", clause)
        if st != "ok":
            worst = clause
    print("replay verdict:", worst)
    ctx.cleanup()
    return 0 if worst == "ok" else 1
