"""C14 - reading over HTTP gives the same bytes as reading the files locally.

M    : MC_HttpRead - every placement of <= 2 server faults over the request
       sequence of a fetch (plain, .shard, legacy .index/.data): the client
       design never returns wrong bytes (given the length check and
       raise_for_status; both deviation switches must FAIL without them).
S->C : every fault schedule exported by TLC (all single faults; sampled double
       faults in quick, all in thorough) replayed against a loopback server
       that implements the documented serving rules, through
       get_accessor_for_url on http:// URLs (with/without trailing slash,
       precomputed:// prefix, empty path).
C->S : fault-free equivalence sweep: for real datasets (sharded: grids, bit
       triples, both encodings, subsets; plain: flat/deep x gzip) every info and
       every chunk position is fetched over HTTP and locally; Trace_HttpRead
       judges WrongBytes / MissingNotError / FaultFreeFailed / PlainErrorClass
       / Dispatch.
"""
import json

from .. import http_driver as hd
from .. import shard_driver as sd

LEVEL = "model_checking"
RULE = ("a fetch is non-trivial when a server fault is placed on one of its requests, or when the target "
        "is a stored chunk of a shard with >= 2 chunks, or a missing chunk; distinct = distinct (dataset "
        "parameters, target, URL spelling, schedule) tuples")


def spell(rng, server, sub):
    """URL spellings: trailing slash, precomputed:// prefix; empty path when sub == ''."""
    url = server.url(sub)
    variants = [url.rstrip("/"), url.rstrip("/") + "/", "precomputed://" + url.rstrip("/")]
    return rng.choice(variants)


def run(ctx):
    ctx.cov["rule"] = RULE
    ctx.assumptions += [
        "server environment = docs/serving-data.rst: flat URL answered from flat or (rewrite) deep file, "
        "gzip_static for name.gz, sharded files without content encoding and with Range/HEAD support",
        "for sharded datasets any exception class counts as an error report; plain datasets must raise DataAccessError",
    ]
    ctx.mc("MC_HttpRead", workers=8)
    from .. import tlc
    for dev in ("MC_HttpRead_nolen", "MC_HttpRead_nostatus"):
        bad = tlc.model_check("MC_HttpRead", dev, workers=4)
        if bad["ok"]:
            raise tlc.MachineryError("deviation %s did not violate NoWrongBytes" % dev)
    ctx.notes["switches_violate"] = ["LengthCheck=FALSE", "StatusCheck=FALSE"]

    singles = [json.loads(r[1]) for r in ctx.export("Gen_HttpRead", "Gen_HttpRead_single", workers=4)]
    doubles = [json.loads(r[1]) for r in ctx.export("Gen_HttpRead", workers=8)]
    doubles = [d for d in doubles if sum(b != "Normal" for b in d["sched"]) == 2]
    doubles.sort(key=lambda d: json.dumps(d, sort_keys=True))
    if ctx.quick:
        doubles = ctx.rng.sample(doubles, 150)
    scheds = singles + doubles
    ctx.notes["schedules_from_tlc"] = len(scheds)

    work = ctx.scratch("verif_c14_")
    cases = []
    server = hd.Server(work)
    try:
        # ---- datasets for the fault schedules: shards with exactly 1 or 2 non-empty minishards
        ds = {}
        for kind in ("shard", "legacy"):
            for nm in (1, 2):
                cfg = {"grid": [2, 2, 1], "pb": 0, "mb": 1, "sb": 1, "enc": "raw"} if nm == 2 else \
                      {"grid": [2, 2, 1], "pb": 1, "mb": 1, "sb": 0, "enc": "gzip"}
                # nm == 1: store only positions of one minishard
                allp = sorted(sd.all_pos(cfg["grid"]), key=lambda p: sd.morton_ref(cfg["grid"], p))
                if nm == 2:
                    stored = allp
                else:
                    stored = [p for p in allp if (sd.morton_ref(cfg["grid"], p) >> 1) & 1 == 0]
                d, sizes, rec = hd.build_sharded(work, cfg, stored, salt=5, legacy=(kind == "legacy"))
                ds[(kind, nm)] = (d, sizes, stored, cfg, rec)
        dplain, psizes, pstored = hd.build_plain(work, "deep", True, [2, 1, 1], salt=6)
        ds[("plain", 1)] = ds[("plain", 2)] = (dplain, psizes, pstored, None, None)

        def one(kind, nm, target, pos, sched, sub_url=None):
            d, sizes, stored, cfg, rec = ds[(kind, nm)]
            coords = sd.coords_of(pos, 4, sizes) if pos is not None else None
            sub = os_rel(work, d)
            url = sub_url or spell(ctx.rng, server, sub)
            res, reqs, acc_class, info_faulted = hd.http_fetch(server, url, target, coords, sched)
            loc = hd.local_read(d, target, coords)
            case = {"kind": kind, "target": target, "nminis": nm, "declared": kind != "plain",
                    "accClass": acc_class, "infoFaulted": info_faulted,
                    "reqs": [{"m": r["m"], "rng": r["rng"], "applied": r["applied"]} for r in reqs],
                    "local": {"st": loc["st"], "data": loc["data"]},
                    "http": res, "meta": {"url": url.replace(str(server.port), "PORT"), "pos": pos,
                                          "sched": sched, "cfg": cfg, "stored": stored,
                                          "paths": [r["path"] for r in reqs]}}
            cases.append(case)

        import os

        def os_rel(base, d):
            return os.path.relpath(d, base)

        for s in scheds:
            kind, nm = s["kind"], s["nminis"]
            d, sizes, stored, cfg, rec = ds[(kind, nm)]
            pos = stored[len(stored) // 2]
            one(kind, nm, "chunk", pos, s["sched"])
        # ---- an error status whose page has exactly the length the client asked for: the
        # length check cannot tell it from data, only the status can (every request position)
        for (kind, nm) in (("shard", 2), ("legacy", 2), ("plain", 1)):
            d, sizes, stored, cfg, rec = ds[(kind, nm)]
            pos = stored[len(stored) // 2]
            for k in range(9 if kind != "plain" else 2):
                one(kind, nm, "chunk", pos, ["Normal"] * k + ["ErrorPageFit"])
        # ---- same-accessor sessions: a faulted fetch, then fault-free fetches of another
        # chunk, of the info file and of the first chunk again through the SAME accessor
        # object (a transient server fault must not poison the accessor's state)
        # (faults on the two info requests of the accessor construction are left to the
        # single-fetch cases: with an unreadable info the dispatcher legitimately falls
        # back to the plain accessor, and that object is then simply the wrong one)
        sess = [s for s in singles if s["kind"] in ("shard", "legacy")
                and all(b == "Normal" for b in s["sched"][:2])]
        for s in sess:
            kind, nm = s["kind"], s["nminis"]
            d, sizes, stored, cfg, rec = ds[(kind, nm)]
            pa = stored[len(stored) // 2]
            ida = sd.morton_ref(cfg["grid"], pa) >> cfg["pb"]
            # second chunk: another minishard of the same dataset when there is one
            others = [p for p in stored if p != pa]
            mm, sm = (1 << cfg["mb"]) - 1, (1 << cfg["sb"]) - 1
            hid = lambda p: sd.morton_ref(cfg["grid"], p) >> cfg["pb"]      # noqa: E731
            diff = [p for p in others if (hid(p) ^ ida) & mm]
            same_shard = [p for p in diff if ((hid(p) >> cfg["mb"]) & sm) == ((ida >> cfg["mb"]) & sm)]
            pb = (same_shard or diff or others or [pa])[0]
            ca, cb = sd.coords_of(pa, 4, sizes), sd.coords_of(pb, 4, sizes)
            url = spell(ctx.rng, server, os_rel(work, d))
            script = {i: b for i, b in enumerate(s["sched"]) if b != "Normal"}
            steps = [("chunk", ca, script), ("chunk", cb, {}), ("info", None, {}), ("chunk", ca, {})]
            outs = hd.http_session(server, url, steps)
            for k, ((target, coords, script_k), (res, reqs, acc_class, info_faulted)) in enumerate(zip(steps, outs)):
                loc = hd.local_read(d, target, coords)
                cases.append({"kind": kind, "target": target, "nminis": nm if k == 0 else 0, "declared": True,
                              "accClass": acc_class, "infoFaulted": info_faulted or k > 0,
                              "reqs": [{"m": r["m"], "rng": r["rng"], "applied": r["applied"]} for r in reqs],
                              "local": {"st": loc["st"], "data": loc["data"]}, "http": res,
                              "meta": {"url": url.replace(str(server.port), "PORT"), "pos": list(coords or []),
                                       "sched": s["sched"] if k == 0 else [], "cfg": cfg, "session_step": k,
                                       "first_step_sched": s["sched"], "paths": [r["path"] for r in reqs]}})
        # ---- persistent HTTP error statuses on every request ---------------------------
        for kind, nm in (("plain", 1), ("shard", 2), ("legacy", 2)):
            d, sizes, stored, cfg, rec = ds[(kind, nm)]
            ca = sd.coords_of(stored[0], 4, sizes)
            for code in (400, 401, 403, 404, 429, 500, 502, 503, 504):
                for target, coords in (("chunk", ca), ("info", None)):
                    url = spell(ctx.rng, server, os_rel(work, d))
                    (res, reqs, acc_class, info_faulted), = hd.http_session(
                        server, url, [(target, coords, {"all": "Status%d" % code})])
                    loc = hd.local_read(d, target, coords)
                    cases.append({"kind": kind, "target": target, "nminis": 0, "declared": kind != "plain",
                                  "accClass": acc_class, "infoFaulted": True,
                                  "reqs": [{"m": r["m"], "rng": r["rng"], "applied": r["applied"]} for r in reqs],
                                  "local": {"st": "exc", "data": []},      # nothing is retrievable from this server
                                  "http": res,
                                  "meta": {"url": url.replace(str(server.port), "PORT"), "pos": list(coords or []),
                                           "sched": ["all:Status%d" % code], "cfg": cfg,
                                           "paths": [r["path"] for r in reqs]}})
        # ---- fault-free equivalence sweep over many datasets -----------------
        from . import c04
        nds = ctx.pick(40, 1200)
        for cfg in c04.gen_random_cfgs(ctx, nds):
            if cfg["mb"] > 3:
                cfg["mb"] = 3
            sub, order = c04.subset_and_order(ctx, cfg)
            kind = ctx.rng.choice(["shard", "shard", "legacy"])
            d, sizes, rec = hd.build_sharded(work, cfg, order, salt=ctx.rng.randrange(1 << 20),
                                             legacy=(kind == "legacy"))
            ds[("x", 0)] = (d, sizes, sub, cfg, rec)
            allp = sd.all_pos(cfg["grid"])
            ctx.rng.shuffle(allp)
            for pos in allp[:ctx.pick(5, 12)]:
                dsk = ("x", 0)
                dd, sizes, stored, cfg2, rec2 = ds[dsk]
                coords = sd.coords_of(pos, 4, sizes)
                url = spell(ctx.rng, server, os_rel(work, dd))
                res, reqs, acc_class, info_faulted = hd.http_fetch(server, url, "chunk", coords, [])
                loc = hd.local_read(dd, "chunk", coords)
                cases.append({"kind": kind, "target": "chunk", "nminis": 0, "declared": True,
                              "accClass": acc_class, "infoFaulted": info_faulted,
                              "reqs": [{"m": r["m"], "rng": r["rng"], "applied": r["applied"]} for r in reqs],
                              "local": {"st": loc["st"], "data": loc["data"]}, "http": res,
                              "meta": {"url": url.replace(str(server.port), "PORT"), "pos": list(pos),
                                       "sched": [], "cfg": cfg, "stored": [list(p) for p in sub],
                                       "paths": [r["path"] for r in reqs], "sweep": True}})
            url = spell(ctx.rng, server, os_rel(work, d))
            res, reqs, acc_class, info_faulted = hd.http_fetch(server, url, "info", None, [])
            loc = hd.local_read(d, "info", None)
            cases.append({"kind": kind, "target": "info", "nminis": 0, "declared": True,
                          "accClass": acc_class, "infoFaulted": info_faulted,
                          "reqs": [{"m": r["m"], "rng": r["rng"], "applied": r["applied"]} for r in reqs],
                          "local": {"st": loc["st"], "data": loc["data"]}, "http": res,
                          "meta": {"url": url.replace(str(server.port), "PORT"), "pos": None, "sched": [],
                                   "cfg": cfg, "paths": [r["path"] for r in reqs], "sweep": True}})
            import shutil
            shutil.rmtree(d, ignore_errors=True)
        # ---- multi-scale datasets: ONE accessor reads chunks of several scales in an
        # interleaved order (per-scale reader state must not leak between scales)
        for _ in range(ctx.pick(12, 300)):
            nsc = ctx.rng.choice([2, 2, 3])
            cfgs = c04.gen_random_cfgs(ctx, nsc)
            for cfg in cfgs:
                cfg["mb"] = min(cfg["mb"], 3)
            if ctx.rng.random() < 0.6:
                # a pyramid: every scale has the SAME sharding parameters and chunk size,
                # only the volume (grid) differs
                base = dict(cfgs[0])
                if base["pb"] > 8:
                    base.update(pb=0, mb=1, sb=1)
                g0 = [ctx.rng.choice([2, 3, 4, 8]), ctx.rng.choice([2, 4]), ctx.rng.choice([1, 2])]
                cfgs = [dict(base, grid=[max(1, -(-g // (2 ** k))) for g in g0]) for k in range(nsc)]
                if ctx.rng.random() < 0.6:
                    # ... same bit triple, but the scales differ in their data / index encodings
                    for cfg in cfgs:
                        cfg["enc"] = ctx.rng.choice(["raw", "gzip"])
                        cfg["ienc"] = ctx.rng.choice(["raw", "gzip"])
                    if len({(c["enc"], c["ienc"]) for c in cfgs}) == 1:
                        cfgs[-1]["enc"] = "gzip" if cfgs[0]["enc"] == "raw" else "raw"
                if ctx.rng.random() < 0.5:
                    cfgs.reverse()          # coarse scale first
            stored_lists = []
            for cfg in cfgs:
                allp = sd.all_pos(cfg["grid"])
                ctx.rng.shuffle(allp)
                keep = sorted(allp[:max(1, int(len(allp) * ctx.rng.choice([1.0, 1.0, 0.6])))],
                              key=lambda p: sd.morton_ref(cfg["grid"], p))
                stored_lists.append(keep)
            d, all_sizes = hd.build_multiscale(work, cfgs, stored_lists, salt=ctx.rng.randrange(1 << 20))
            steps = []
            for k, cfg in enumerate(cfgs):
                allp = sd.all_pos(cfg["grid"])
                ctx.rng.shuffle(allp)
                for pos in allp[:ctx.pick(3, 6)]:
                    steps.append(("chunk", sd.coords_of(pos, 4, all_sizes[k]), {}, "s%d" % k))
            ctx.rng.shuffle(steps)
            url = spell(ctx.rng, server, os_rel(work, d))
            outs = hd.http_session(server, url, steps)
            for k, ((target, coords, _s, key), (res, reqs, acc_class, info_faulted)) in enumerate(zip(steps, outs)):
                loc = hd.local_read(d, target, coords, key=key)
                cases.append({"kind": "shard", "target": "chunk", "nminis": 0, "declared": True,
                              "accClass": acc_class, "infoFaulted": info_faulted or k > 0,
                              "reqs": [{"m": r["m"], "rng": r["rng"], "applied": r["applied"]} for r in reqs],
                              "local": {"st": loc["st"], "data": loc["data"]}, "http": res,
                              "meta": {"url": url.replace(str(server.port), "PORT"), "pos": list(coords),
                                       "sched": [], "cfg": cfgs, "scale": key, "session_step": k,
                                       "multiscale": True, "paths": [r["path"] for r in reqs], "sweep": True}})
            import shutil
            shutil.rmtree(d, ignore_errors=True)
        # plain datasets: flat/deep x gzip, every chunk + a missing chunk + info;
        # one dataset served at the server ROOT (URL with empty path)
        for layout in ("flat", "deep"):
            for gz in (False, True):
                grid = [ctx.rng.randint(1, 3), ctx.rng.randint(1, 2), ctx.rng.randint(1, 2)]
                d, sizes, stored = hd.build_plain(work, layout, gz, grid, salt=ctx.rng.randrange(1 << 20))
                targets = [("chunk", p) for p in stored] + [("chunk", (7, 7, 7)), ("info", None)]
                for target, pos in targets:
                    coords = sd.coords_of(pos, 4, sizes) if pos is not None else None
                    if pos == (7, 7, 7):
                        coords = (28, 32, 28, 32, 28, 32)
                    for root_mode in (False, True):
                        if root_mode:
                            server.set_root(d)
                            url = ctx.rng.choice(["http://127.0.0.1:%d" % server.port,
                                                  "http://127.0.0.1:%d/" % server.port])
                        else:
                            server.set_root(work)
                            url = spell(ctx.rng, server, os_rel(work, d))
                        res, reqs, acc_class, info_faulted = hd.http_fetch(server, url, target, coords, [])
                        loc = hd.local_read(d, target, coords)
                        cases.append({"kind": "plain", "target": target, "nminis": 0, "declared": False,
                                      "accClass": acc_class, "infoFaulted": info_faulted,
                                      "reqs": [{"m": r["m"], "rng": r["rng"], "applied": r["applied"]} for r in reqs],
                                      "local": {"st": loc["st"], "data": loc["data"]}, "http": res,
                                      "meta": {"url": url.replace(str(server.port), "PORT"),
                                               "pos": list(pos) if pos else None, "sched": [],
                                               "layout": layout, "gzip": gz, "root_mode": root_mode,
                                               "paths": [r["path"] for r in reqs], "sweep": True}})
                server.set_root(work)
    finally:
        server.stop()

    payload = [{k: v for k, v in c.items() if k != "meta"} for c in cases]
    verdicts = ctx.judge("Trace_HttpRead", payload, workers=8, chunk=3000)
    for c, p in zip(cases, payload):
        ctx.count()
        m = c["meta"]
        faulted = any(b != "Normal" for b in m["sched"])
        if faulted or c["local"]["st"] != "ok" or len(c["reqs"]) >= 5:
            ctx.nontrivial(json.dumps([c["kind"], c["target"], m.get("cfg"), m["pos"], m["url"], m["sched"]],
                                      sort_keys=True, default=str))
        st, clause, _ = verdicts[p["tid"]]
        if st != "ok":
            sig = {"kind": c["kind"], "target": c["target"], "faulted": faulted, "http_cls": c["http"]["cls"],
                   "acc_class": c["accClass"], "empty_path_url": m["url"].rstrip("/").endswith("PORT"),
                   "sweep": bool(m.get("sweep")), "multiscale": bool(m.get("multiscale"))}
            ctx.violation(clause, sig, {"meta": m, "http": c["http"], "local": c["local"], "reqs": c["reqs"]})
    ctx.sample({"kind": cases[0]["kind"], "sched": cases[0]["meta"]["sched"], "paths": cases[0]["meta"]["paths"],
                "http": cases[0]["http"]["st"] + ":" + cases[0]["http"]["cls"],
                "verdict": verdicts[payload[0]["tid"]][1]})
    ctx.sample({"kind": cases[-1]["kind"], "url": cases[-1]["meta"]["url"], "paths": cases[-1]["meta"]["paths"],
                "http": cases[-1]["http"]["st"], "verdict": verdicts[payload[-1]["tid"]][1]})


def replay(ctx, path):
    print("replay: rerun ./check C14 with the same VERIF_SEED; the replay file holds URL, schedule and request log")
    print(open(path).read()[:3000])
    return 1
