"""C18 - I/O failures and interrupted writes never yield silently wrong data.

Level: fault_enumeration.
M    : MC_FaultStore - store operations refined to I/O steps; every step x
       {Fail, Crash (incl. torn write)}: AfterCrashClassified, FailIsError,
       NoSilentFailure, OthersUntouched; deviation IndexOrder=first must FAIL.
S->C : for each scenario (file accessor deep/flat x gzip on/off x raw /
       compressed_segmentation: new chunk, overwrite, fetch, info store/fetch/
       exists; sharded accessor in-memory / on-disk strategy, raw / gzip
       sub-encoding: whole write session + close, fetch) a dry run under the
       in-process interposer lists the real I/O calls; then ONE injected run
       per (call index, plausible errno) and per crash point (before each call,
       and torn in the middle of each write). Afterwards a fresh accessor +
       PrecomputedIO reads every chunk. HTTP: every single server fault
       placement on plain and sharded fetches.
       Trace_FaultStore (TLC) classifies Correct/Old/Invalid/Wrong and judges.
"""
import json
import os

from .. import fault_driver as fdv
from .. import tlc

LEVEL = "fault_enumeration"
RULE = ("one evaluation = one injected run (scenario, I/O call index, errno | crash-before | torn write) "
        "or one HTTP fetch with a server fault at one request; non-trivial when the fault actually fired "
        "on a call of the operation under test; distinct = distinct (scenario, call index, call kind, "
        "mode, errno) tuples")


def scenarios(ctx):
    S = fdv.Scenario
    out = [
        S("file.gz.deep.store_new", "file", op="store_new"),
        S("file.gz.deep.store_overwrite", "file", op="store_overwrite"),
        S("file.plain.flat.store_new", "file", flat=True, gzip=False, op="store_new"),
        S("file.plain.flat.store_overwrite", "file", flat=True, gzip=False, op="store_overwrite"),
        S("file.gz.cseg.store_overwrite", "file", encoding="compressed_segmentation", op="store_overwrite"),
        # lossy codec: never gzipped, chunks larger than the JPEG header; a partial file must
        # not decode to other values than the complete one would
        S("file.jpeg.store_new", "file", encoding="jpeg", op="store_new", cs=8),
        S("file.gz.deep.fetch", "file", op="fetch"),
        S("file.plain.flat.fetch", "file", flat=True, gzip=False, op="fetch"),
        S("file.store_info", "file", op="store_info"),
        S("file.store_meta", "file", op="store_meta"),
        S("sharded.store_meta", "sharded", op="store_meta"),
        S("file.fetch_info", "file", op="fetch_info"),
        S("file.exists", "file", op="exists"),
        S("sharded.mem.raw.session", "sharded", op="store_new", strategy="in memory", enc="raw"),
        S("sharded.disk.gzip.session", "sharded", op="store_new", strategy="on disk", enc="gzip"),
        # one shard, one minishard, every chunk stored out of identifier order: the
        # writer's reordering buffer and temporary stores are in play for every chunk
        S("sharded.disk.raw.one_minishard", "sharded", op="store_new", strategy="on disk", enc="raw",
          bits=(0, 0, 0), order=(3, 0, 2, 1)),
        S("sharded.raw.fetch", "sharded", op="fetch", enc="raw"),
        S("sharded.gzip.fetch", "sharded", op="fetch", enc="gzip"),
        S("sharded.exists", "sharded", op="exists"),
        S("sharded.fetch_info", "sharded", op="fetch_info"),
    ]
    if not ctx.quick:
        out += [
            S("file.gz.flat.store_new", "file", flat=True, gzip=True, op="store_new"),
            S("file.plain.deep.store_overwrite", "file", flat=False, gzip=False, op="store_overwrite"),
            S("file.plain.cseg.store_new", "file", gzip=False, encoding="compressed_segmentation", op="store_new"),
            S("file.jpeg.flat.store_overwrite", "file", encoding="jpeg", flat=True, op="store_overwrite", cs=16),
            S("sharded.mem.gzip.session", "sharded", op="store_new", strategy="in memory", enc="gzip"),
            S("sharded.disk.raw.session", "sharded", op="store_new", strategy="on disk", enc="raw"),
            S("sharded.cseg.session", "sharded", op="store_new", strategy="on disk", enc="raw",
              encoding="compressed_segmentation"),
            S("sharded.mem.gzip.one_minishard", "sharded", op="store_new", strategy="in memory", enc="gzip",
              bits=(0, 0, 0), order=(2, 3, 1, 0)),
            S("sharded.disk.gzip.two_minishards", "sharded", op="store_new", strategy="on disk", enc="gzip",
              bits=(0, 1, 0), order=(3, 2, 0, 1)),
        ]
    return out


def http_cases(ctx, work):
    from .. import http_driver as hd
    from .. import shard_driver as sd
    from neuroglancer_scripts.accessor import DataAccessError
    cases = []
    server = hd.Server(work)
    try:
        cfg = {"grid": [2, 2, 1], "pb": 0, "mb": 1, "sb": 1, "enc": "raw"}
        allp = sd.all_pos(cfg["grid"])
        dsh, sizes_s, _ = hd.build_sharded(work, cfg, allp, salt=3)
        dleg, sizes_l, _ = hd.build_sharded(work, cfg, allp, salt=4, legacy=True)
        dpl, sizes_p, stored = hd.build_plain(work, "deep", True, [2, 1, 1], salt=5)
        # a dataset re-exported in the current format with the files of an EARLIER export in the
        # legacy two-file format still lying next to the shards (other contents): whatever fails,
        # the reader must never fall back to the stale files
        import shutil
        dmix, sizes_m, _ = hd.build_sharded(work, cfg, allp, salt=6)
        dold, _so, _ = hd.build_sharded(work, cfg, allp, salt=8, legacy=True)
        for n in os.listdir(os.path.join(dold, sd.KEY)):
            if n.endswith((".index", ".data")):
                shutil.copy(os.path.join(dold, sd.KEY, n), os.path.join(dmix, sd.KEY, n))
        targets = [("plain", dpl, sizes_p, (1, 0, 0), 2), ("shard", dsh, sizes_s, (1, 1, 0), 7),
                   ("legacy", dleg, sizes_l, (0, 1, 0), 9), ("shard_stale_legacy", dmix, sizes_m, (1, 1, 0), 7)]
        behs = ["NotFound", "ServerError", "Forbidden", "Status429", "Drop", "TruncBody", "ShortRange", "LongRange",
                "IgnoreRange", "ErrorPageFit"]
        for kind, d, sizes, pos, nreq in targets:
            coords = sd.coords_of(pos, 4, sizes)
            loc = hd.local_read(d, "chunk", coords)
            for k in range(nreq):
                for b in behs:
                    if kind == "shard_stale_legacy" and b == "NotFound":
                        # 404 IS the documented answer "this file does not exist": a server that says so
                        # for the shard file describes a legacy-only dataset, and no client can tell
                        continue
                    sched = ["Normal"] * k + [b]
                    url = server.url(os.path.relpath(d, work))
                    # http_fetch records only the class name: redo to get the hierarchy facts
                    from neuroglancer_scripts import accessor
                    server.arm({k: b})
                    outcome = {"st": "returned", "osErr": False, "dataAccess": False}
                    data = []
                    cls = ""
                    acc = None
                    try:
                        acc = accessor.get_accessor_for_url(url)
                        data = list(acc.fetch_chunk(sd.KEY, coords))
                    except Exception as e:
                        cls = type(e).__name__
                        outcome = {"st": "raised", "osErr": isinstance(e, OSError),
                                   "dataAccess": isinstance(e, DataAccessError)}
                    log = server.log()
                    fired = any(e["applied"] != "Normal" for e in log)
                    # "everything stored earlier remains readable": the other chunks of the dataset,
                    # fetched afterwards from a healthy server through the SAME accessor object
                    # (a fresh one only if the faulted call was its construction)
                    server.arm({})
                    others = []
                    # a fault on the info probe legitimately makes the dispatcher pick the plain
                    # accessor class: that object is simply the wrong one, use a fresh accessor then
                    info_faulted = any(e["applied"] != "Normal" and e["path"].endswith("/info") for e in log)
                    acc2 = None if info_faulted else acc
                    for p2 in (sd.all_pos(cfg["grid"]) if kind != "plain" else stored):
                        c2 = sd.coords_of(p2, 4, sizes)
                        exp2 = hd.local_read(d, "chunk", c2)
                        try:
                            if acc2 is None:
                                acc2 = accessor.get_accessor_for_url(url)
                            got = {"st": "ok", "data": list(acc2.fetch_chunk(sd.KEY, c2))}
                        except Exception as e2:
                            got = {"st": "exc", "data": [], "cls": type(e2).__name__}
                        others.append({"st": got["st"], "data": got["data"], "exp": exp2["data"]})
                    server.log()
                    acc = None
                    case = {"mode": "fail", "fired": fired, "optype": "fetch", "outcome": outcome,
                            "ret": {"has": outcome["st"] == "returned", "data": data},
                            "expRet": loc["data"], "targets": [], "others": others, "gzlayer": False, "failkind": "http"}
                    meta = {"scenario": "http." + kind + ".fetch", "plan": {"k": k, "mode": "fail", "err": b},
                            "calls": [[e["m"], e["path"].split("/")[-1]] for e in log], "exc": cls,
                            "target_read": []}
                    cases.append((case, meta))
        # persistent HTTP error statuses (a retrying client sees the same answer every time)
        for kind, d, sizes, pos, nreq in targets:
            coords = sd.coords_of(pos, 4, sizes)
            loc = hd.local_read(d, "chunk", coords)
            url = server.url(os.path.relpath(d, work))
            from neuroglancer_scripts import accessor
            for code in (400, 401, 403, 404, 408, 429, 500, 501, 502, 503, 504):
                for tgt in ("chunk", "info"):
                    server.arm({"all": "Status%d" % code})
                    outcome = {"st": "returned", "osErr": False, "dataAccess": False}
                    data, cls = [], ""
                    try:
                        acc = accessor.get_accessor_for_url(url)
                        data = list(acc.fetch_chunk(sd.KEY, coords) if tgt == "chunk" else acc.fetch_file("info"))
                    except Exception as e:
                        cls = type(e).__name__
                        outcome = {"st": "raised", "osErr": isinstance(e, OSError),
                                   "dataAccess": isinstance(e, DataAccessError)}
                    log = server.log()
                    case = {"mode": "fail", "fired": True, "optype": "fetch", "outcome": outcome,
                            "ret": {"has": outcome["st"] == "returned", "data": data},
                            "expRet": [-1],          # nothing can legitimately be returned
                            "targets": [], "others": [], "gzlayer": False, "failkind": "http"}
                    meta = {"scenario": "http.%s.fetch_%s.persistent" % (kind, tgt),
                            "plan": {"k": 0, "mode": "fail", "err": "Status%d" % code},
                            "calls": [[e["m"], e["path"].split("/")[-1]] for e in log], "exc": cls,
                            "target_read": []}
                    cases.append((case, meta))
        # file_exists over HTTP: a failing probe must be reported, not answered "absent"
        for kind, d, sizes, pos, nreq in targets:
            url = server.url(os.path.relpath(d, work))
            from neuroglancer_scripts import accessor
            for b in ["ServerError", "Forbidden", "Drop"]:
                server.arm({})
                acc = accessor.get_accessor_for_url(url)
                server.arm({0: b})
                outcome = {"st": "returned", "osErr": False, "dataAccess": False}
                ret, cls = [], ""
                try:
                    ret = [1 if acc.file_exists("info") else 0]
                except Exception as e:
                    cls = type(e).__name__
                    outcome = {"st": "raised", "osErr": isinstance(e, OSError),
                               "dataAccess": isinstance(e, DataAccessError)}
                log = server.log()
                case = {"mode": "fail", "fired": any(e["applied"] != "Normal" for e in log),
                        "optype": "exists", "outcome": outcome, "ret": {"has": bool(ret), "data": ret},
                        "expRet": [1], "targets": [], "others": [], "gzlayer": False, "failkind": "http"}
                meta = {"scenario": "http." + kind + ".exists", "plan": {"k": 0, "mode": "fail", "err": b},
                        "calls": [[e["m"], e["path"].split("/")[-1]] for e in log], "exc": cls, "target_read": []}
                cases.append((case, meta))
    finally:
        server.stop()
    return cases


def cli_cases(ctx, work, per_scen):
    """Command-line level: real sub-processes under the interposer, exit phase
    included (the sharded accessor flushes in an atexit handler)."""
    from concurrent.futures import ThreadPoolExecutor
    from .. import cli_fault as cf
    names = ["v2p.sharded", "compute.file", "compute.sharded", "convert.file_to_sharded", "v2p.file.gz",
             "v2p.geninfo", "gsi", "mesh", "slices.sharded"] if ctx.quick \
        else list(cf.SCENARIOS)
    out = []
    jobs = []
    for name in names:
        ref = cf.run_once(work, name, None)
        if ref["rc"] != 0:
            raise_case = cf.to_case(ref, ref, None)
            out.append((raise_case, {"scenario": "cli." + name, "plan": None, "calls": ref["calls"],
                                     "exc": ref["exc"], "target_read": [], "stderr": ref["stderr_tail"]}))
            continue
        out.append((cf.to_case(ref, ref, None), {"scenario": "cli." + name, "plan": None, "calls": ref["calls"],
                                                  "exc": "", "target_read": []}))
        plans = cf.plans_for(ref["calls"], ctx.rng, limit=ctx.pick(28, None))
        per_scen["cli." + name] = {"io_calls": len(ref["calls"]), "plans": len(plans)}
        jobs += [(name, plan, ref) for plan in plans]
    with ThreadPoolExecutor(max_workers=12) as ex:
        results = list(ex.map(lambda j: cf.run_once(work, j[0], j[1]), jobs))
    for (name, plan, ref), run in zip(jobs, results):
        out.append((cf.to_case(run, ref, plan), {"scenario": "cli." + name, "plan": plan, "calls": run["calls"],
                                                  "exc": run["exc"], "target_read": [], "rc": run["rc"],
                                                  "stderr": run["stderr_tail"]}))
    return out


def run(ctx):
    ctx.cov["rule"] = RULE
    ctx.assumptions += [
        "crash model: a PREFIX of the operation's write sequence (last write possibly torn) reaches the disk; "
        "directory entries created so far persist",
        "clause (1): a failed step must surface as DataAccessError/OSError, or the operation returns with its "
        "postcondition holding (a failed stat inside makedirs(exist_ok=True) is legitimately absorbed)",
        "clause (3) is evaluated through PrecomputedIO.read_chunk on a fresh accessor (decoder size/format "
        "checks are what make an empty .gz 'detectably invalid')",
    ]
    ctx.mc("MC_FaultStore", workers=4)
    from .. import tlc
    bad = tlc.model_check("MC_FaultStore", "MC_FaultStore_first", workers=4)
    if bad["ok"]:
        raise tlc.MachineryError("deviation IndexOrder=first did not violate AfterCrashClassified")
    ctx.notes["switch_index_first_violates"] = bad["invariant_violated"]
    # the sharded writer with stores that fail half-way, then close(): a close that
    # returns normally has written every accepted chunk (ShardWriterFaults.tla)
    ctx.mc("MC_ShardWriterFaults", ctx.pick("MC_ShardWriterFaults_quick", "MC_ShardWriterFaults"), workers=8)
    bad = tlc.model_check("MC_ShardWriterFaults", "MC_ShardWriterFaults_none", workers=4)
    if bad["ok"] or "NoSilentLoss" not in bad["invariant_violated"]:
        raise tlc.MachineryError("deviation Sticky=none did not violate NoSilentLoss")
    ctx.notes["switch_sticky_none_violates"] = bad["invariant_violated"]

    work = ctx.scratch("verif_c18_")
    runs = []
    per_scen = {}
    for scen in scenarios(ctx):
        dry_case, dry_meta = fdv.run_once(work, scen, None)
        runs.append((dry_case, dry_meta))
        calls = dry_meta["calls"]
        crash = scen.opname.startswith("store") and scen.opname != "store_info"
        plans = fdv.plans_for(calls, crash=crash)
        per_scen[scen.name] = {"io_calls": len(calls), "plans": len(plans)}
        for plan in plans:
            runs.append(fdv.run_once(work, scen, plan))
    runs += http_cases(ctx, work)
    runs += cli_cases(ctx, work, per_scen)
    ctx.notes["scenarios"] = per_scen
    # completeness of the enumeration itself: system calls seen by strace on the
    # enumerated directories vs the interposer's call log (harness/strace_audit.py)
    from .. import strace_audit as sa
    from .. import cli_fault as cf
    if sa.available():
        names = ["v2p.sharded", "convert.file_to_sharded"] if ctx.quick else list(cf.SCENARIOS)
        audits = [sa.audit(work, n) for n in names]
        ctx.notes["interposer_audit_strace"] = [
            {k: a[k] for k in ("scenario", "syscalls_on_roots", "interposer_calls")} for a in audits]
        bad = [a for a in audits if a["uncovered"] or a["count_mismatch"]]
        ctx.notes["enumeration_complete_per_strace"] = not bad
        if bad:
            # not a verdict and not a failure of what WAS explored: the evidence says that
            # some I/O calls of the tools are outside the enumeration (exit status unchanged)
            ctx.notes["interposer_audit_mismatch"] = bad
            print("AUDIT property=C18 I/O calls not seen by the interposer (enumeration incomplete): %s"
                  % json.dumps(bad)[:1200])
    else:
        ctx.notes["interposer_audit_strace"] = "strace not usable here (ptrace denied): audit skipped"

    cases = [c for c, _ in runs]
    verdicts = ctx.judge("Trace_FaultStore", cases, workers=8, chunk=2000, count_traces=True)
    for case, meta in runs:
        ctx.count()
        plan = meta["plan"]
        if plan and case["fired"]:
            k = plan["k"]
            call = meta["calls"][k] if k < len(meta["calls"]) else ["?", "?"]
            ctx.nontrivial((meta["scenario"], k, call[0], plan["mode"], plan["err"]))
        st, clause, _ = verdicts[case["tid"]]
        if st != "ok":
            k = plan["k"] if plan else -1
            call = meta["calls"][k] if plan and k < len(meta["calls"]) else ["none", ""]
            sig = {"scenario": meta["scenario"], "mode": plan["mode"] if plan else "none",
                   "err": plan["err"] if plan else "", "call_kind": call[0], "exc": meta["exc"],
                   "accessor": meta["scenario"].split(".")[0]}
            ctx.violation(clause, sig, {"scenario": meta["scenario"], "plan": plan, "call": call,
                                        "calls": meta["calls"], "outcome": case["outcome"], "exc": meta["exc"],
                                        "target_read": meta["target_read"],
                                        "targets": case["targets"], "ret": case["ret"], "expRet": case["expRet"]})
    for case, meta in runs[1:3]:
        ctx.sample({"scenario": meta["scenario"], "plan": meta["plan"], "calls": meta["calls"][:8],
                    "outcome": case["outcome"], "exc": meta["exc"], "verdict": verdicts[case["tid"]][1]})
    ctx.sample({"scenario": runs[-1][1]["scenario"], "plan": runs[-1][1]["plan"], "calls": runs[-1][1]["calls"],
                "outcome": runs[-1][0]["outcome"], "exc": runs[-1][1]["exc"]})


def replay(ctx, path):
    d = json.load(open(path))["detail"]
    if d["scenario"].startswith("http."):
        print("replay of HTTP cases: rerun ./check C18")
        return 2
    scen = [s for s in scenarios(ctx) + scenarios(type("T", (), {"quick": False})()) if s.name == d["scenario"]][0]
    work = ctx.scratch("verif_c18_")
    case, meta = fdv.run_once(work, scen, d["plan"])
    v = ctx.judge("Trace_FaultStore", [case])
    print("replay:", meta["scenario"], meta["plan"], "outcome", case["outcome"], meta["exc"], "verdict", v[1])
    return 0 if v[1][0] == "ok" else 1
