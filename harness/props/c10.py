"""C10 - decoders never misbehave on malformed chunk data.

M    : MC_CSeg (mutation space) - the decoder parse automaton
       (ReadChannelTable -> ChannelStart -> BlockHeader -> CheckBits ->
       LocateTable -> LocateValues -> Lookup -> Emit, every error exit) is run
       by TLC on every (field, boundary value) mutant of tiny valid encodings:
       it never crashes, Valid(buf) => Done /\\ out = CSegDecode(buf).  The
       deviation switch ChannelSlice = "next_unchecked" (the code today) must
       FAIL ParseTotal (non-vacuity).  MC_RawJpeg: the JPEG wrapper automaton
       over all PIL fact combinations; JpegLoad = "unguarded" must FAIL.
S->C : every mutant buffer TLC built (Gen_CSeg, Part = mutants: channel
       offsets, table offset, bits byte, values offset, one table index,
       buffer length x {0,1,self-1,self+1,len-1,len,len+1,clen..,2^24-1,
       2^32-1,...}) is decoded by the REAL decoder under a 5 s alarm.
C->S : seeded byte strings for all three codecs (random bytes, truncations,
       single/multi-byte mutations, word edits, parameter mismatches of valid
       encodings; all dtypes / channel counts); for JPEG the PIL facts for the
       same bytes are recorded.  Trace_CSeg (TLC) evaluates oracle:Hang,
       oracle:ForbiddenException, oracle:WrongShape, oracle:ValidRejected,
       oracle:ValidDecodedWrong and compares with the automaton (DRIFT).
"""
import io
import json
import os
import struct

import numpy as np

from .. import codec_driver as cd
from .. import tlc

LEVEL = "model_checking"
# Trace_CSeg.cfg holds the deviation switches in the position of the code today
# (DRIFT lines appear when the code moves); Trace_CSeg_conforming.cfg holds the
# repaired positions.  A fix: commit switches the default here (or the .cfg).
TRACE_CFG = os.environ.get("VERIF_C10_TRACE_CFG", "Trace_CSeg_conforming")
RULE = ("one case = one byte string handed to one decoder with one (dtype, channels, shape[, block]) "
        "request; non-trivial when the bytes are not accepted as-is, i.e. the oracle says malformed or "
        "the decoder raised; distinct = distinct (codec, request, sha1 of the bytes)")

BOUNDARY_WORDS = [0, 1, 2, 3, 0xFF, 0x100, 0xFFFF, 0x10000, 0xFFFFFF, 0x1000000, 0x7FFFFFFF,
                  0x80000000, 0xFFFFFFFF, 0x20000000, 0x08000001]


# ------------------------------------------------------------ byte mutations
def mutate_bytes(rng, raw, kinds=None):
    """one random corruption of a byte string: returns (kind, bytes)"""
    raw = bytes(raw)
    n = len(raw)
    kind = rng.choice(kinds or ["truncate", "truncate", "byte", "byte", "bit", "multi", "word",
                                "extend", "delete", "insert", "same"])
    if n == 0:
        kind = "extend"
    if kind == "truncate":
        return kind, raw[:rng.randrange(0, n)]
    if kind == "byte":
        m = bytearray(raw)
        m[rng.randrange(n)] = rng.choice([0, 1, 0x7F, 0x80, 0xFF, rng.randrange(256)])
        return kind, bytes(m)
    if kind == "bit":
        m = bytearray(raw)
        m[rng.randrange(n)] ^= 1 << rng.randrange(8)
        return kind, bytes(m)
    if kind == "multi":
        m = bytearray(raw)
        for _ in range(rng.randint(2, 5)):
            m[rng.randrange(n)] = rng.randrange(256)
        return kind, bytes(m)
    if kind == "word":
        m = bytearray(raw)
        if n >= 4:
            w = rng.randrange(n // 4)
            v = rng.choice(BOUNDARY_WORDS + [n // 4, n // 4 - 1, n // 4 + 1, w, w + 1])
            if rng.random() < 0.3:   # keep the high byte (bits field) of a header word
                v = (v & 0xFFFFFF) | (m[4 * w + 3] << 24)
            struct.pack_into("<I", m, 4 * w, v & 0xFFFFFFFF)
        return kind, bytes(m)
    if kind == "extend":
        return kind, raw + bytes(rng.randrange(256) for _ in range(rng.choice([1, 2, 3, 4, 8])))
    if kind == "delete":
        i = rng.randrange(n)
        return kind, raw[:i] + raw[i + rng.choice([1, 1, 4]):]
    if kind == "insert":
        i = rng.randrange(n + 1)
        return kind, raw[:i] + bytes(rng.randrange(256) for _ in range(rng.choice([1, 4]))) + raw[i:]
    return "same", raw


def random_bytes(rng, maxlen):
    n = rng.choice([0, 1, 2, 3, 4, 5, 7, 8, 12, 16]) if rng.random() < 0.3 else rng.randrange(0, maxlen)
    style = rng.random()
    if style < 0.5:
        return bytes(rng.randrange(256) for _ in range(n))
    if style < 0.8:   # small little-endian words: plausible offsets
        return b"".join(struct.pack("<I", rng.choice([0, 1, 2, 3, 4, 5, 8, rng.randrange(0, 40),
                                                      rng.choice([0, 1, 2, 4, 8, 16, 32]) << 24 | rng.randrange(0, 12)]))
                        for _ in range(n // 4)) + bytes(n % 4)
    return bytes([rng.choice([0, 0, 0, 1, 2, 255])] * n)


# --------------------------------------------------------------- generators
def gen_cseg(ctx, rng, n, notes, tlc_bases):
    """C->S byte strings for the compressed_segmentation decoder.  Bases are
    outputs of the real encoder; when it fails on a legal (non-cubic) input -
    C02's business - or with probability 0.25, a valid encoding built by TLC
    (Gen_CSeg Part = valid) is corrupted instead."""
    out = []
    enc_failed = 0
    from_tlc = 0
    while len(out) < n:
        dtype = rng.choice(["uint32", "uint64"])
        C = rng.choice([1, 1, 2, 2, 3, 4, 5, 7])      # many channels: the channel table outweighs the block headers
        shape = [rng.randint(1, 4) for _ in range(3)]
        if rng.random() < 0.5:
            b = rng.randint(1, 4)
            block = [b, b, b]
        else:
            block = [rng.randint(1, 4) for _ in range(3)]
        X, Y, Z = shape
        top = (1 << (32 if dtype == "uint32" else 64)) - 1
        nlab = rng.choice([1, 2, 3, 5, 17, 300])
        pal = [rng.choice([rng.randrange(0, 8), rng.randrange(0, top + 1), top - rng.randrange(0, 3)])
               for _ in range(nlab)]
        arr = np.array([rng.choice(pal) for _ in range(C * X * Y * Z)], dtype=dtype).reshape(C, Z, Y, X)
        st, v = cd.with_alarm(lambda: cd.cseg_encoder(dtype, C, block).encode(arr))
        if st != "ok":
            enc_failed += 1
        if st != "ok" or rng.random() < 0.25:
            raw, C, shape, block, dtype = rng.choice(tlc_bases)
            from_tlc += 1
        else:
            raw = bytes(v)
        req = (C, shape, block, dtype)
        if C >= 4 and rng.random() < 0.5:
            # every cut inside (and just after) the channel offset table
            for L in range(0, min(len(raw), 4 * C + 10)):
                case = cd.record_cseg_decode(raw[:L], C, shape, block, dtype)
                out.append((case, {"codec": "compressed_segmentation", "mutation": "truncate@%d" % L, "buf": raw[:L],
                                   "request": {"channels": C, "shape_xyz": shape, "block": block, "dtype": dtype}}))
        for _ in range(rng.randint(3, 8)):
            r = rng.random()
            if r < 0.12:
                kind, buf = "random", random_bytes(rng, 2 * len(raw) + 8)
            elif r < 0.2:
                kind, buf = "valid", raw
            else:
                kind, buf = mutate_bytes(rng, raw)
                if rng.random() < 0.15:
                    k2, buf = mutate_bytes(rng, buf)
                    kind += "+" + k2
            rq = req
            if rng.random() < 0.08:    # the request does not match what was encoded
                C2 = rng.choice([1, 2, 3])
                shape2 = [max(1, s + rng.choice([-1, 0, 0, 1])) for s in shape]
                block2 = [max(1, b_ + rng.choice([-1, 0, 0, 1])) for b_ in block]
                rq = (C2, shape2, block2, rng.choice(["uint32", "uint64"]))
                kind += "+request"
            warm = ()
            if rq is req and rng.random() < 0.3:
                # ONE decoder object: the valid chunk is decoded first, then these bytes are asked
                # for - also the SAME bytes with another chunk size (a border chunk of the same
                # block grid, a larger chunk)
                warm = ((raw, tuple(shape)),)
                kind += "+warm"
                if rng.random() < 0.6:
                    shape2 = list(shape)
                    ax = rng.randrange(3)
                    shape2[ax] = max(1, shape2[ax] + rng.choice([-1, -1, 1, block[ax], 2 * block[ax]]))
                    rq = (C, shape2, block, dtype)
                    buf = raw if rng.random() < 0.7 else buf
                    kind += "+resize"
            case = cd.record_cseg_decode(buf, rq[0], rq[1], rq[2], rq[3], warm=warm)
            out.append((case, {"codec": "compressed_segmentation", "mutation": kind, "buf": buf,
                               "warm": [[bytes(w).hex(), list(sh)] for w, sh in warm],
                               "request": {"channels": rq[0], "shape_xyz": rq[1], "block": rq[2],
                                           "dtype": rq[3]}}))
    notes["cseg_bases_where_encoder_failed"] = enc_failed
    notes["cseg_bases_built_by_tlc"] = from_tlc
    return out[:n]


RAW_DTYPES = ["uint8", "uint16", "uint32", "uint64", "float32"]


def gen_raw(ctx, rng, n):
    out = []
    while len(out) < n:
        dtype = rng.choice(RAW_DTYPES)
        C = rng.randint(1, 4)
        shape = [rng.randint(1, 4) for _ in range(3)]
        isz = np.dtype(dtype).itemsize
        size = C * shape[0] * shape[1] * shape[2] * isz
        raw = bytes(rng.randrange(256) for _ in range(size))
        r = rng.random()
        if r < 0.25:
            kind, buf = "valid", raw
        elif r < 0.45:
            kind, buf = "random", random_bytes(rng, 2 * size + 8)
        else:
            kind, buf = mutate_bytes(rng, raw, ["truncate", "extend", "delete", "insert", "byte", "same"])
            if kind == "truncate" and rng.random() < 0.5:
                buf = raw[:size - rng.randint(1, min(size, isz))]
        case = cd.record_raw_decode(buf, C, shape, dtype)
        out.append((case, {"codec": "raw", "mutation": kind, "buf": buf,
                           "request": {"channels": C, "shape_xyz": shape, "dtype": dtype}}))
    return out


def gen_jpeg(ctx, rng, nrng, n, notes):
    import PIL.Image
    from neuroglancer_scripts import chunk_encoding as ce
    out = []
    sweeps = 0
    while len(out) < n:
        C = rng.choice([1, 1, 3])
        shape = [rng.randint(1, 8) for _ in range(3)]
        X, Y, Z = shape
        smooth = rng.random() < 0.5
        if smooth:
            arr = (np.add.outer(np.add.outer(np.arange(Z) * 9, np.arange(Y) * 5), np.arange(X) * 3)[None]
                   + np.arange(C)[:, None, None, None] * 40) % 256
            arr = arr.astype("uint8")
        else:
            arr = nrng.integers(0, 256, size=(C, Z, Y, X), dtype=np.uint8)
        quality, plane = rng.choice([1, 50, 95, 100]), rng.choice(["xy", "xz"])
        try:
            enc = ce.JpegChunkEncoder("uint8", C, jpeg_quality=quality, jpeg_plane=plane)
            raw = enc.encode(arr)
        except Exception as e:      # recorded: the base comes from PIL directly then (C03 judges the encoder)
            notes["jpeg_bases_where_encoder_failed"] = notes.get("jpeg_bases_where_encoder_failed", 0) + 1
            notes.setdefault("jpeg_encoder_failures", []).append("%s q=%s %s" % (type(e).__name__, quality, plane))
            import io as _io
            img = arr.reshape(C, Z * Y, X) if plane == "xy" else arr.reshape(C, Z, Y * X)
            img = img[0] if C == 1 else np.moveaxis(img, 0, -1)
            bio = _io.BytesIO()
            PIL.Image.fromarray(img).save(bio, format="jpeg", quality=min(quality, 95))
            raw = bio.getvalue()
        req = (C, shape)
        variants = []
        if sweeps < ctx.pick(3, 40) and len(raw) < 700:
            sweeps += 1     # every truncation point of this chunk
            variants += [("truncate@%d" % k, raw[:k]) for k in range(len(raw))]
        for _ in range(rng.randint(4, 10)):
            r = rng.random()
            if r < 0.1:
                variants.append(("valid", raw))
            elif r < 0.2:
                variants.append(("random", random_bytes(rng, 200)))
            elif r < 0.3:
                # a well-formed image in another container
                b = io.BytesIO()
                plane = arr.reshape(C, Z * Y, X)[0]
                how = rng.choice(["png", "bmp", "gif", "png16", "tiff-float", "tiff16", "pbm", "pgm16", "png-bool"])
                if how in ("png", "bmp", "gif"):
                    PIL.Image.fromarray(plane).save(b, format=how)
                elif how == "png16":       # single band, 16-bit samples, matching pixel count
                    PIL.Image.fromarray(plane.astype(np.uint16) * 257).save(b, format="png")
                elif how == "tiff-float":
                    PIL.Image.fromarray(plane.astype(np.float32)).save(b, format="tiff")
                elif how == "tiff16":
                    PIL.Image.fromarray(plane.astype(np.uint16) * 257).save(b, format="tiff")
                elif how == "png-bool":
                    PIL.Image.fromarray(plane > 127).save(b, format="png")
                elif how == "pbm":
                    b.write(b"P4 %d %d\n" % (X, Z * Y) + bytes((X + 7) // 8 * Z * Y))
                else:
                    b.write(b"P5 %d %d 65535\n" % (X, Z * Y) + (plane.astype(">u2") * 257).tobytes())
                variants.append(("other-format:" + how, b.getvalue()))
            else:
                variants.append(mutate_bytes(rng, raw, ["truncate", "truncate", "byte", "bit", "multi",
                                                        "extend", "delete", "insert"]))
        # field-targeted: frame-header (SOF) height / width set to boundary values
        sof = max(raw.find(b"\xff\xc0"), raw.find(b"\xff\xc2"))
        if sof >= 0 and len(raw) > sof + 9 and rng.random() < 0.5:
            for _ in range(2):
                hv = rng.choice([0, 1, 0x4000, 0x7FFF, 0xFFFF, None])
                wv = rng.choice([0, 1, 0x4000, 0x7FFF, 0xFFFF, None])
                b = bytearray(raw)
                if hv is not None:
                    b[sof + 5:sof + 7] = hv.to_bytes(2, "big")
                if wv is not None:
                    b[sof + 7:sof + 9] = wv.to_bytes(2, "big")
                variants.append(("sof-dims", bytes(b)))
        for kind, buf in variants:
            rq = req
            if rng.random() < 0.06:
                rq = (rng.choice([1, 3]), [max(1, s + rng.choice([-1, 0, 1])) for s in shape])
                kind += "+request"
            case = cd.record_jpeg_decode(buf, rq[0], rq[1])
            out.append((case, {"codec": "jpeg", "mutation": kind, "buf": buf,
                               "request": {"channels": rq[0], "shape_xyz": rq[1], "dtype": "uint8"}}))
    notes["jpeg_full_truncation_sweeps"] = sweeps
    return out


# ------------------------------------------------------------------ verdicts
def sig_of(case, meta, clause, design):
    d = case["dec"]
    sig = {"clause": clause, "codec": meta["codec"],
           "exc": d["cls"] if d["st"] == "exc" else "",
           "outcome": d["st"], "mutation": meta["mutation"].split("@")[0].split("+")[0],
           "channels": meta["request"]["channels"], "dtype": meta["request"]["dtype"],
           "design_exit": design}
    if meta["codec"] == "compressed_segmentation":
        bl = meta["request"]["block"]
        sig["block_cubic"] = bl[0] == bl[1] == bl[2]
    if meta["codec"] == "jpeg":
        sig["pil_open"] = case["pil"]["open"]
        sig["pil_load"] = case["pil"]["load"]
        sig["pil_loadcls"] = case["pil"]["loadcls"]
    return sig


def detail_of(case, meta):
    d = case["dec"]
    det = {"codec": meta["codec"], "mutation": meta["mutation"], "request": meta["request"],
           "buf_hex": bytes(meta["buf"]).hex(),
           "observed": {k: d.get(k) for k in ("st", "cls", "msg", "shape", "dtype")}}
    if "field" in meta:
        det["field"] = meta["field"]
    if meta.get("warm"):
        det["warm"] = meta["warm"]
    if meta["codec"] == "jpeg":
        det["pil"] = {k: v for k, v in case["pil"].items() if k != "pix"}
    return det


def run_mc(ctx):
    r = ctx.mc("MC_CSeg", ctx.pick("MC_CSeg_mut_quick", "MC_CSeg_mut"), workers=16, coverage=True)
    exits = {k.split(".")[1]: v for k, v in r["coverage"].items()
             if k.endswith("_err") or k.endswith("_ok") or k.endswith("_crash")}
    ctx.notes["automaton_transitions_taken_in_mc"] = exits
    never = [k for k, v in exits.items() if v == 0 and k != "BlockHeader_crash"]
    if never or len(exits) != 14:
        raise tlc.MachineryError("parse automaton transitions never taken in MC_CSeg: %s (of %s)" % (never, exits))
    bad = tlc.model_check("MC_CSeg", "MC_CSeg_unchecked", workers=8)
    if bad["ok"] or "ParseTotal" not in bad["invariant_violated"]:
        raise tlc.MachineryError("deviation switch ChannelSlice=next_unchecked did not violate ParseTotal (vacuous model)")
    ctx.notes["switch_next_unchecked_violates"] = bad["invariant_violated"]
    if not ctx.quick:
        ctx.mc("MC_CSeg", "MC_CSeg_checked", workers=16)
    ctx.mc("MC_RawJpeg", "MC_RawJpeg", workers=8)
    badj = tlc.model_check("MC_RawJpeg", "MC_RawJpeg_unguarded", workers=8)
    if badj["ok"] or "JpegTotal" not in badj["invariant_violated"]:
        raise tlc.MachineryError("deviation switch JpegLoad=unguarded did not violate JpegTotal (vacuous model)")
    ctx.notes["switch_jpeg_unguarded_violates"] = badj["invariant_violated"]
    ctx.notes["trace_spec_cfg (deviation switch positions)"] = TRACE_CFG


def run(ctx):
    ctx.cov["rule"] = RULE
    ctx.assumptions += [
        "the documented format error is chunk_encoding.InvalidFormatError (ChunkEncoder.decode docstring); "
        "subclasses count as documented",
        "'valid data' for compressed_segmentation = WellFormed AND channels concatenated in order, all "
        "indices (padding included) inside the channel (spec/CSeg.tla interpretation I2); a lenient decoder "
        "that returns a right-shaped array for malformed bytes is allowed",
        "'valid data' for jpeg = PIL opens it as JPEG, decodes all pixels, mode L/RGB for 1/3 channels and "
        "width*height = X*Y*Z; PIL's reports are environment facts (JPEG decoding itself is not specified)",
        "'never hangs' is a 5 s wall-clock alarm per decode on executed inputs only",
    ]
    run_mc(ctx)

    items = []
    # ---- S->C: TLC-built field mutants through the real decoder -------------
    pts = ctx.export("Gen_CSeg", ctx.pick("Gen_CSeg_mutants_quick", "Gen_CSeg_mutants_full"), workers=8)
    pts = sorted((json.loads(p[1]) for p in pts), key=lambda p: json.dumps(p, sort_keys=True))
    ctx.notes["field_mutants_enumerated"] = len(pts)
    fields = {}
    for p in pts:
        cfg = p["cfg"]
        buf = cd.halves_bytes(p["buf"])
        dtype = "uint32" if cfg["wpl"] == 1 else "uint64"
        shape = [cfg["X"], cfg["Y"], cfg["Z"]]
        block = [cfg["bx"], cfg["by"], cfg["bz"]]
        case = cd.record_cseg_decode(buf, cfg["C"], shape, block, dtype)
        fld = p["f"]["f"]
        val = p["d"]["k"] if p["d"]["k"] != "abs" else str(p["d"]["n"])
        fields[fld] = fields.get(fld, 0) + 1
        items.append((case, {"codec": "compressed_segmentation", "mutation": "field:" + fld, "buf": buf,
                             "field": {"field": p["f"], "value": val, "width_steps_up": p["up"]},
                             "request": {"channels": cfg["C"], "shape_xyz": shape, "block": block,
                                         "dtype": dtype}}))
    ctx.notes["field_mutants_per_field"] = fields

    # ---- S->C: valid encodings built by TLC (mostly non-cubic blocks) --------
    vpts = ctx.export("Gen_CSeg", ctx.pick("Gen_CSeg_valid_quick", "Gen_CSeg_valid_full"), workers=8)
    vpts = sorted((json.loads(p[1]) for p in vpts), key=lambda p: json.dumps(p, sort_keys=True))
    tlc_bases = []
    for p in vpts:
        cfg = p["cfg"]
        buf = cd.halves_bytes(p["buf"])
        dtype = "uint32" if cfg["wpl"] == 1 else "uint64"
        shape = [cfg["X"], cfg["Y"], cfg["Z"]]
        block = [cfg["bx"], cfg["by"], cfg["bz"]]
        tlc_bases.append((buf, cfg["C"], shape, block, dtype))
        case = cd.record_cseg_decode(buf, cfg["C"], shape, block, dtype)
        items.append((case, {"codec": "compressed_segmentation", "mutation": "valid(TLC)", "buf": buf,
                             "request": {"channels": cfg["C"], "shape_xyz": shape, "block": block,
                                         "dtype": dtype}}))
    ctx.notes["valid_encodings_built_by_tlc"] = len(vpts)

    # ---- C->S: seeded byte strings ------------------------------------------
    n = ctx.pick(4500, 90000)
    items += gen_cseg(ctx, ctx.rng, n * 4 // 10, ctx.notes, tlc_bases)
    items += gen_raw(ctx, ctx.rng, n * 2 // 10)
    items += gen_jpeg(ctx, ctx.rng, ctx.np_rng(1), n * 4 // 10, ctx.notes)

    verdicts = ctx.judge("Trace_CSeg", [c for c, _ in items], cfg=TRACE_CFG, workers=12, chunk=6000)

    import hashlib
    exits = {}
    per_codec = {}
    outcomes = {}
    for case, meta in items:
        ctx.count()
        st, clause, design = verdicts[case["tid"]]
        design = str(design)
        key = meta["codec"] + " " + design
        exits[key] = exits.get(key, 0) + 1
        per_codec[meta["codec"]] = per_codec.get(meta["codec"], 0) + 1
        d = case["dec"]
        ok_ = meta["codec"] + " " + (d["st"] if d["st"] != "exc" else d["cls"])
        outcomes[ok_] = outcomes.get(ok_, 0) + 1
        if d["st"] != "ok" or not design.startswith("ok"):
            ctx.nontrivial(json.dumps([meta["codec"], meta["request"],
                                       hashlib.sha1(bytes(meta["buf"])).hexdigest()]))
        if clause.startswith("machinery:"):
            ctx.undecided("Trace_CSeg reported %s for %s" % (clause, detail_of(case, meta)))
            continue
        if st != "ok":
            ctx.violation(clause, sig_of(case, meta, clause, design), detail_of(case, meta))
        elif clause.startswith("design:"):
            ctx.note_drift(clause, {"predicted": design, **detail_of(case, meta)})
    ctx.notes["cases_per_codec"] = per_codec
    ctx.notes["automaton_exits_taken_by_real_buffers"] = dict(sorted(exits.items()))
    ctx.notes["observed_outcomes"] = dict(sorted(outcomes.items()))
    for case, meta in (items[0], items[len(items) // 2], items[-1]):
        ctx.sample({"codec": meta["codec"], "mutation": meta["mutation"], "request": meta["request"],
                    "bytes": len(meta["buf"]), "observed": case["dec"]["st"] + ":" + case["dec"]["cls"],
                    "verdict": verdicts[case["tid"]][1], "automaton": str(verdicts[case["tid"]][2])})


def replay(ctx, path):
    with open(path) as f:
        rp = json.load(f)
    d = rp["detail"]
    buf = bytes.fromhex(d["buf_hex"])
    rq = d["request"]
    warm = tuple((bytes.fromhex(w), tuple(sh)) for w, sh in d.get("warm", []))
    if d["codec"] == "compressed_segmentation":
        case = cd.record_cseg_decode(buf, rq["channels"], rq["shape_xyz"], rq["block"], rq["dtype"], warm=warm)
    elif d["codec"] == "raw":
        case = cd.record_raw_decode(buf, rq["channels"], rq["shape_xyz"], rq["dtype"])
    else:
        case = cd.record_jpeg_decode(buf, rq["channels"], rq["shape_xyz"])
    v = ctx.judge("Trace_CSeg", [case], cfg=TRACE_CFG)
    print("replay: observed=%s:%s %s" % (case["dec"]["st"], case["dec"]["cls"], case["dec"].get("msg", "")))
    print("replay verdict:", v[1])
    ctx.cleanup()
    return 0 if v[1][0] == "ok" else 1
