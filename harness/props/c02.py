"""C02 - compressed_segmentation output conforms to the Neuroglancer format.

M    : MC_CSeg (encoder space) - TLC runs a RELATIONAL encoder (any table
       order, optional table sharing, both placements, wider-than-minimal
       widths, either padding index) over every array of a tiny scope and
       checks IsEncodingOf(buf, arr) => WellFormed /\\ Valid /\\ CSegDecode = arr
       and that the decoder automaton reads every such buffer back: the oracle
       is not vacuous and accepts every legal encoding, not just this encoder's.
S->C : the tiny scope of arrays enumerated by TLC (Gen_CSeg, Part = arrays) is
       encoded point by point by the REAL encoder; judged like the C->S cases;
       the canonical encoding predicted by the design layer is compared with
       the real bytes (DRIFT only).
C->S : seeded random (dtype, channels, shape 1..9, block 1..8 incl. non-cubic,
       label distributions forcing every bit width, labels > 2^32 / > 2^53,
       repeated tables): real encode() and the package's own decode() are
       recorded; Trace_CSeg (TLC) evaluates oracle:EncodeRaised,
       oracle:WellFormed.<clause>, oracle:SpecDecodeEqualsInput,
       oracle:OwnDecodeEqualsInput.
"""
import json

import numpy as np

from .. import codec_driver as cd
from .. import tlc

LEVEL = "model_checking"
RULE = ("one case = one (dtype, channels, chunk shape, block size, label array) encoded by the real "
        "encoder; non-trivial when the chunk has >= 2 blocks (over all channels); distinct = distinct "
        "(dtype, channels, shape, block, sorted multiset of minimal bit widths of the blocks)")

# (lo, hi) distinct labels per block -> bit width 0, 1, 2, 4, 8, 16
CLASSES = [(1, 1), (2, 2), (3, 4), (5, 16), (17, 256), (257, 512)]
WIDTH_OF = [0, 1, 2, 4, 8, 16]


def width_for(k):
    for b in (0, 1, 2, 4, 8, 16, 32):
        if (1 << b) >= k:
            return b
    return 32


def draw_labels(rng, dtype, p, mode):
    """p distinct label values (python ints)"""
    top = (1 << 32) - 1 if dtype == "uint32" else (1 << 64) - 1
    out = set()
    while len(out) < p:
        if mode == "small":
            v = rng.randrange(0, max(p + 3, 4))
        elif mode == "u32":
            v = rng.randrange(0, 1 << 32)
        elif mode == "top":
            v = top - rng.randrange(0, 4 * p + 4)
        elif mode == "at32":
            # the 32-bit boundary itself: the largest label is exactly 2^32 (or one off)
            v = rng.choice([1 << 32, 1 << 32, (1 << 32) - 1, rng.randrange(0, 6), rng.randrange(0, 1 << 32)]) \
                if out else rng.choice([1 << 32, 1 << 32, (1 << 32) + 1])
        elif mode == "above32":
            v = (1 << 32) + rng.randrange(0, 1 << 20) * rng.choice([1, 1 << 12])
        elif mode == "above53":
            v = (1 << 53) + 1 + rng.randrange(0, 1 << 10) + (rng.randrange(0, 1 << 10) << 54)
        else:  # mixed
            v = rng.choice([rng.randrange(0, 6), rng.randrange(0, 1 << 32),
                            top - rng.randrange(0, 8), rng.randrange(0, top + 1)])
        out.add(min(v, top))
    out = list(out)
    rng.shuffle(out)
    return out


def gen_array(ctx, rng, budget):
    """Select one input (pure input selection; nothing is judged here)."""
    dtype = rng.choice(["uint32", "uint64"])
    hpl = 2 if dtype == "uint32" else 4
    k = rng.choices(range(6), weights=[2, 3, 3, 4, 3, 1])[0]
    lo, hi = CLASSES[k]
    lo_dim = 6 if k == 5 else 1         # > 256 labels need a block of > 256 voxels
    for _ in range(100000):
        if rng.random() < 0.3:
            b = rng.randint(max(lo_dim, 1), 8)
            block = [b, b, b]
        else:
            block = [rng.randint(lo_dim, 8) for _ in range(3)]
            if block[0] == block[1] == block[2]:
                continue
        if block[0] * block[1] * block[2] < lo:
            continue
        shape = [rng.randint(lo_dim, 9) for _ in range(3)]
        if min(shape[0], block[0]) * min(shape[1], block[1]) * min(shape[2], block[2]) < lo:
            continue
        C = 1 if k == 5 else rng.choice([1, 1, 2, 3])
        if C * shape[0] * shape[1] * shape[2] * hpl > max(budget, (lo + 170) * hpl):
            continue
        break
    else:
        raise tlc.MachineryError("input generator could not satisfy its constraints")
    X, Y, Z = shape
    modes = ["small", "u32", "top", "mixed"] + (["above32", "above53", "above53", "at32"] if dtype == "uint64" else [])
    mode = rng.choice(modes)
    share = rng.random() < 0.5
    arr = np.zeros((C, Z, Y, X), dtype=dtype)
    prev = None
    for c in range(C):
        for z0 in range(0, Z, block[2]):
            for y0 in range(0, Y, block[1]):
                for x0 in range(0, X, block[0]):
                    sub = arr[c, z0:z0 + block[2], y0:y0 + block[1], x0:x0 + block[0]]
                    m = sub.size
                    if share and prev is not None and len(prev) <= m and rng.random() < 0.6:
                        pal = prev
                    else:
                        p = rng.randint(lo, min(hi, m)) if m >= lo else rng.randint(1, m)
                        pal = draw_labels(rng, dtype, p, mode)
                    prev = pal
                    vals = list(pal) + [rng.choice(pal) for _ in range(m - len(pal))]
                    rng.shuffle(vals)
                    sub[...] = np.array(vals, dtype=dtype).reshape(sub.shape)
    if k <= 3 and rng.random() < 0.15:
        # structured family: periodic stripes / planes, so that different (possibly
        # differently shaped edge) blocks hold identical byte sequences
        pal = np.array(draw_labels(rng, dtype, rng.randint(2, 4), mode), dtype=dtype)
        zz, yy, xx = np.meshgrid(np.arange(Z), np.arange(Y), np.arange(X), indexing="ij")
        axis_mix = rng.choice([(1, 0, 0), (0, 1, 0), (0, 0, 1), (1, 1, 0), (1, 0, 1), (1, 1, 1)])
        period = rng.randint(1, 4)
        idx = ((axis_mix[0] * xx + axis_mix[1] * yy + axis_mix[2] * zz) // period) % len(pal)
        for c in range(C):
            arr[c] = pal[(idx + c) % len(pal)]
    return arr, block


def facts_of(arr, block):
    """Structural facts of an input (for coverage accounting and sig)."""
    C, Z, Y, X = arr.shape
    widths = []
    tables = []
    for c in range(C):
        seen = set()
        for z0 in range(0, Z, block[2]):
            for y0 in range(0, Y, block[1]):
                for x0 in range(0, X, block[0]):
                    u = np.unique(arr[c, z0:z0 + block[2], y0:y0 + block[1], x0:x0 + block[0]])
                    widths.append(width_for(len(u)))
                    t = u.tobytes()
                    tables.append(t in seen)
                    seen.add(t)
    mx = int(arr.max())
    return {"widths": widths, "repeated_tables": sum(tables),
            "above32": mx >= (1 << 32), "above53": mx > (1 << 53),
            "cubic": block[0] == block[1] == block[2],
            "partial": any(s % b for s, b in zip((X, Y, Z), block))}


def sig_of(arr, block, case, clause):
    f = facts_of(arr, block)
    C, Z, Y, X = arr.shape
    return {"clause": clause, "codec": "compressed_segmentation", "dtype": arr.dtype.name,
            "channels": C, "block_cubic": f["cubic"], "partial_blocks": f["partial"],
            "presented_as": case.get("how", "C"),
            "enc_exc": case["enc"]["cls"] if case["enc"]["st"] != "ok" else "",
            "own_decode": case["dec"]["st"] if case["dec"]["st"] != "exc" else case["dec"]["cls"]}


def detail_of(arr, block, case, origin):
    C, Z, Y, X = arr.shape
    return {"origin": origin, "dtype": arr.dtype.name, "channels": C, "shape_xyz": [X, Y, Z],
            "block": list(block),
            "array": [int(v) for v in arr.ravel()] if arr.size <= 4096 else "np_rng(32) permutation, see c02.run",
            "encode": {k: case["enc"].get(k) for k in ("st", "cls", "msg", "n")},
            "encoded_halves": case["enc"]["h"] if len(case["enc"]["h"]) <= 400 else "(omitted)",
            "own_decode": {k: case["dec"].get(k) for k in ("st", "cls", "msg", "shape", "dtype")}}


def array_from_halves(h, cfg):
    name = "uint32" if cfg["wpl"] == 1 else "uint64"
    a = np.asarray(h, dtype="<u2").view("<u4" if cfg["wpl"] == 1 else "<u8")
    return a.reshape(cfg["C"], cfg["Z"], cfg["Y"], cfg["X"]).astype(name)


def run(ctx):
    ctx.cov["rule"] = RULE
    ctx.assumptions += [
        "format reading: WellFormed = everything a format-following reader touches lies inside the file "
        "(complete value area of every block; table entries of in-chunk voxels only; whole 32-bit words); "
        "padding voxels unconstrained (spec/CSeg.tla, interpretation I1)",
        "every positive block size and chunk shape is legal input; an exception from encode() is a violation",
        "TLC 1.8 evaluates the oracle faithfully; harness/codec_driver.py only re-encodes bytes into 16-bit halves",
    ]
    # ---- M ------------------------------------------------------------------
    ctx.mc("MC_CSeg", ctx.pick("MC_CSeg_enc_quick", "MC_CSeg_enc"), workers=16)

    items = []     # (arr, block, case, origin)
    # ---- S->C: TLC-enumerated tiny scope through the real encoder ------------
    pts = ctx.export("Gen_CSeg", ctx.pick("Gen_CSeg_arrays_quick", "Gen_CSeg_arrays_full"), workers=8)
    pts = sorted((json.loads(p[1]) for p in pts), key=lambda p: json.dumps(p, sort_keys=True))
    take = ctx.pick(1500, len(pts))
    ctx.notes["scope_points_enumerated"] = len(pts)
    if take < len(pts):
        pts = ctx.rng.sample(pts, take)
    ctx.cov["exhaustive"] = take == len(pts)
    canon_same = canon_diff = canon_diff_cubic = 0
    for p in pts:
        cfg = p["cfg"]
        arr = array_from_halves(p["arr"], cfg)
        block = [cfg["bx"], cfg["by"], cfg["bz"]]
        case, raw = cd.record_cseg_encode(arr, block)
        items.append((arr, block, case, "scope"))
        if raw is not None:
            if cd.buf_halves(raw) == p["canon"]:
                canon_same += 1
            else:
                canon_diff += 1
                if canon_diff <= 3:
                    ctx.note_drift("design:CanonicalEncoding",
                                   {"cfg": cfg, "arr": p["arr"], "predicted": p["canon"],
                                    "real": cd.buf_halves(raw)})
                if block[0] == block[1] == block[2]:
                    canon_diff_cubic += 1
    ctx.notes["scope_points_encoded"] = len(pts)
    ctx.notes["canonical_encoding_agreements"] = canon_same
    ctx.notes["canonical_encoding_differences"] = canon_diff
    ctx.notes["canonical_encoding_differences_cubic_blocks"] = canon_diff_cubic

    # ---- C->S: seeded random inputs -----------------------------------------
    n = ctx.pick(1500, 26000)
    budget = ctx.pick(900, 1400)
    for _ in range(n):
        arr, block = gen_array(ctx, ctx.rng, budget)
        how = ctx.rng.choice(cd.PRESENTATIONS)
        case, _raw = cd.record_cseg_encode(arr, block, how)
        case["how"] = how
        items.append((arr, block, case, "random" if how == "C" else "random/" + how))

    # one block with > 65536 distinct labels: the only way to make the encoder
    # choose 32-bit indices (needs a block of > 65536 voxels, i.e. beyond the
    # 1..8 block sizes swept above)
    nr = ctx.np_rng(32)
    big = (nr.permutation(42 * 41 * 41).astype("uint32") * np.uint32(60013)).reshape(1, 41, 41, 42)
    case, _raw = cd.record_cseg_encode(big, [41, 41, 41])
    items.append((big, [41, 41, 41], case, "width32"))

    # ---- C->S: multi-step histories on one PrecomputedIO (one encoder object per
    # scale, several scales with DIFFERENT block sizes, several chunks of equal
    # shape; returned arrays compared after the last call) ----------------------
    nh = 0
    for _ in range(ctx.pick(40, 600)):
        rng = ctx.rng
        dtype = rng.choice(["uint32", "uint64"])
        C = rng.choice([1, 1, 2])
        nprng = np.random.default_rng(rng.randrange(1 << 30))
        scales, order = [], []
        for k in range(rng.choice([2, 2, 3])):
            cs = [rng.randint(2, 6) for _ in range(3)]
            grid = [rng.randint(1, 2) for _ in range(3)]
            size = [cs[d] * grid[d] - rng.choice([0, 0, 1]) * (cs[d] > 1) for d in range(3)]
            block = rng.choice([[8, 8, 8], [4, 4, 4], [2, 2, 2], [rng.randint(1, 5) for _ in range(3)]])
            arrs = {}
            for x in range(0, size[0], cs[0]):
                for y in range(0, size[1], cs[1]):
                    for z in range(0, size[2], cs[2]):
                        cc = (x, min(x + cs[0], size[0]), y, min(y + cs[1], size[1]), z, min(z + cs[2], size[2]))
                        shp = (C, cc[5] - cc[4], cc[3] - cc[2], cc[1] - cc[0])
                        hi = rng.choice([2, 4, 300, 2 ** 31])
                        arrs[cc] = nprng.integers(0, hi, size=shp).astype(dtype)
                        order.append(("s%d" % k, cc))
            scales.append(("s%d" % k, size, cs, block, arrs))
        rng.shuffle(order)
        for arr, block, case in cd.record_cseg_dataset(scales, dtype, C, order):
            items.append((arr, block, case, "dataset-history"))
            nh += 1
    ctx.notes["dataset_history_chunks"] = nh

    cases = [c for _, _, c, _ in items]
    verdicts = ctx.judge("Trace_CSeg", cases, workers=12, chunk=4000)

    hist = {}
    cover = {"non_cubic": 0, "partial_blocks": 0, "above32": 0, "above53": 0,
             "repeated_tables": 0, "multi_channel": 0, "uint64": 0}
    for arr, block, case, origin in items:
        ctx.count()
        f = facts_of(arr, block)
        for w in f["widths"]:
            hist[w] = hist.get(w, 0) + 1
        cover["non_cubic"] += not f["cubic"]
        cover["partial_blocks"] += f["partial"]
        cover["above32"] += f["above32"]
        cover["above53"] += f["above53"]
        cover["repeated_tables"] += f["repeated_tables"] > 0
        cover["multi_channel"] += arr.shape[0] > 1
        cover["uint64"] += arr.dtype.itemsize == 8
        if len(f["widths"]) >= 2:
            C, Z, Y, X = arr.shape
            ctx.nontrivial(json.dumps([arr.dtype.name, C, [X, Y, Z], block, sorted(f["widths"])]))
        st, clause, _ = verdicts[case["tid"]]
        if clause.startswith("machinery:"):
            ctx.undecided("Trace_CSeg reported %s for %s" % (clause, detail_of(arr, block, case, origin)))
            continue
        if st != "ok":
            ctx.violation(clause, sig_of(arr, block, case, clause), detail_of(arr, block, case, origin))
    ctx.notes["blocks_per_min_bit_width"] = {str(k): v for k, v in sorted(hist.items())}
    ctx.notes["input_classes"] = cover
    for arr, block, case, origin in items[-2:] + items[:1]:
        C, Z, Y, X = arr.shape
        ctx.sample({"origin": origin, "dtype": arr.dtype.name, "channels": C, "shape_xyz": [X, Y, Z],
                    "block": block, "encoded_bytes": case["enc"]["n"],
                    "verdict": verdicts[case["tid"]][1]})


def replay(ctx, path):
    with open(path) as f:
        rp = json.load(f)
    d = rp["detail"]
    X, Y, Z = d["shape_xyz"]
    arr = np.array(d["array"], dtype=d["dtype"]).reshape(d["channels"], Z, Y, X)
    how = d["origin"].split("/", 1)[1] if d.get("origin", "").startswith("random/") else "C"
    case, _ = cd.record_cseg_encode(arr, d["block"], how)
    v = ctx.judge("Trace_CSeg", [case])
    print("replay: encode=%s own_decode=%s" % (case["enc"]["st"] + ":" + case["enc"]["cls"],
                                               case["dec"]["st"] + ":" + case["dec"]["cls"]))
    print("replay verdict:", v[1])
    ctx.cleanup()
    return 0 if v[1][0] == "ok" else 1
