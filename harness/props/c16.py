"""C16 - generated metadata and transform place the image correctly in space.

M    : MC_Affine - the centre/corner convention identity holds for the
       design formulas (direction cosines = columns / voxel size, translation
       minus half a voxel) on EVERY voxel, for the 48 signed permutations x
       sizes <= 3 x anisotropic dyadic voxel sizes (thorough: + rational
       rotations and a Pythagorean shear); "plus"/"none" half-shift must FAIL.
C->S : NIfTI files with exactly known rational affines (signed permutations,
       rational rotations, Pythagorean shears, anisotropic dyadic voxel sizes,
       dyadic translations; 3-D / 4-D / RGB; all stored dtypes; header scaling;
       sharding option strings) through the REAL volume-to-precomputed
       --generate-info and nibabel_image_to_info; floats re-encoded as exact
       rationals; Trace_Affine judges size, channels, data type, sharding
       record, resolution = 10^6 |column|, the placement identity at the
       corners and centre, and the round trip of the compact URL form.
       Further case classes (each judged by the same oracle clauses):
       * header voxel size != affine: files whose pixdim disagrees with the
         column norms of the sform (sform edited without touching pixdim; qform
         absent or an axis-aligned scanner qform) - the file's affine is what
         nibabel reports as img.affine, the resolution x transform composition
         must reproduce IT;
       * one loaded image object used for several generations (every info
         case): nibabel_image_to_info, again with the other sharding choice,
         then store_nibabel_image_to_fullres_info - every result is judged;
       * fine voxels: voxel sizes that are not a whole number of nanometres -
         electron-microscopy scale (dyadic sizes from 0.12 nm up, exact in
         NIfTI-1 float32 and NIfTI-2 headers; 4.3 / 35.5 / 0.8 / 2.4 nm as
         binary64 in NIfTI-2, and the binary32 numbers nearest to them times
         powers of two in NIfTI-1 for axis-aligned affines) and thirds /
         sevenths of a millimetre (NIfTI-2); axis-aligned, rotated and sheared.
         The plan's affine is expressed in its own small length unit (a pure
         change of unit of oracle and observation alike) so that the exact
         rationals stay small;
       * scaled label volumes: uint32 / uint64 files holding values above 2^24
         whose header carries a slope only / an intercept only / both,
         described with --ignore-scaling through the real command line
         main(argv) and the API: the values the conversion will write are the
         stored ones, the stated type must hold them (float32 cannot).  The
         exit status is not judged (the statement does not mention it);
       * declared spatial unit: files whose header declares micron, meter, mm
         or no unit (xyzt_units).  The package reads every affine as
         millimetres (documented in nibabel_image_to_info); weaker reading
         adopted: for a file declaring another unit BOTH conventions are
         accepted - everything as millimetres or everything in the declared
         unit - but resolution, transform columns and translation must follow
         the SAME convention (Trace_Affine judges the clause chain under each
         admissible unit);
       * kind "history": several generations in ONE process from ONE file path
         through the tool's main and volume_reader.volume_file_to_info - the
         file replaced between the calls (other file / corrected header),
         ignore_scaling alternating on a header-scaled integer file; every
         call is judged against the file as it is on disk at that time;
         and several FILES in one process through the function API
         (volume_file_to_info, nibabel_image_to_info,
         store_nibabel_image_to_fullres_info) relying on the functions' DEFAULT
         options argument, or passing ONE caller-owned options dictionary to
         every call, with ignore_scaling True first then False (and the
         reverse): every call is judged on its own arguments;
       * kind "rerun": --generate-info twice on one destination with two
         different volumes (other file, or same data with a corrected header),
         the destination holding the first pair / only transform.json / only
         info_fullres.json before the second run: a run that reports success
         leaves a pair describing the volume just given; a refusing run on a
         consistent pair leaves a consistent pair (earlier or new volume).
"""
import itertools
import json
import random
from fractions import Fraction as Fr

import numpy as np

from .. import affine_driver as ad
from .. import tlc
from .. import vol_driver as vd
from .c01 import data_from_json, data_to_json

LEVEL = "model_checking"
RULE = ("one evaluation = one file through --generate-info and nibabel_image_to_info (or one matrix "
        "through the compact formatter) judged by TLC; an affine is non-trivial when it is not a "
        "positive diagonal (permutation, flip, rotation or shear) or has anisotropic voxels; "
        "distinct = distinct (direction matrix, voxel sizes, translation, shape, layout, dtype, "
        "scaling, sharding, header pixdim/qform) tuples / distinct matrices; every info evaluation "
        "judges 4 generations (tool, API, the same image object again with the other sharding choice, "
        "the storing function on that object); a rerun evaluation = two tool runs on one destination "
        "with two volumes of different affines, distinct = distinct (volume 1, volume 2, destination "
        "state before the second run) tuples; a history evaluation = 2-3 generations in one process "
        "from one file path (file replaced / ignore_scaling alternated between them), distinct = "
        "distinct step lists")


def signed_perms():
    out = []
    for p in itertools.permutations(range(3)):
        for s in itertools.product((1, -1), repeat=3):
            out.append([[Fr(s[k]) if r == p[k] else Fr(0) for k in range(3)] for r in range(3)])
    return out


def mat(rows, den):
    return [[Fr(v, den) for v in row] for row in rows]


ROTATIONS = [mat([[1, 2, 2], [2, 1, -2], [2, -2, 1]], 3),
             mat([[2, 3, 6], [3, -6, 2], [6, 2, -3]], 7),
             mat([[1, 4, 8], [4, 7, -4], [8, -4, 1]], 9),
             mat([[2, 6, 9], [6, 7, -6], [9, -6, 2]], 11),
             mat([[3, -4, 0], [4, 3, 0], [0, 0, 5]], 5),
             mat([[13, 0, 0], [0, 5, -12], [0, 12, 5]], 13)]
# unit vectors with rational entries (Pythagorean): columns of shears
UNITS = [[Fr(1), Fr(0), Fr(0)], [Fr(0), Fr(1), Fr(0)], [Fr(0), Fr(0), Fr(1)],
         [Fr(4, 5), Fr(3, 5), Fr(0)], [Fr(3, 5), Fr(0), Fr(4, 5)], [Fr(0), Fr(5, 13), Fr(12, 13)],
         [Fr(1, 3), Fr(2, 3), Fr(2, 3)], [Fr(2, 7), Fr(3, 7), Fr(6, 7)], [Fr(-4, 5), Fr(3, 5), Fr(0)],
         [Fr(12, 13), Fr(-5, 13), Fr(0)], [Fr(2, 3), Fr(-2, 3), Fr(1, 3)]]
VS = [Fr(1, 8), Fr(1, 4), Fr(1, 2), Fr(3, 4), Fr(1), Fr(5, 4), Fr(3, 2), Fr(2), Fr(3)]
DTYPES = ["uint8", "int8", "int16", "uint16", "int32", "uint32", "int64", "uint64", "float32", "float64"]


def matmul(P, Q):
    return [[sum(P[r][j] * Q[j][k] for j in range(3)) for k in range(3)] for r in range(3)]


def det(M):
    return (M[0][0] * (M[1][1] * M[2][2] - M[1][2] * M[2][1])
            - M[0][1] * (M[1][0] * M[2][2] - M[1][2] * M[2][0])
            + M[0][2] * (M[1][0] * M[2][1] - M[1][1] * M[2][0]))


def choose_direction(rng, kind, sp):
    if kind == "perm":
        return rng.choice(sp)
    if kind == "rot":
        return matmul(rng.choice(sp), matmul(rng.choice(ROTATIONS), rng.choice(sp)))
    while True:        # shear: three rational unit columns, invertible, not orthogonal in general
        cols = [rng.choice(UNITS) for _ in range(3)]
        sg = [rng.choice((1, -1)) for _ in range(3)]
        D = [[cols[k][r] * sg[k] for k in range(3)] for r in range(3)]
        if det(D) != 0:
            return matmul(rng.choice(sp), D)


def small_denominators(D, vs, a, bound=1024):
    """input selection only: keep affines whose exact translation (in mm) has a
    denominator <= bound, so that the rational re-encoding of the tool's floats
    (simplest rational within 1e-9) is unambiguous"""
    for r in range(3):
        t = a[r] - sum(D[r][k] * vs[k] / 2 for k in range(3))
        if t.denominator > bound:
            return False
    return True


def make_plan(rng, nrng, kind, sp, D=None, vs_pool=None, a_pool=None, lenunit=None, force_nifti=None):
    """vs_pool / a_pool: other voxel sizes / translation components; lenunit: the
    length unit (mm) in which D, vs, a are expressed (fine-voxel plans)"""
    fixed_D = D
    while True:
        D = fixed_D if fixed_D is not None else choose_direction(rng, kind, sp)
        vs = [rng.choice(vs_pool or VS) for _ in range(3)]
        if rng.random() < 0.15:
            vs = [vs[0]] * 3
        a = [rng.choice(a_pool) for _ in range(3)] if a_pool else \
            [Fr(rng.randint(-256, 256), 8) for _ in range(3)]
        if small_denominators(D, vs, a):
            break
    A = [[D[r][k] * vs[k] for k in range(3)] for r in range(3)]
    lu = lenunit or Fr(1)
    exact32 = all(ad.float32_exact(A[r][k] * lu) for r in range(3) for k in range(3)) and \
        all(ad.float32_exact(x * lu) for x in a)
    p = {"kind": kind, "D": D, "vs": vs, "a": a, "A": A,
         "nifti": (1 if rng.random() < 0.8 else 2) if exact32 else 2}
    if lenunit is not None:
        p["lenunit"] = lenunit
    if force_nifti == 2 or (force_nifti == 1 and exact32):
        p["nifti"] = force_nifti
    lay = rng.choice(["3d", "3d", "3d", "4d", "4d", "rgb"])
    size = [rng.randint(1, 6) for _ in range(3)]
    if rng.random() < 0.7:
        size = [max(2, s) for s in size]
    p["layout"] = lay
    if lay == "rgb":
        data = np.zeros(size, dtype=vd.RGB_DTYPE)
        for n in "RGB":
            data[n] = nrng.integers(0, 256, size=size, dtype=np.uint8)
        p["dtype"] = "rgb"
    else:
        shape = size + ([rng.randint(1, 4)] if lay == "4d" else [])
        dt = np.dtype(rng.choice(DTYPES))
        p["dtype"] = dt.name
        if dt.kind in "iu":
            ii = np.iinfo(dt)
            reach = rng.choice([100, 255, 1000, 60000, 2 ** 20])
            lo = max(int(ii.min), -reach // 2 if rng.random() < 0.5 else 0)
            data = nrng.integers(lo, min(int(ii.max), reach) + 1, size=shape).astype(dt)
        else:
            iu = rng.choice([1, 2, 4])
            data = (nrng.integers(-200 * iu, 4000 * iu, size=shape) / iu).astype(dt)
        if rng.random() < 0.3:
            p["slope"] = rng.choice([0.5, 2.0, 0.25, 3.0, 1.0, 1.0])
            p["inter"] = rng.choice([0.0, 1.0, -2.5, 10.0, -1024.0, -1.0])
            p["ignore_scaling"] = rng.random() < 0.4
    if rng.random() < 0.3:
        p["sharding"] = [rng.randint(0, 5), rng.randint(0, 5), rng.randint(0, 4),
                         rng.choice(["gzip", "raw"])]
    return p, data


def make_zoom_plan(rng, nrng, kind, sp):
    """a file whose header voxel size (pixdim) disagrees with the column norms
    of its sform affine on at least one axis"""
    p, data = make_plan(rng, nrng, kind, sp)
    while True:
        style = rng.random()
        if style < 0.25:
            pix = [Fr(1)] * 3                      # pixdim never filled in
        elif style < 0.5:
            pix = list(p["vs"])                    # one axis stale
            pix[rng.randrange(3)] = rng.choice(VS)
        else:
            pix = [rng.choice(VS) for _ in range(3)]
        if pix != list(p["vs"]):
            break
    p["pixdim"] = pix
    p["qform"] = rng.choice(["unknown", "scanner"])
    return p, data


# fine voxels: sizes that are NOT a whole number of nanometres
F32 = lambda x: Fr(float(np.float32(x)))                              # noqa: E731
POW2 = [Fr(1, 2), Fr(1), Fr(2), Fr(4)]
FINE = {
    # dyadic EM scale, exact in binary32 and binary64: 2^-20 mm = 0.95 nm ... 2^-14 mm = 61 nm
    "dyadic_em": dict(lenunit=[Fr(1, 2 ** 20), Fr(1, 2 ** 18), Fr(1, 2 ** 16), Fr(1, 2 ** 14)]),
    # decimal EM scale in units of 10 nm: 4.3 nm, 35.5 nm, 0.8 nm, 2.4 nm, 12.5 nm (binary64 header)
    "decimal_em": dict(lenunit=[Fr(1, 10 ** 5)], force_nifti=2,
                       vs_pool=[Fr(43, 100), Fr(71, 20), Fr(2, 25), Fr(6, 25), Fr(5, 4)]),
    # the binary32 numbers nearest to 4.3 nm, 35.5 nm, 0.8 nm as the length unit, times powers of
    # two: exact in a NIfTI-1 (float32) header for axis-aligned affines
    "float32_em": dict(lenunit=[F32(4.3e-6), F32(35.5e-6), F32(8e-7)], force_nifti=1, vs_pool=POW2,
                       a_pool=[Fr(0), Fr(1), Fr(-2), Fr(8), Fr(-16), Fr(1, 2), Fr(32)]),
    # thirds and sevenths of a millimetre (binary64 header)
    "thirds": dict(vs_pool=[Fr(1, 3), Fr(2, 3), Fr(4, 3), Fr(1, 6), Fr(5, 3)], force_nifti=2),
    "sevenths": dict(vs_pool=[Fr(1, 7), Fr(2, 7), Fr(3, 7), Fr(5, 7), Fr(8, 7)], force_nifti=2),
}


def make_fine_plan(rng, nrng, kind, sp, sub):
    spec = dict(FINE[sub])
    lus = spec.pop("lenunit", [Fr(1)])
    if sub == "float32_em":
        kind = "perm"               # other directions are not exact in float32
    p, data = make_plan(rng, nrng, kind, sp, lenunit=rng.choice(lus), **spec)
    p["fine"] = sub
    return p, data


# header scalings for label volumes: slope only / intercept only / both
LABEL_SCALINGS = [(2.0, 0.0), (0.5, 0.0), (3.0, 0.0), (1.0, 1.0), (1.0, -1024.0), (1.0, 10.0),
                  (2.0, 1.0), (0.5, -2.5), (0.25, 1.0)]


def make_label_plan(rng, nrng, kind, sp, scaling):
    """uint32 / uint64 label volume holding values above 2^24 (float32 cannot
    hold them) in a file whose header carries a scaling, described with
    --ignore-scaling: the values the conversion will write are the stored ones"""
    while True:
        p, data = make_plan(rng, nrng, kind, sp)
        if p["layout"] in ("3d", "4d"):
            break
    dt = np.dtype(rng.choice(["uint32", "uint64"]))
    lab = nrng.integers(0, rng.choice([2 ** 10, 2 ** 20, 2 ** 26, 2 ** 31]), size=data.shape, dtype=np.int64)
    lab.flat[rng.randrange(lab.size)] = rng.randint(2 ** 24 + 1, 2 ** 31 - 1)
    p["dtype"] = dt.name
    p["slope"], p["inter"] = scaling
    p["ignore_scaling"] = True
    p["labels"] = True
    return p, lab.astype(dt)


XYZT_UNITS = ["micron", "meter", "mm", "unknown"]


def make_unit_plan(rng, nrng, kind, sp, unit):
    """a file that declares its spatial unit in the header (xyzt_units)"""
    p, data = make_plan(rng, nrng, kind, sp)
    p["xyzt"] = unit
    return p, data


def make_history(rng, nrng, sp, style):
    """step list for affine_driver.run_samepath_case"""
    via = lambda: rng.choice(["main", "api"])                     # noqa: E731
    if style == "replaced":
        variant, p1, d1, p2, d2 = make_rerun_plans(rng, nrng, sp)
        steps = [{"plan": p1, "data": d1, "ignore": bool(p1.get("ignore_scaling")), "via": via()},
                 {"plan": p2, "data": d2, "ignore": bool(p2.get("ignore_scaling")), "via": via()}]
        r = rng.random()
        if r < 0.3:            # the replaced file read once more
            steps.append({"ignore": steps[1]["ignore"], "via": via()})
        elif r < 0.5:          # and the first file put back
            steps.append(dict(steps[0], via=via()))
        return variant, steps
    while True:                # header-scaled integer file, ignore_scaling alternating
        p, data = make_plan(rng, nrng, rng.choice(["perm", "rot", "shear"]), sp)
        if p.get("slope") is not None and (p["slope"], p["inter"]) != (1.0, 0.0) \
                and p["dtype"] != "rgb" and np.dtype(p["dtype"]).kind in "iu":
            break
    first = rng.random() < 0.7
    steps = [{"plan": p, "data": data, "ignore": first, "via": via()},
             {"ignore": not first, "via": via()}]
    if rng.random() < 0.5:
        steps.append({"ignore": first, "via": via()})
    return "scaling_toggle", steps


def scaled_int_plan(rng, nrng, sp):
    while True:                # integer storage with header scaling that matters
        p, data = make_plan(rng, nrng, rng.choice(["perm", "rot", "shear"]), sp)
        if p.get("slope") is not None and (p["slope"], p["inter"]) != (1.0, 0.0) \
                and p["dtype"] != "rgb" and np.dtype(p["dtype"]).kind in "iu":
            if np.dtype(p["dtype"]).kind == "i" and rng.random() < 0.6:
                continue               # mostly unsigned storage: the types the info can name as they are
            if rng.random() < 0.7:     # scalings whose results the stored type often cannot hold
                p["slope"], p["inter"] = rng.choice([(0.5, 0.0), (0.25, 1.0), (2.0, -2.5), (1.0, -1024.0),
                                                     (3.0, -1.0), (0.5, -2.5)])
            return p, data


def make_multifile_history(rng, nrng, sp, pattern):
    """several files, one process, function API; the ignore_scaling argument
    differs between the calls (pattern: which value comes first)"""
    n = rng.choice([2, 3, 3, 4])
    if pattern == "true_first":
        flags = [True] + [rng.random() < 0.2 for _ in range(n - 1)]
        flags[rng.randrange(1, n)] = False
    elif pattern == "false_first":
        flags = [False] + [rng.random() < 0.7 for _ in range(n - 1)]
        flags[rng.randrange(1, n)] = True
    else:
        flags = [rng.random() < 0.5 for _ in range(n)]
    steps = []
    for k in range(n):
        if rng.random() < 0.75:
            p, data = scaled_int_plan(rng, nrng, sp)
        else:
            p, data = make_plan(rng, nrng, rng.choice(["perm", "rot", "shear"]), sp)
        steps.append({"plan": p, "data": data, "ignore": flags[k],
                      "via": rng.choice(["file_to_info", "file_to_info", "image_to_info", "store"])})
    return steps


def history_json(steps):
    out = []
    for st in steps:
        q = {"ignore": st["ignore"], "via": st["via"]}
        if st.get("plan") is not None:
            q["plan"] = plan_json(st["plan"])
            q["data"] = data_to_json(st["data"])
        out.append(q)
    return out


def history_from_json(js):
    out = []
    for q in js:
        st = {"ignore": q["ignore"], "via": q["via"]}
        if "plan" in q:
            st["plan"] = plan_from_json(q["plan"])
            st["data"] = data_from_json(dict(st["plan"], in_dtype=st["plan"]["dtype"]), q["data"])
        out.append(st)
    return out


GEOMETRY_KEYS = ("kind", "D", "vs", "a", "A", "nifti")


def make_rerun_plans(rng, nrng, sp):
    """two volumes with different affines for one destination: an unrelated
    file, or the same data with a corrected header"""
    kinds = ["perm", "rot", "shear"]
    p1, d1 = make_plan(rng, nrng, rng.choice(kinds), sp)
    while True:
        p2, d2 = make_plan(rng, nrng, rng.choice(kinds), sp)
        if (p2["A"], p2["a"]) != (p1["A"], p1["a"]):
            break
    variant = "other_file"
    if rng.random() < 0.5:
        variant = "corrected_header"
        q = dict(p1)
        for k in GEOMETRY_KEYS:
            q[k] = p2[k]
        p2, d2 = q, d1
    return variant, p1, d1, p2, d2


def plan_json(p):
    q = dict(p)
    for k in ("D", "A"):
        q[k] = [[str(x) for x in row] for row in p[k]]
    for k in ("vs", "a", "pixdim"):
        if k in p:
            q[k] = [str(x) for x in p[k]]
    if "lenunit" in p:
        q["lenunit"] = str(p["lenunit"])
    return q


def plan_from_json(q):
    p = dict(q)
    for k in ("D", "A"):
        p[k] = [[Fr(x) for x in row] for row in q[k]]
    for k in ("vs", "a", "pixdim"):
        if k in q:
            p[k] = [Fr(x) for x in q[k]]
    if "lenunit" in q:
        p["lenunit"] = Fr(q["lenunit"])
    return p


def is_nontrivial(p):
    D = p["D"]
    diag_pos = all((D[r][k] == (1 if r == k else 0)) for r in range(3) for k in range(3))
    return (not diag_pos) or len(set(p["vs"])) > 1


def sig_of(p, res, clause, case):
    srcs = [o["src"] for o in case["obs"]]
    return {"tool": "volume-to-precomputed --generate-info / nibabel_image_to_info", "clause": clause,
            "affine_kind": p["kind"], "layout": p["layout"], "dtype": p["dtype"],
            "nifti_version": p["nifti"], "scaled": p.get("slope") is not None,
            "ignore_scaling": bool(p.get("ignore_scaling")), "sharding": bool(p.get("sharding")),
            "pixdim_disagrees": bool(p.get("pixdim")), "qform": p.get("qform", "same"),
            "declared_unit": p.get("xyzt", "default"), "labels_above_2p24": bool(p.get("labels")), "fine_voxels": p.get("fine", ""),
            "exc": res.get("exc", ""), "where": res.get("where", ""), "srcs": srcs,
            "nonrat": sorted({n for o in case["obs"] for n in o.get("nonrat", [])})}


SPECIAL = [0.0, -0.0, 1.0, -1.0, 0.5, -0.25, 1e15, 1e16, -1e16, 123456.0, 2.0 ** 53, 2.0 ** 53 + 2,
           2.0 ** 63, 1e22, 1e23, 1e-5, 1e-7, 5e-324, 1.7976931348623157e308, 0.1, 1 / 3, -250000.0,
           1e6 + 0.5, 999999.9999999999, 4503599627370497.0, 0.30000000000000004, 3.0, 100.0]


def compact_matrices(ctx, transforms):
    rng = ctx.rng
    mats = [t for t in transforms if t is not None]
    n = ctx.pick(120, 1500)
    for _ in range(n):
        M = [[rng.choice(SPECIAL) if rng.random() < 0.7 else
              (rng.choice([1, -1]) * rng.random() * 10 ** rng.randint(-8, 12)) for _ in range(4)]
             for _ in range(4)]
        if rng.random() < 0.4:
            M[3] = [0.0, 0.0, 0.0, 1.0]
        if rng.random() < 0.2:
            M = [[float(round(x)) if abs(x) < 1e15 else x for x in row] for row in M]
        mats.append(M)
    return mats


def run(ctx):
    ctx.cov["rule"] = RULE
    ctx.assumptions += [
        "affines are built from rational unit columns x dyadic voxel sizes and dyadic translations, so "
        "the exact values of resolution, direction cosines and translation are rationals of small "
        "denominator; floats printed by the tool are re-encoded as the simplest rational within 1e-9 "
        "relative distance (absolute floor: 1e-9 of the smallest voxel size) and judged exactly",
        "NIfTI-1 stores the sform in float32: NIfTI-1 files are used only for affines that float32 "
        "represents exactly, NIfTI-2 (float64 sform) otherwise; 'the file's affine' is the sform, i.e. "
        "what nibabel reports as img.affine (the harness verifies this on the written file for the "
        "pixdim and rerun classes); 'the voxel size' is the voxel size of that affine (its column "
        "norms), also when the header's pixdim says otherwise",
        "'the info generated from a volume file' covers every generation, also a second or third one "
        "from an image object that was already used (only the sharding option is varied between "
        "them); that the image object itself is left unchanged is NOT demanded",
        "fine-voxel plans give A, a in a small length unit u (2^-20..2^-14 mm, 10 nm, the binary32 number "
        "nearest to 4.3e-6 / 35.5e-6 / 8e-7 mm, or 1 mm); the file holds the binary32/64 numbers nearest "
        "to A*u (exactly A*u for dyadic u and for the NIfTI-1 plans, verified on the written file); the "
        "printed nanometre values are divided by u (exactly) before the usual re-encoding; decimal sizes "
        "such as 4.3 nm have no exact binary32 form that fits the 32-bit oracle for oblique affines, "
        "these use NIfTI-2",
        "declared spatial unit (statement silent, weaker reading): a file that declares micron or meter "
        "may be read entirely as millimetres (what the package documents) or entirely in its declared "
        "unit; resolution, direction columns and translation must agree on ONE of the two; files "
        "declaring mm or nothing are read as millimetres",
        "multi-file histories: a call is judged on the file and the ignore_scaling argument IT was given, "
        "whatever earlier calls in the process were given; an options dictionary is the caller's: "
        "nothing is demanded about its content after a call; the first default-options call of each "
        "entry point in the process is arranged to pass ignore_scaling=True (ordering of inputs only)",
        "same-path histories: every generation in a process is judged against the file found at that "
        "path at the time of the call (content, header scaling mode of THAT call); nothing is demanded "
        "of files or image objects after the call",
        "reruns on one destination (statement silent, weaker reading): a run that reports success "
        "(no exception, exit 0 or 4) must leave info_fullres.json + transform.json describing the "
        "volume just given; a run that refuses on a destination holding a consistent pair must leave "
        "a pair describing the earlier or the new volume; a refusing run on a destination that held "
        "only one of the two files is not judged",
        "'a data type able to hold its values' is judged on the actual value range of the image "
        "(after header scaling unless --ignore-scaling); images hold float32-exact values",
        "generated lengths of 131072 case units (131 mm) or more and matrix entries of 1024 or more do "
        "not fit the 32-bit fixed point: they are reported to TLC by name; Affine!WithinReach (checked "
        "by TLC on every case) shows that no true quantity of the case is that large, so such an entry "
        "fails the resolution / placement clause; the undecidable remainder (thin axis and large matrix "
        "entries) is a machinery failure, never a verdict",
        "the placement identity is evaluated at the 8 corner voxels and the centre voxel (MC_Affine "
        "shows this determines every voxel when all extents are >= 2)",
        "compact form: parsing = JSON after replacing '_' by ','; matrices are compared as exact "
        "binary values, the sign of zero ignored",
    ]
    ctx.mc("MC_Affine", ctx.pick("MC_Affine_quick", "MC_Affine"), workers=16)
    sw = {}
    for dev in ("MC_Affine_plus", "MC_Affine_none"):
        bad = tlc.model_check("MC_Affine", dev, workers=4)
        if bad["ok"]:
            raise tlc.MachineryError("switch %s did not violate ConventionIdentity (vacuous oracle)" % dev)
        sw[dev] = bad["invariant_violated"]
    ctx.notes["switch_halfshift_violates"] = sw

    rng, nrng = ctx.rng, ctx.np_rng(1)
    sp = signed_perms()
    work = ctx.scratch("verif_affine_")
    plans = []
    for D in sp:                         # all 48 signed permutations, every run
        for _ in range(ctx.pick(2, 20)):
            plans.append(make_plan(rng, nrng, "perm", sp, D=D))
    for kind, n in (("rot", ctx.pick(110, 2500)), ("shear", ctx.pick(110, 2500))):
        for _ in range(n):
            plans.append(make_plan(rng, nrng, kind, sp))
    # further case classes draw from their own generators so that the cases
    # above stay the same for a given VERIF_SEED
    rng2 = random.Random(ctx.seed * 1000003 + 16 + 7919)
    nrng2 = ctx.np_rng(2)
    n_first = len(plans)
    for k in range(ctx.pick(36, 900)):
        plans.append(make_zoom_plan(rng2, nrng2, ("perm", "rot", "shear")[k % 3], sp))
    reruns = []
    for k in range(ctx.pick(24, 600)):
        reruns.append((ad.PRE_STATES[k % 3],) + make_rerun_plans(rng2, nrng2, sp))
    rng3 = random.Random(ctx.seed * 1000003 + 16 + 2 * 7919)
    nrng3 = ctx.np_rng(3)
    for k in range(ctx.pick(32, 800)):
        plans.append(make_unit_plan(rng3, nrng3, ("perm", "rot", "shear")[k % 3], sp, XYZT_UNITS[k % 4]))
    rng4 = random.Random(ctx.seed * 1000003 + 16 + 3 * 7919)
    nrng4 = ctx.np_rng(4)
    subs = sorted(FINE)
    for k in range(ctx.pick(40, 1000)):
        plans.append(make_fine_plan(rng4, nrng4, ("perm", "rot", "shear")[(k // len(subs)) % 3], sp,
                                    subs[k % len(subs)]))
    rng6 = random.Random(ctx.seed * 1000003 + 16 + 5 * 7919)
    nrng6 = ctx.np_rng(6)
    for k in range(ctx.pick(27, 630)):
        plans.append(make_label_plan(rng6, nrng6, ("perm", "rot", "shear")[(k // 9) % 3], sp,
                                     LABEL_SCALINGS[k % 9]))
    histories = [make_history(rng3, nrng3, sp, ("replaced", "scaling_toggle")[k % 2])
                 for k in range(ctx.pick(24, 600))]
    rng5 = random.Random(ctx.seed * 1000003 + 16 + 4 * 7919)
    nrng5 = ctx.np_rng(5)
    # (an opening history makes the first default-options call of every entry point pass
    # ignore_scaling=True - ordering of inputs only: a default argument object lives as long
    # as the process)
    multis = [(("default", "shared")[k % 2],
               ("true_first", "true_first", "false_first", "false_first", "mixed", "mixed")[k % 6])
              for k in range(ctx.pick(24, 600))]
    multis = [(mode, pat, make_multifile_history(rng5, nrng5, sp, pat)) for (mode, pat) in multis]
    opening = []
    for via in ad.ENTRY_POINTS:         # each entry point's first default-options call: ignore_scaling=True
        p0, d0 = scaled_int_plan(rng5, nrng5, sp)
        opening.append({"plan": p0, "data": d0, "ignore": True, "via": via})
    multis.insert(0, ("default", "opening_all_true", opening))
    done = []
    transforms = []
    for p, data in plans:
        case, res, tr = ad.run_info_case(work, p, data)
        done.append((p, res, case, data))
        transforms.append(tr)
    transforms = transforms[:n_first]
    rdone = []
    for (pre, variant, p1, d1, p2, d2) in reruns:
        case, results = ad.run_rerun_case(work, p1, d1, p2, d2, pre)
        rdone.append((pre, variant, p1, d1, p2, d2, case, results))
    hdone = []
    for (style, steps) in histories:
        case, results = ad.run_samepath_case(work, steps)
        hdone.append((style, steps, case, results))
    for (mode, pat, steps) in multis:
        first_default = dict(ad.FIRST_DEFAULT_CALL)
        case, results = ad.run_multifile_case(work, steps, mode)
        hdone.append(("multifile/%s/%s" % (mode, pat), steps, case, results, mode, first_default))
    cmats = compact_matrices(ctx, transforms[::max(1, len(transforms) // ctx.pick(60, 600))])
    cdone = [(M,) + ad.compact_case(M) for M in cmats]
    cases = [c for (_, _, c, _) in done] + [c for (_, c, _, _) in cdone] + [r[6] for r in rdone] \
        + [h[2] for h in hdone]
    verdicts = ctx.judge("Trace_Affine", cases, workers=12, chunk=3000)
    classes = {}
    # cases TLC could not decide in 32-bit fixed point: never a verdict.  They end the run as a
    # machinery failure only if no decidable case of the same run violates the oracle (a wrong
    # transform typically produces both kinds)
    undecided = [tid for tid, (st, clause, _) in verdicts.items() if st != "ok" and clause.startswith("machinery:")]
    for tid in undecided:
        verdicts[tid] = ("ok", "ok", 0)
    ctx.notes["undecidable_cases"] = len(undecided)
    for (p, res, case, data) in done:
        ctx.count()
        if is_nontrivial(p):
            ctx.nontrivial(json.dumps([plan_json(p)[k] for k in ("D", "vs", "a")]
                                      + [case["shape"], p["layout"], p["dtype"], p.get("slope"),
                                         p.get("ignore_scaling"), p.get("sharding")]
                                      + ([plan_json(p)["pixdim"], p["qform"]] if p.get("pixdim") else [])
                                      + ([p["xyzt"]] if p.get("xyzt") else [])
                                      + ([str(p["lenunit"]), p["fine"]] if p.get("fine") else [])))
        st, clause, _ = verdicts[case["tid"]]
        if st != "ok":
            sg = sig_of(p, res, clause, case)
            ck = "%s kind=%s layout=%s exc=%s" % (clause, p["kind"], p["layout"], sg["exc"])
            classes[ck] = classes.get(ck, 0) + 1
            ctx.violation(clause, sg, {"plan": plan_json(p), "run": res, "case": case,
                                         "data": data_to_json(data)})
    for (M, case, res, text) in cdone:
        ctx.count()
        ctx.nontrivial(json.dumps(case["M"]))
        st, clause, _ = verdicts[case["tid"]]
        if st != "ok":
            classes[clause] = classes.get(clause, 0) + 1
            ctx.violation(clause, {"tool": "matrix_as_compact_urlsafe_json", "clause": clause,
                                   "exc": res["exc"]},
                          {"matrix_hex": case["M"], "compact": text, "parsed": case["parsed"]})
    rerun_outcomes = {}
    for (pre, variant, p1, d1, p2, d2, case, results) in rdone:
        ctx.count()
        ctx.nontrivial(json.dumps(["rerun", pre] + [[plan_json(p)[k] for k in ("D", "vs", "a")]
                                                    + [p["layout"], p["dtype"], p.get("sharding")]
                                                    for p in (p1, p2)]))
        run2 = case["second"]["run"]
        ok2 = "success" if run2["outcome"] == "ok" and run2["exit"] in (0, 4) else "refused"
        rerun_outcomes["%s/%s" % (pre, ok2)] = rerun_outcomes.get("%s/%s" % (pre, ok2), 0) + 1
        st, clause, _ = verdicts[case["tid"]]
        if st != "ok":
            ck = "%s pre=%s second_run=%s" % (clause, pre, ok2)
            classes[ck] = classes.get(ck, 0) + 1
            ctx.violation(clause, {"tool": "volume-to-precomputed --generate-info (rerun on one destination)",
                                   "clause": clause, "pre": pre, "variant": variant, "second_run": ok2,
                                   "exit1": case["first"]["run"]["exit"], "exit2": run2["exit"],
                                   "exc": results[1].get("exc", ""), "where": results[1].get("where", "")},
                          {"rerun": {"pre": pre, "variant": variant, "plan1": plan_json(p1),
                                     "plan2": plan_json(p2), "data1": data_to_json(d1),
                                     "data2": data_to_json(d2)},
                           "runs": results, "case": case})
    hist_styles = {}
    for h in hdone:
        style, steps, case, results = h[:4]
        multi = {"mode": h[4], "first_default_call": h[5]} if len(h) > 4 else None
        ctx.count()
        hj = history_json(steps)
        ctx.nontrivial(json.dumps(["history", [{k: v for k, v in q.items() if k != "data"} for q in hj]]))
        hist_styles[style] = hist_styles.get(style, 0) + 1
        st, clause, _ = verdicts[case["tid"]]
        if st != "ok":
            ck = "%s history=%s" % (clause, style)
            classes[ck] = classes.get(ck, 0) + 1
            ctx.violation(clause, {"tool": ("volume_file_to_info / nibabel_image_to_info / store_nibabel_image_to_"
                                            "fullres_info, several files in one process") if multi else
                                           ("volume_file_to_info / volume-to-precomputed main, several calls on "
                                            "one path in one process"), "clause": clause, "history": style,
                                   "options": multi["mode"] if multi else "explicit",
                                   "steps": [[s_["via"], s_["ignore"], s_["replaced"]] for s_ in case["steps"]],
                                   "exits": [r.get("exit") for r in results],
                                   "exc": [r.get("exc", "") for r in results]},
                          {"history": {"style": style, "steps": hj, "multifile": multi},
                           "runs": results, "case": case})
    ctx.notes["violation_classes"] = classes
    ctx.notes["same_path_histories"] = hist_styles
    ctx.notes["rerun_cases_by_destination_state_and_second_run"] = rerun_outcomes
    ctx.notes["info_cases"] = {
        "total": len(done), "signed_permutations": sum(1 for d in done if d[0]["kind"] == "perm"),
        "rotations": sum(1 for d in done if d[0]["kind"] == "rot"),
        "shears": sum(1 for d in done if d[0]["kind"] == "shear"),
        "nifti2": sum(1 for d in done if d[0]["nifti"] == 2),
        "rgb": sum(1 for d in done if d[0]["layout"] == "rgb"),
        "4d": sum(1 for d in done if d[0]["layout"] == "4d"),
        "with_sharding_option": sum(1 for d in done if d[0].get("sharding")),
        "header_scaled": sum(1 for d in done if d[0].get("slope") is not None),
        "pixdim_disagrees_with_affine": sum(1 for d in done if d[0].get("pixdim")),
        "fine_voxels_not_whole_nm": {u: sum(1 for d in done if d[0].get("fine") == u) for u in sorted(FINE)},
        "scaled_label_volumes_above_2p24_ignore_scaling": sum(1 for d in done if d[0].get("labels")),
        "fine_voxels_nifti1": sum(1 for d in done if d[0].get("fine") and d[0]["nifti"] == 1),
        "declared_spatial_unit": {u: sum(1 for d in done if d[0].get("xyzt") == u) for u in XYZT_UNITS},
        "generations_judged_per_case": "file, api, api2 (same image object, other sharding), store "
                                       "(same image object, storing function)"}
    ctx.notes["compact_cases"] = len(cdone)
    if undecided and not ctx.violations:
        raise tlc.MachineryError("Trace_Affine could not judge %d case(s), e.g. case %s: machinery:OutOfReach"
                                 % (len(undecided), undecided[0]))
    for (p, res, case, data) in done[:2]:
        ctx.sample({"plan": plan_json(p), "obs_file": {k: case["obs"][0].get(k) for k in
                                                      ("size", "channels", "dtype", "res", "T", "t")},
                    "verdict": verdicts[case["tid"]][1]})
    if cdone:
        ctx.sample({"compact": cdone[0][3], "verdict": verdicts[cdone[0][1]["tid"]][1]})


def replay(ctx, path):
    with open(path) as f:
        rp = json.load(f)
    d = rp["detail"]
    if "matrix_hex" in d:
        M = [[float.fromhex(x) for x in row] for row in d["matrix_hex"]]
        case, res, text = ad.compact_case(M)
    elif "history" in d:
        work = ctx.scratch("verif_affine_")
        multi = d["history"].get("multifile")
        if multi:
            if multi["mode"] == "default" and multi["first_default_call"]:
                ad.prime_default_options(work, multi["first_default_call"])
            case, _ = ad.run_multifile_case(work, history_from_json(d["history"]["steps"]), multi["mode"])
        else:
            case, _ = ad.run_samepath_case(work, history_from_json(d["history"]["steps"]))
    elif "rerun" in d:
        rr = d["rerun"]
        p1, p2 = plan_from_json(rr["plan1"]), plan_from_json(rr["plan2"])
        d1 = data_from_json(dict(p1, in_dtype=p1["dtype"]), rr["data1"])
        d2 = data_from_json(dict(p2, in_dtype=p2["dtype"]), rr["data2"])
        work = ctx.scratch("verif_affine_")
        case, _ = ad.run_rerun_case(work, p1, d1, p2, d2, rr["pre"])
    else:
        p = plan_from_json(d["plan"])
        q = dict(p, in_dtype=p["dtype"])
        data = data_from_json(q, d["data"])
        work = ctx.scratch("verif_affine_")
        case, res, _ = ad.run_info_case(work, p, data)
    v = ctx.judge("Trace_Affine", [case])
    print("replay verdict:", v[1])
    ctx.cleanup()
    return 0 if v[1][0] == "ok" else 1
