"""C16 - generated metadata and transform place the image correctly in space.

M    : MC_Affine - the centre/corner convention identity holds for the
       design formulas (direction cosines = columns / voxel size, translation
       minus half a voxel) on EVERY voxel, for the 48 signed permutations x
       sizes <= 3 x anisotropic dyadic voxel sizes (thorough: + rational
       rotations and a Pythagorean shear); "plus"/"none" half-shift must FAIL.
C->S : NIfTI files with exactly known rational affines (signed permutations,
       rational rotations, Pythagorean shears, anisotropic dyadic voxel sizes,
       dyadic translations; 3-D / 4-D / RGB; all stored dtypes; header scaling;
       sharding option strings) through the REAL volume-to-precomputed
       --generate-info and nibabel_image_to_info; floats re-encoded as exact
       rationals; Trace_Affine judges size, channels, data type, sharding
       record, resolution = 10^6 |column|, the placement identity at the
       corners and centre, and the round trip of the compact URL form.
"""
import itertools
import json
from fractions import Fraction as Fr

import numpy as np

from .. import affine_driver as ad
from .. import tlc
from .. import vol_driver as vd
from .c01 import data_from_json, data_to_json

LEVEL = "model_checking"
RULE = ("one evaluation = one file through --generate-info and nibabel_image_to_info (or one matrix "
        "through the compact formatter) judged by TLC; an affine is non-trivial when it is not a "
        "positive diagonal (permutation, flip, rotation or shear) or has anisotropic voxels; "
        "distinct = distinct (direction matrix, voxel sizes, translation, shape, layout, dtype, "
        "scaling, sharding) tuples / distinct matrices")


def signed_perms():
    out = []
    for p in itertools.permutations(range(3)):
        for s in itertools.product((1, -1), repeat=3):
            out.append([[Fr(s[k]) if r == p[k] else Fr(0) for k in range(3)] for r in range(3)])
    return out


def mat(rows, den):
    return [[Fr(v, den) for v in row] for row in rows]


ROTATIONS = [mat([[1, 2, 2], [2, 1, -2], [2, -2, 1]], 3),
             mat([[2, 3, 6], [3, -6, 2], [6, 2, -3]], 7),
             mat([[1, 4, 8], [4, 7, -4], [8, -4, 1]], 9),
             mat([[2, 6, 9], [6, 7, -6], [9, -6, 2]], 11),
             mat([[3, -4, 0], [4, 3, 0], [0, 0, 5]], 5),
             mat([[13, 0, 0], [0, 5, -12], [0, 12, 5]], 13)]
# unit vectors with rational entries (Pythagorean): columns of shears
UNITS = [[Fr(1), Fr(0), Fr(0)], [Fr(0), Fr(1), Fr(0)], [Fr(0), Fr(0), Fr(1)],
         [Fr(4, 5), Fr(3, 5), Fr(0)], [Fr(3, 5), Fr(0), Fr(4, 5)], [Fr(0), Fr(5, 13), Fr(12, 13)],
         [Fr(1, 3), Fr(2, 3), Fr(2, 3)], [Fr(2, 7), Fr(3, 7), Fr(6, 7)], [Fr(-4, 5), Fr(3, 5), Fr(0)],
         [Fr(12, 13), Fr(-5, 13), Fr(0)], [Fr(2, 3), Fr(-2, 3), Fr(1, 3)]]
VS = [Fr(1, 8), Fr(1, 4), Fr(1, 2), Fr(3, 4), Fr(1), Fr(5, 4), Fr(3, 2), Fr(2), Fr(3)]
DTYPES = ["uint8", "int8", "int16", "uint16", "int32", "uint32", "int64", "uint64", "float32", "float64"]


def matmul(P, Q):
    return [[sum(P[r][j] * Q[j][k] for j in range(3)) for k in range(3)] for r in range(3)]


def det(M):
    return (M[0][0] * (M[1][1] * M[2][2] - M[1][2] * M[2][1])
            - M[0][1] * (M[1][0] * M[2][2] - M[1][2] * M[2][0])
            + M[0][2] * (M[1][0] * M[2][1] - M[1][1] * M[2][0]))


def choose_direction(rng, kind, sp):
    if kind == "perm":
        return rng.choice(sp)
    if kind == "rot":
        return matmul(rng.choice(sp), matmul(rng.choice(ROTATIONS), rng.choice(sp)))
    while True:        # shear: three rational unit columns, invertible, not orthogonal in general
        cols = [rng.choice(UNITS) for _ in range(3)]
        sg = [rng.choice((1, -1)) for _ in range(3)]
        D = [[cols[k][r] * sg[k] for k in range(3)] for r in range(3)]
        if det(D) != 0:
            return matmul(rng.choice(sp), D)


def small_denominators(D, vs, a, bound=1024):
    """input selection only: keep affines whose exact translation (in mm) has a
    denominator <= bound, so that the rational re-encoding of the tool's floats
    (simplest rational within 1e-9) is unambiguous"""
    for r in range(3):
        t = a[r] - sum(D[r][k] * vs[k] / 2 for k in range(3))
        if t.denominator > bound:
            return False
    return True


def make_plan(rng, nrng, kind, sp, D=None):
    fixed_D = D
    while True:
        D = fixed_D if fixed_D is not None else choose_direction(rng, kind, sp)
        vs = [rng.choice(VS) for _ in range(3)]
        if rng.random() < 0.15:
            vs = [vs[0]] * 3
        a = [Fr(rng.randint(-256, 256), 8) for _ in range(3)]
        if small_denominators(D, vs, a):
            break
    A = [[D[r][k] * vs[k] for k in range(3)] for r in range(3)]
    exact32 = all(ad.float32_exact(A[r][k]) for r in range(3) for k in range(3)) and \
        all(ad.float32_exact(x) for x in a)
    p = {"kind": kind, "D": D, "vs": vs, "a": a, "A": A,
         "nifti": (1 if rng.random() < 0.8 else 2) if exact32 else 2}
    lay = rng.choice(["3d", "3d", "3d", "4d", "4d", "rgb"])
    size = [rng.randint(1, 6) for _ in range(3)]
    if rng.random() < 0.7:
        size = [max(2, s) for s in size]
    p["layout"] = lay
    if lay == "rgb":
        data = np.zeros(size, dtype=vd.RGB_DTYPE)
        for n in "RGB":
            data[n] = nrng.integers(0, 256, size=size, dtype=np.uint8)
        p["dtype"] = "rgb"
    else:
        shape = size + ([rng.randint(1, 4)] if lay == "4d" else [])
        dt = np.dtype(rng.choice(DTYPES))
        p["dtype"] = dt.name
        if dt.kind in "iu":
            ii = np.iinfo(dt)
            reach = rng.choice([100, 255, 1000, 60000, 2 ** 20])
            lo = max(int(ii.min), -reach // 2 if rng.random() < 0.5 else 0)
            data = nrng.integers(lo, min(int(ii.max), reach) + 1, size=shape).astype(dt)
        else:
            iu = rng.choice([1, 2, 4])
            data = (nrng.integers(-200 * iu, 4000 * iu, size=shape) / iu).astype(dt)
        if rng.random() < 0.3:
            p["slope"] = rng.choice([0.5, 2.0, 0.25, 3.0, 1.0, 1.0])
            p["inter"] = rng.choice([0.0, 1.0, -2.5, 10.0, -1024.0, -1.0])
            p["ignore_scaling"] = rng.random() < 0.4
    if rng.random() < 0.3:
        p["sharding"] = [rng.randint(0, 5), rng.randint(0, 5), rng.randint(0, 4),
                         rng.choice(["gzip", "raw"])]
    return p, data


def plan_json(p):
    q = dict(p)
    for k in ("D", "A"):
        q[k] = [[str(x) for x in row] for row in p[k]]
    for k in ("vs", "a"):
        q[k] = [str(x) for x in p[k]]
    return q


def plan_from_json(q):
    p = dict(q)
    for k in ("D", "A"):
        p[k] = [[Fr(x) for x in row] for row in q[k]]
    for k in ("vs", "a"):
        p[k] = [Fr(x) for x in q[k]]
    return p


def is_nontrivial(p):
    D = p["D"]
    diag_pos = all((D[r][k] == (1 if r == k else 0)) for r in range(3) for k in range(3))
    return (not diag_pos) or len(set(p["vs"])) > 1


def sig_of(p, res, clause, case):
    srcs = [o["src"] for o in case["obs"]]
    return {"tool": "volume-to-precomputed --generate-info / nibabel_image_to_info", "clause": clause,
            "affine_kind": p["kind"], "layout": p["layout"], "dtype": p["dtype"],
            "nifti_version": p["nifti"], "scaled": p.get("slope") is not None,
            "ignore_scaling": bool(p.get("ignore_scaling")), "sharding": bool(p.get("sharding")),
            "exc": res.get("exc", ""), "where": res.get("where", ""), "srcs": srcs,
            "nonrat": sorted({n for o in case["obs"] for n in o.get("nonrat", [])})}


SPECIAL = [0.0, -0.0, 1.0, -1.0, 0.5, -0.25, 1e15, 1e16, -1e16, 123456.0, 2.0 ** 53, 2.0 ** 53 + 2,
           2.0 ** 63, 1e22, 1e23, 1e-5, 1e-7, 5e-324, 1.7976931348623157e308, 0.1, 1 / 3, -250000.0,
           1e6 + 0.5, 999999.9999999999, 4503599627370497.0, 0.30000000000000004, 3.0, 100.0]


def compact_matrices(ctx, transforms):
    rng = ctx.rng
    mats = [t for t in transforms if t is not None]
    n = ctx.pick(120, 1500)
    for _ in range(n):
        M = [[rng.choice(SPECIAL) if rng.random() < 0.7 else
              (rng.choice([1, -1]) * rng.random() * 10 ** rng.randint(-8, 12)) for _ in range(4)]
             for _ in range(4)]
        if rng.random() < 0.4:
            M[3] = [0.0, 0.0, 0.0, 1.0]
        if rng.random() < 0.2:
            M = [[float(round(x)) if abs(x) < 1e15 else x for x in row] for row in M]
        mats.append(M)
    return mats


def run(ctx):
    ctx.cov["rule"] = RULE
    ctx.assumptions += [
        "affines are built from rational unit columns x dyadic voxel sizes and dyadic translations, so "
        "the exact values of resolution, direction cosines and translation are rationals of small "
        "denominator; floats printed by the tool are re-encoded as the simplest rational within 1e-9 "
        "relative distance (absolute floor: 1e-9 of the smallest voxel size) and judged exactly",
        "NIfTI-1 stores the sform in float32: NIfTI-1 files are used only for affines that float32 "
        "represents exactly, NIfTI-2 (float64 sform) otherwise; 'the file's affine' is the sform",
        "'a data type able to hold its values' is judged on the actual value range of the image "
        "(after header scaling unless --ignore-scaling); images hold float32-exact values",
        "the placement identity is evaluated at the 8 corner voxels and the centre voxel (MC_Affine "
        "shows this determines every voxel when all extents are >= 2)",
        "compact form: parsing = JSON after replacing '_' by ','; matrices are compared as exact "
        "binary values, the sign of zero ignored",
    ]
    ctx.mc("MC_Affine", ctx.pick("MC_Affine_quick", "MC_Affine"), workers=16)
    sw = {}
    for dev in ("MC_Affine_plus", "MC_Affine_none"):
        bad = tlc.model_check("MC_Affine", dev, workers=4)
        if bad["ok"]:
            raise tlc.MachineryError("switch %s did not violate ConventionIdentity (vacuous oracle)" % dev)
        sw[dev] = bad["invariant_violated"]
    ctx.notes["switch_halfshift_violates"] = sw

    rng, nrng = ctx.rng, ctx.np_rng(1)
    sp = signed_perms()
    work = ctx.scratch("verif_affine_")
    plans = []
    for D in sp:                         # all 48 signed permutations, every run
        for _ in range(ctx.pick(2, 20)):
            plans.append(make_plan(rng, nrng, "perm", sp, D=D))
    for kind, n in (("rot", ctx.pick(110, 2500)), ("shear", ctx.pick(110, 2500))):
        for _ in range(n):
            plans.append(make_plan(rng, nrng, kind, sp))
    done = []
    transforms = []
    for p, data in plans:
        case, res, tr = ad.run_info_case(work, p, data)
        done.append((p, res, case, data))
        transforms.append(tr)
    cmats = compact_matrices(ctx, transforms[::max(1, len(transforms) // ctx.pick(60, 600))])
    cdone = [(M,) + ad.compact_case(M) for M in cmats]
    cases = [c for (_, _, c, _) in done] + [c for (_, c, _, _) in cdone]
    verdicts = ctx.judge("Trace_Affine", cases, workers=12, chunk=3000)
    classes = {}
    for (p, res, case, data) in done:
        ctx.count()
        if is_nontrivial(p):
            ctx.nontrivial(json.dumps([plan_json(p)[k] for k in ("D", "vs", "a")]
                                      + [case["shape"], p["layout"], p["dtype"], p.get("slope"),
                                         p.get("ignore_scaling"), p.get("sharding")]))
        st, clause, _ = verdicts[case["tid"]]
        if st != "ok":
            sg = sig_of(p, res, clause, case)
            ck = "%s kind=%s layout=%s exc=%s" % (clause, p["kind"], p["layout"], sg["exc"])
            classes[ck] = classes.get(ck, 0) + 1
            ctx.violation(clause, sg, {"plan": plan_json(p), "run": res, "case": case,
                                         "data": data_to_json(data)})
    for (M, case, res, text) in cdone:
        ctx.count()
        ctx.nontrivial(json.dumps(case["M"]))
        st, clause, _ = verdicts[case["tid"]]
        if st != "ok":
            classes[clause] = classes.get(clause, 0) + 1
            ctx.violation(clause, {"tool": "matrix_as_compact_urlsafe_json", "clause": clause,
                                   "exc": res["exc"]},
                          {"matrix_hex": case["M"], "compact": text, "parsed": case["parsed"]})
    ctx.notes["violation_classes"] = classes
    ctx.notes["info_cases"] = {
        "total": len(done), "signed_permutations": sum(1 for d in done if d[0]["kind"] == "perm"),
        "rotations": sum(1 for d in done if d[0]["kind"] == "rot"),
        "shears": sum(1 for d in done if d[0]["kind"] == "shear"),
        "nifti2": sum(1 for d in done if d[0]["nifti"] == 2),
        "rgb": sum(1 for d in done if d[0]["layout"] == "rgb"),
        "4d": sum(1 for d in done if d[0]["layout"] == "4d"),
        "with_sharding_option": sum(1 for d in done if d[0].get("sharding")),
        "header_scaled": sum(1 for d in done if d[0].get("slope") is not None)}
    ctx.notes["compact_cases"] = len(cdone)
    for (p, res, case, data) in done[:2]:
        ctx.sample({"plan": plan_json(p), "obs_file": {k: case["obs"][0].get(k) for k in
                                                      ("size", "channels", "dtype", "res", "T", "t")},
                    "verdict": verdicts[case["tid"]][1]})
    if cdone:
        ctx.sample({"compact": cdone[0][3], "verdict": verdicts[cdone[0][1]["tid"]][1]})


def replay(ctx, path):
    with open(path) as f:
        rp = json.load(f)
    d = rp["detail"]
    if "matrix_hex" in d:
        M = [[float.fromhex(x) for x in row] for row in d["matrix_hex"]]
        case, res, text = ad.compact_case(M)
    else:
        p = plan_from_json(d["plan"])
        q = dict(p, in_dtype=p["dtype"])
        data = data_from_json(q, d["data"])
        work = ctx.scratch("verif_affine_")
        case, res, _ = ad.run_info_case(work, p, data)
    v = ctx.judge("Trace_Affine", [case])
    print("replay verdict:", v[1])
    ctx.cleanup()
    return 0 if v[1][0] == "ok" else 1
