"""C08 - generated scale metadata is consistent and usable by every later step.

M    : MC_ScaleGen - the oracle ValidPyramid evaluated by TLC on the
       TRANSCRIPTION of the generator (ScaleGen.tla design layer) over a bounded
       input set.  With every deviation switch in the conforming position
       (StopRule plusDelay, ChunkRule delayAware, ReduceRule loop, KeyRule
       fallback, AssignRule strict = the code at HEAD) DesignValid is an
       invariant of the whole input set (all clauses, no raise); each
       deviating position must FAIL its clause (minusDelay: LastScaleFits,
       code: PairAssemblable, single: KeysDistinct, once: Raised).
S->C : (verdict) points of the SAME input product (axes exported by
       Gen_ScaleGen; classes found by the MC run are all hit) are fed to the REAL
       fill_scales_for_dyadic_pyramid and to the generate-scales-info command;
       the REAL output is judged by ValidPyramid in Trace_ScaleGen.  The
       transcription's prediction is compared as well: disagreement without an
       oracle violation is DRIFT.
"""
import itertools
import json
from fractions import Fraction

from .. import scalegen_driver as sg
from .. import tlc

LEVEL = "model_checking"
RULE = ("one evaluation = one call of the real generator on (size triple, resolution triple, "
        "decimal scale, target, max_scales[, type/encoding/data_type]); non-trivial when the "
        "real output has >= 2 scales and the input is not within 1e-9 of a rounding boundary; "
        "distinct = distinct input tuples")

CLAUSES = {"K": "oracle:KeysDistinct", "R": "oracle:ResolutionRule", "S": "oracle:SizeRule",
           "F": "oracle:FactorSteps", "C": "oracle:ChunkSizes", "L": "oracle:LastScaleFits",
           "O": "oracle:IsotropyOrder", "B": "oracle:IsotropyBound", "I": "oracle:IsotropyClosest",
           "P": "oracle:PairAssemblable", "X": "oracle:Raised", "J": "oracle:ValidJson",
           "A": "oracle:NotAcceptedByIO"}
DRIFTS = {1: "design:RaisePrediction", 2: "design:NumberOfScales", 3: "design:Keys",
          4: "design:Sizes", 5: "design:Ratios", 6: "design:ChunkSizes",
          7: "design:SetInfoParamsTable"}


def decode(code):
    """'KLP@2,1,E,3,0' -> ([clause names], pair detail or None) - pure re-encoding"""
    detail = None
    if "@" in code:
        code, d = code.split("@", 1)
        k, a, out, nbad, nsil = d.split(",")
        detail = {"k": int(k), "axis": int(a), "outcome": {"E": "Error", "S": "SilentWrong"}[out],
                  "nbad": int(nbad), "nsilent": int(nsil)}
    return [CLAUSES[ch] for ch in code], detail


def class_summary(recs):
    out = {}
    for r in recs:
        cls = json.loads(r[1])
        code = cls[0]
        letters = code if code else "ok"
        worst = ""
        if "P" in letters:
            worst = letters[letters.index("P") + 1:]
            letters = letters[:letters.index("P") + 1]
        for ch in (letters if letters != "ok" else ["ok"]):
            name = CLAUSES.get(ch, ch) + (":" + {"E": "Error", "S": "SilentWrong"}[worst]
                                          if ch == "P" and worst else "")
            e = out.setdefault(name, {"classes": 0, "example_delays_T": cls[1:]})
            e["classes"] += 1
    return out


SWITCHES = {"StopRule": "plusDelay", "ChunkRule": "delayAware", "ReduceRule": "loop",
            "KeyRule": "fallback", "AssignRule": "strict"}
# one must-fail configuration per deviating switch position (non-vacuity)
MUST_FAIL = (("MC_ScaleGen_minus", "StopRule=minusDelay", "LastFits"),
             ("MC_ScaleGen_pairs", "ChunkRule=code", "PairsOk"),
             ("MC_ScaleGen_keys", "KeyRule=single", "KeysOk"),
             ("MC_ScaleGen_once", "ReduceRule=once", "NoRaise"))


def run_mc(ctx):
    # every switch in the conforming position: DesignValid (ValidPyramid on the
    # transcription, no raise) is a real invariant of the whole input space
    r = ctx.mc("MC_ScaleGen", ctx.pick("MC_ScaleGen_quick", "MC_ScaleGen"), workers=16)
    recs = tlc.records(r["out"], "CLS")
    ctx.notes["design_classes"] = class_summary(recs)
    ctx.notes["design_class_count"] = len(recs)
    ctx.notes["switches"] = dict(SWITCHES)
    classes = [json.loads(x[1]) for x in recs]
    sw = {}
    for cfg, position, inv in MUST_FAIL:
        res = tlc.model_check("MC_ScaleGen", cfg, workers=16)
        sw[cfg] = {"position": position, "ok": res["ok"], "violated": res["invariant_violated"],
                   "distinct": res.get("distinct", 0), "wall_s": round(res["wall_s"], 1)}
        ctx.cov["states"] += res.get("distinct", 0)
        ctx.cov["transitions"] += res.get("generated", 0)
        if res["ok"] or inv not in res["invariant_violated"]:
            raise tlc.MachineryError("%s (%s) expected to violate %s (vacuous model)"
                                     % (cfg, position, inv))
    ctx.notes["switch_runs"] = sw
    return classes


def input_key(inp, extra=None):
    return json.dumps([inp["size"], inp["res"], inp["s"], inp["T"], inp["maxs"], extra])


def gen_inputs(ctx, axes, classes):
    """Points of the exported product.  Part 1: for every (delays, T) class the
    MC run reported, a resolution triple with those delays; part 2: seeded
    random points of the full product."""
    rng = ctx.rng
    R, S, Ts, Ms, Ss = axes["res"], axes["size"], axes["T"], axes["maxs"], axes["s"]
    by_delays = {}
    for tr in itertools.product(R, repeat=3):
        inp = {"res": [list(x) for x in tr]}
        by_delays.setdefault(tuple(sg.delays_descr(inp)), []).append(inp["res"])
    out = []
    big = [s for s in S if s >= 1000]
    seen_cls = set()
    for cls in sorted(classes, key=json.dumps):
        key = (tuple(cls[1:4]), cls[4])
        if key in seen_cls or key[0] not in by_delays:
            continue
        seen_cls.add(key)
        for _ in range(ctx.pick(1, 3)):
            res = rng.choice(by_delays[key[0]])
            out.append({"size": [rng.choice(big), rng.choice(S), rng.choice(S)][::rng.choice([1, -1])],
                        "res": res, "s": rng.choice(Ss), "T": key[1], "maxs": 0})
    n = ctx.pick(6500, 180000)
    sizes_small = [s for s in S if s < 10 ** 9]
    for _ in range(n):
        kind = rng.random()
        if kind < 0.15:
            r = rng.choice(R)
            res = [r, r, r]
        elif kind < 0.4:
            a, b = rng.choice(R), rng.choice(R)
            res = [a, a, b]
            rng.shuffle(res)
        else:
            res = [rng.choice(R) for _ in range(3)]
        pool = S if rng.random() < 0.25 else sizes_small
        out.append({"size": [rng.choice(pool) for _ in range(3)], "res": [list(x) for x in res],
                    "s": rng.choice(Ss), "T": rng.choice(Ts),
                    "maxs": rng.choice([0, 0, 0] + [m for m in Ms if m])})
    return out


PARAM_COMBOS = [
    # in_type, in_enc, arg_type, arg_enc, dtype, has_block, channels
    (None, None, None, None, "uint8", False, 1),
    (None, None, None, "raw", "uint16", False, 3),
    (None, None, "segmentation", None, "uint32", False, 1),
    (None, None, None, "compressed_segmentation", "uint8", False, 1),
    (None, None, None, "compressed_segmentation", "uint64", False, 1),
    (None, None, "image", "compressed_segmentation", "uint16", False, 1),
    ("segmentation", "compressed_segmentation", None, None, "uint32", True, 1),
    ("image", "raw", None, "compressed_segmentation", "uint32", False, 2),
    ("segmentation", None, None, None, "uint64", False, 1),
    (None, "compressed_segmentation", None, "raw", "uint8", True, 1),
    # compressed_segmentation for narrow integer types whose full-resolution description
    # already carries a block size (hand-written / copied descriptions)
    (None, "compressed_segmentation", None, None, "uint8", True, 1),
    ("segmentation", "compressed_segmentation", None, None, "uint16", True, 1),
    (None, None, None, "compressed_segmentation", "uint16", True, 1),
    (None, None, None, "jpeg", "uint8", False, 1),
    (None, None, None, "jpeg", "uint8", False, 3),
    (None, None, "image", None, "float32", False, 1),
    # no encoder exists for these requests: recorded, never a verdict
    (None, None, None, "compressed_segmentation", "float32", False, 1),
    (None, None, None, "jpeg", "uint16", False, 1),
]


def sig_for(clause, rec, detail):
    inp = rec["in"]
    d = sg.delays_descr(inp)
    sig = {"ratio_class": sg.ratio_class(inp), "delays": d, "max_delay": max(d),
           "distinct_delays": len(set(d)), "T": inp["T"], "target": 2 ** inp["T"],
           "maxs": inp["maxs"], "s": inp["s"], "via": rec["via"], "nscales": len(rec["scales"])}
    sc = rec["scales"]
    if clause == "oracle:KeysDistinct":
        keys = [s["key"] for s in sc]
        dup = sorted({k for k in keys if keys.count(k) > 1})
        # every group of equal keys reaches back into the levels at which
        # some axis is not halved yet (level <= max delay)
        firsts = [min(i for i, k in enumerate(keys) if k == dk) for dk in dup]
        sig.update({"dup_keys": dup, "first_dup_level": min(firsts),
                    "dups_only_in_delay_phase": all(f < max(d) for f in firsts),
                    "min_mantissa": sg.min_mantissa(inp), "isotropic": max(d) == 0})
    elif clause == "oracle:LastScaleFits":
        last = sc[-1]["size"]
        over = [a for a in range(3) if last[a] > 2 * 2 ** inp["T"]]
        sig.update({"axes_over": over, "delays_of_axes_over": sorted({d[a] for a in over}),
                    "all_over_axes_delayed": all(d[a] > 0 for a in over)})
    elif clause == "oracle:PairAssemblable" and detail:
        k, a = detail["k"], detail["axis"]
        o, n = sc[k]["chunk"][a], sc[k + 1]["chunk"][a]
        f = 1 if sc[k]["size"][a] == sc[k + 1]["size"][a] else 2
        sig.update({"level": k, "axis": a, "o": o, "n": n, "f": f, "old_size": sc[k]["size"][a],
                    "outcome": detail["outcome"], "axis_delay": d[a], "nbad": detail["nbad"],
                    "nsilent": detail["nsilent"], "any_silent": detail["nsilent"] > 0,
                    "half_chunk": o // f if f else 0,
                    "n_over_half": (str(Fraction(n * f, o)) if o else "inf")})
    elif clause == "oracle:Raised":
        sig["exception"] = rec["raised"]
    elif clause == "oracle:NotAcceptedByIO":
        sig.update({"params": rec["params"], "exception": rec.get("acc_exc", "")})
    return sig


def run_cases(ctx, work, inputs, cli_every):
    recs = []
    skipped = 0
    n_cli = 0
    for k, inp in enumerate(inputs):
        if cli_every and k % cli_every == 0:
            combo = PARAM_COMBOS[n_cli % len(PARAM_COMBOS)]
            rec = sg.run_cli(work, inp, n_cli, *combo)
            n_cli += 1
        else:
            rec = sg.run_direct(inp)
        # float and rational arithmetic may legitimately differ at a rounding
        # boundary (on the levels that exist): not judged, counted as trivial
        if sg.near_boundary(inp, levels=max(1, len(rec["scales"]))):
            skipped += 1
            continue
        recs.append(rec)
    return recs, skipped, n_cli


def judge_and_report(ctx, recs):
    cases = [{k: r[k] for k in ("in", "raised", "scales", "jsonok", "accepted", "design", "params")}
             for r in recs]
    verdicts = ctx.judge("Trace_ScaleGen", cases, workers=16, chunk=20000)
    per_clause = {}
    profile = {}
    PROFILE_FIELDS = ("distinct_delays", "max_delay", "T", "maxs", "via", "outcome", "f", "axis_delay",
                      "n_over_half", "any_silent", "dups_only_in_delay_phase", "isotropic",
                      "all_over_axes_delayed", "exception", "first_dup_level")
    drift = {}
    for rec, case in zip(recs, cases):
        ctx.count()
        st, code, pos = verdicts[case["tid"]]
        if len(rec["scales"]) >= 2:
            ctx.nontrivial(input_key(rec["in"], rec["params"] if rec["via"] == "command" else None))
        if pos in DRIFTS:
            drift[DRIFTS[pos]] = drift.get(DRIFTS[pos], 0) + 1
            ctx.note_drift(DRIFTS[pos], {"in": rec["in"], "via": rec["via"], "params": rec["params"],
                                         "real_keys": [s["key"] for s in rec["scales"]][:6]})
        if st == "ok":
            continue
        clauses, detail = decode(code)
        for cl in clauses:
            per_clause[cl] = per_clause.get(cl, 0) + 1
            sg_ = sig_for(cl, rec, detail)
            for fld in PROFILE_FIELDS:
                if fld in sg_:
                    d_ = profile.setdefault(cl, {}).setdefault(fld, {})
                    d_[str(sg_[fld])] = d_.get(str(sg_[fld]), 0) + 1
            ctx.violation(cl, sg_,
                          {"in": rec["in"], "via": rec["via"], "params": rec["params"],
                           "raised": rec["raised"], "code": code,
                           "scales": rec["scales"][:8]})
    ctx.notes["failing_clause_counts"] = per_clause
    ctx.notes["violation_profile"] = profile
    ctx.notes["drift_counts"] = drift
    return verdicts, cases


def run(ctx):
    ctx.cov["rule"] = RULE
    ctx.assumptions += [
        "resolutions are small rationals p/q * 10^s nm handed to the code as the nearest double; "
        "inputs within 1e-9 of a delay or key rounding boundary are skipped (counted, trivial)",
        "PairAssemblable uses the closed form PyramidAssembly!OutcomeCF, proved equal to the "
        "voxel-level model by TLC for sizes <= 40 and chunks <= 16 and assumed beyond (scale free)",
        "requests for which no encoder exists (float32/compressed_segmentation, 16-bit jpeg) are "
        "recorded but not judged by NotAcceptedByIO",
        "isotropy = clauses (i) and (ii) of DESIGN 5.C08; 'about the target number of voxels' = "
        "within one binary order",
    ]
    classes = run_mc(ctx)
    exp = ctx.export("Gen_ScaleGen", workers=2)
    axes = json.loads(exp[0][1])
    ctx.notes["input_axes"] = axes
    inputs = gen_inputs(ctx, axes, classes)
    work = ctx.scratch("verif_scalegen_")
    recs, skipped, n_cli = run_cases(ctx, work, inputs, ctx.pick(12, 25))
    ctx.notes["skipped_near_boundary"] = skipped
    ctx.notes["through_command"] = n_cli
    ctx.notes["class_seeds_replayed"] = len({(tuple(c[1:4]), c[4]) for c in classes})
    verdicts, cases = judge_and_report(ctx, recs)
    ctx.notes["facts"] = {
        "json_valid": sum(1 for r in recs if r["jsonok"]),
        "accepted_by_PrecomputedIO": sum(1 for r in recs if r["accepted"] and not r["raised"]),
        "raised": sum(1 for r in recs if r["raised"]),
    }
    for rec, case in list(zip(recs, cases))[:3]:
        ctx.sample({"in": rec["in"], "via": rec["via"],
                    "scales": [[s["key"], s["size"], s["chunk"]] for s in rec["scales"]][:5],
                    "verdict": verdicts[case["tid"]][1]})


def replay(ctx, path):
    with open(path) as f:
        rp = json.load(f)
    d = rp["detail"]
    work = ctx.scratch("verif_scalegen_")
    if d.get("via") == "command":
        p = d["params"]
        rec = sg.run_cli(work, d["in"], 0, p["inType"] or None, p["inEnc"] or None,
                         p["argType"] or None, p["argEnc"] or None, p["dtype"], p["hasBlock"],
                         p["channels"])
    else:
        rec = sg.run_direct(d["in"])
    case = {k: rec[k] for k in ("in", "raised", "scales", "jsonok", "accepted", "design", "params")}
    v = ctx.judge("Trace_ScaleGen", [case])
    st, code, pos = v[1]
    names = decode(code)[0] if st != "ok" else []
    print("replay verdict:", st, names, "keys", [s["key"] for s in rec["scales"]],
          "chunks", [s["chunk"] for s in rec["scales"]])
    ctx.cleanup()
    return 1 if rp["clause"] in names else 0
