"""C07 - downscalers compute the documented block statistic exactly.

M    : MC_Downscale - on all small arrays (sizes 1..3 per axis) over
       {0, 1, type max}, all factor triples and edge / constant completion the
       implementation-shaped pairwise half-sum per axis equals the oracle's
       BlockMean (exact sum / count, half-even), and the range clause follows
       from the statistic for all three methods.  Deviation switch
       WorkType = "sig" (work type with too few significant bits, as float64
       for uint64 data) must FAIL.
S->C : Gen_Downscale - every array over three abstract values on the shapes
       of the small scope is mapped to concrete values of each Neuroglancer
       data type and executed on the real downscalers point by point.
C->S : seeded random arrays (shape 1..6 per axis, 1-2 channels, five dtypes,
       values at the type limits, four outside values); every call of the
       real downscaler is judged by Trace_Downscale: oracle:Raised, OutShape,
       DType, InRange, BlockMean / Majority / Stride.
       Downscalers are obtained through get_downscaler: by the explicit method
       name, and through the "auto" selection path of the command-line tools
       (get_downscaler("auto", info, options) with info type image ->
       averaging with the configured outside value, segmentation -> striding;
       the documented selection rule is applied by TLC, Eff in
       Trace_Downscale).  A quarter of the random averaging / striding calls
       and a directed block (every dtype x every outside value x odd shapes)
       go through "auto".
       Directed type-limit block: uint64 (and the other integer types) constant
       at the type maximum, maximum next to maximum - 1 ... maximum - 1024,
       with and without the type maximum as outside value, odd shapes.
       Directed out-of-type outside values (-3, -1, max + 1, max + 745,
       2 max + 1 for each integer type) on odd shapes.

Interpretation of "all outside-value settings": an outside value that is a
value of the array's data type is fully judged.  For an outside value OUTSIDE
the range of an integer data type the exact mean of a border block may not be
representable in the unchanged data type (the statement's clauses contradict
each other there), so the weaker reading is adopted: an exception is accepted,
oracle:BlockMean is not demanded, and only oracle:OutShape / DType / InRange
("never overflow or wrap, between the minimum and maximum of the contributing
values", the outside value being a contributor) are evaluated - by TLC
(OvInType in Trace_Downscale).  Non-integer outside values inside the range
of an integer data type (--outside-value is a float: 0.5, 100.5, 7.25,
max - 0.5) are fully judged: data and outside value travel in units of 2^-u,
the mean is sum / (count * 2^u) rounded half-to-even (Downscale!UBits).

Known-finding matching: for a failing InRange / BlockMean clause of the
averaging method on integer data TLC also reports a class of the deviation
(DevClass in Trace_Downscale): "near" = every wrong element is within 1 or
within max|contributor| * 2^-51 of the exact mean (float64 rounding of a few
ULPs), "gross" otherwise (wrap-around, overflow).  It travels in the `sig` as
`deviation` and is used only by known_findings.json (the recorded uint64 /
float64 limitation suppresses the "near" class only); the verdict itself does
not depend on it.
"""
import hashlib
import json

import numpy as np

from .. import downscale_driver as dd
from .. import tlc

LEVEL = "model_checking"
RULE = ("one call of a real downscaler obtained through get_downscaler = (method name or 'auto' + info type, "
        "factors, outside value, dtype, array); non-trivial when "
        "some block holds two different values (so that rounding / tie / first-voxel choices are visible) "
        "or overhangs the border; distinct = distinct (method / selection path, factors, outside, dtype, shape, "
        "content)")


def magnitude_class(arr, outside):
    if arr.dtype.kind == "f":
        return "float"
    m = int(arr.max()) if arr.size else 0
    if outside is not None:
        m = max(m, int(outside))
    # a pairwise half-sum of 8 values needs 3 bits more than the values:
    # float64 arithmetic is exact up to 2^50
    return "le2^24" if m <= 2 ** 24 else "le2^50" if m <= 2 ** 50 else "gt2^50"


def add_call(ctx, calls, origin, method, factors, outside, arr, itype="image"):
    case, rec = dd.run_case(method, factors, outside, arr, itype)
    rec["origin"] = origin
    rec["arr"] = arr
    calls.append((case, rec))


def scope_calls(ctx, calls):
    """S->C: TLC-enumerated points on the real downscalers."""
    recs = ctx.export("Gen_Downscale", ctx.pick("Gen_Downscale_quick", "Gen_Downscale"),
                      workers=8, extra=["-seed", str(1 + ctx.seed)])
    pts = sorted((json.loads(r[1]) for r in recs), key=lambda p: (p["shape"], p["data"]))
    ctx.notes["scope_points_exported"] = len(pts)
    rng = ctx.rng
    for k, p in enumerate(pts):
        dtype = dd.NG_DTYPES[k % len(dd.NG_DTYPES)]
        tri = dd.concrete_triples(rng, dtype)
        vals = [tri[a] for a in p["data"]]
        if np.dtype(dtype).kind == "f":
            arr = np.array(vals, dtype=np.float64).astype(dtype).reshape(p["shape"])
        else:
            arr = np.array(vals, dtype=dtype).reshape(p["shape"])
        outs = dd.outside_values(dtype)
        small = len(p["data"]) <= ctx.pick(4, 6)
        # every averaging triple on the small points, three sampled ones beyond
        favg = [f for f in dd.AVG_FACTORS if f != (1, 1, 1) or k % 7 == 0] if small \
            else rng.sample(dd.AVG_FACTORS[1:], 3)
        for f in favg:
            add_call(ctx, calls, "scope", "average", f, rng.choice(outs), arr)
        for method in ("majority", "stride"):
            for f in rng.sample(dd.ANY_FACTORS, 2 if small else 1):
                add_call(ctx, calls, "scope", method, f, None, arr)


def random_calls(ctx, calls):
    rng = ctx.rng
    n = ctx.pick(1500, 12000)
    for k in range(n):
        dtype = dd.NG_DTYPES[k % len(dd.NG_DTYPES)]
        arr = dd.random_array(rng, dtype)
        r = rng.random()
        if r < 0.6:
            outs = dd.outside_values(dtype)
            if arr.dtype.kind == "f" and float(abs(arr).max()) > 2.0 ** 100:
                outs = [None, 0.0]      # (a small outside value next to 2^127 has no exact float32 mean)
            # a quarter through the "auto" selection path (info type image)
            add_call(ctx, calls, "random", "auto" if rng.random() < 0.25 else "average",
                     rng.choice(dd.AVG_FACTORS), rng.choice(outs), arr, "image")
        elif r < 0.8:
            if arr.size > 64:        # the majority downscaler is a slow Python loop
                arr = arr[:, :4, :4, :4]
            add_call(ctx, calls, "random", "majority", rng.choice(dd.ANY_FACTORS), None, arr)
        elif rng.random() < 0.25:
            # "auto" on a segmentation selects striding (an outside value is irrelevant there)
            add_call(ctx, calls, "random", "auto", rng.choice(dd.ANY_FACTORS),
                     rng.choice([None, 7]), arr, "segmentation")
        else:
            add_call(ctx, calls, "random", "stride", rng.choice(dd.ANY_FACTORS), None, arr)


ODD_SHAPES = [[1, 3, 5, 3], [1, 1, 4, 7], [2, 1, 1, 5], [1, 2, 3, 1], [1, 5, 1, 2]]


def directed_calls(ctx, calls):
    """Directed blocks (independent of the seed's luck): the "auto" selection
    path with every outside value on odd shapes; the top of every integer
    type's range; outside values that are not values of the type."""
    rng = ctx.rng
    # (1) "auto" + options
    for dtype in dd.NG_DTYPES:
        for outside in dd.outside_values(dtype):
            for shape in rng.sample(ODD_SHAPES, ctx.pick(2, 5)):
                arr = dd.random_array(rng, dtype, shape)
                if arr.dtype.kind == "f" and float(abs(arr).max()) > 2.0 ** 100 and outside not in (None, 0.0):
                    continue
                odd = [f for f in dd.AVG_FACTORS
                       if any(f[a] == 2 and shape[3 - a] % 2 for a in range(3))]
                add_call(ctx, calls, "directed-auto", "auto", rng.choice(odd), outside, arr, "image")
        add_call(ctx, calls, "directed-auto", "auto", rng.choice(dd.ANY_FACTORS), None,
                 dd.random_array(rng, dtype, rng.choice(ODD_SHAPES)), "segmentation")
    # (2) the top of the integer ranges
    for dtype in dd.NG_DTYPES[:4]:
        mx = dd.type_max(dtype)
        span = min(1024, mx)
        pools = [[mx], [mx, mx - 1], [mx, mx - 2, mx - 1], [mx - 1, mx - 3],
                 [mx, mx - rng.randint(2, span)], [mx - rng.randint(1, span), mx - rng.randint(1, span)]]
        shapes = [[1, 2, 2, 2], [1, 3, 1, 5], [1, 1, 2, 3]]
        for pool in pools:
            for shape in rng.sample(shapes, ctx.pick(1, 3)):
                n = shape[0] * shape[1] * shape[2] * shape[3]
                arr = np.array([pool[k % len(pool)] for k in range(n)], dtype=dtype).reshape(shape)
                for f in rng.sample(dd.AVG_FACTORS[1:], ctx.pick(2, 7)):
                    add_call(ctx, calls, "directed-limit", "average", f, rng.choice([None, mx, None]), arr)
    # (3) outside values outside the type's range (weaker reading, see the header)
    for dtype in dd.NG_DTYPES[:4]:
        for outside in dd.outside_values_out_of_type(dtype):
            for shape in rng.sample(ODD_SHAPES, ctx.pick(1, 3)):
                arr = dd.random_array(rng, dtype, shape)
                odd = [f for f in dd.AVG_FACTORS
                       if any(f[a] == 2 and shape[3 - a] % 2 for a in range(3))]
                add_call(ctx, calls, "directed-ov-out-of-type", rng.choice(["average", "auto"]),
                         rng.choice(odd), outside, arr, "image")
            # the same at the top of the type's range
            mx = dd.type_max(dtype)
            shape = rng.choice(ODD_SHAPES)
            n = shape[0] * shape[1] * shape[2] * shape[3]
            top = [mx, mx - 3, mx - 1, mx - 3]
            arr = np.array([top[k % 4] for k in range(n)], dtype=dtype).reshape(shape)
            odd = [f for f in dd.AVG_FACTORS if any(f[a] == 2 and shape[3 - a] % 2 for a in range(3))]
            add_call(ctx, calls, "directed-ov-out-of-type", "average", rng.choice(odd), outside, arr, "image")
    # (4) non-integer outside values for integer data (fully judged: Downscale!UBits)
    for dtype in dd.NG_DTYPES[:3]:
        for outside in dd.outside_values_fractional(dtype):
            for shape in rng.sample(ODD_SHAPES, ctx.pick(2, 4)):
                pool = [0, 1, 100, 101, dd.type_max(dtype), dd.type_max(dtype) - 1, 7, 8]
                n = shape[0] * shape[1] * shape[2] * shape[3]
                arr = (dd.random_array(rng, dtype, shape) if rng.random() < 0.5 else
                       np.array([rng.choice(pool) for _ in range(n)], dtype=dtype).reshape(shape))
                odd = [f for f in dd.AVG_FACTORS
                       if any(f[a] == 2 and shape[3 - a] % 2 for a in range(3))]
                add_call(ctx, calls, "directed-ov-fractional", rng.choice(["average", "average", "auto"]),
                         rng.choice(odd), outside, arr, "image")


EFFECTIVE = {("auto", "image"): "average", ("auto", "segmentation"): "stride"}


def effective(case):
    """the method a case is about, for SIG / COVERAGE fields only (the verdict
    uses TLC's own Eff)"""
    return EFFECTIVE.get((case["method"], case["itype"]), case["method"])


def split_pos(pos):
    """pos printed by TLC: first bad element, or [first bad element, deviation class]"""
    if isinstance(pos, list):
        return pos[0], pos[1]
    return pos, "n/a"


def sig_of(case, rec, clause, deviation="n/a"):
    arr = rec["arr"]
    return {"method": effective(case), "via": "auto" if case["method"] == "auto" else "direct",
            "deviation": deviation,
            "dtype": case["dtype"], "factors": case["f"],
            "outside": "none" if rec["outside"] is None else
            ("type_max" if rec["outside"] == dd.type_max(case["dtype"]) else str(rec["outside"])),
            "magnitude": magnitude_class(arr, rec["outside"]),
            "odd_axes": [int(s % 2) for s in arr.shape[1:]], "exc": case["exc"]}


def detail_of(case, rec, pos):
    arr = rec["arr"]
    out = rec["out"]
    return {"method": case["method"], "itype": case["itype"], "factors": case["f"],
            "outside": rec["outside"], "dtype": case["dtype"], "shape": case["shape"],
            "data": [str(x) for x in arr.ravel().tolist()],
            "observed": None if out is None else [str(x) for x in np.asarray(out).ravel().tolist()],
            "observed_shape": case["oshape"], "first_bad_element": pos, "exc": case["exc"],
            "msg": rec.get("msg", "")}


def judge_calls(ctx, calls):
    cases = []
    for k, (case, rec) in enumerate(calls):
        case["tid"] = k + 1
        cases.append(case)
    return ctx.judge("Trace_Downscale", cases, workers=12, chunk=4000)


def run(ctx):
    ctx.cov["rule"] = RULE
    ctx.assumptions += [
        "'edge value' completion = nearest voxel of the array (per-axis clamping); the outside value is "
        "given in the array's value domain (Python int for integer types)",
        "float32 data are dyadic values whose block means are exactly representable (exact oracle, no "
        "tolerance); float32 outside values are 0, 7, -2.5",
        "an outside value outside the range of an integer data type is judged by the shape / dtype / range "
        "clauses only and may be refused with an exception (weaker reading, module header)",
        "'auto' selects averaging for info type image and striding otherwise (documented rule, applied by TLC)",
        "TLC 1.8 evaluates the oracle faithfully; harness/downscale_driver.py only re-encodes values as "
        "exact scaled integers",
    ]
    ctx.mc("MC_Downscale", ctx.pick("MC_Downscale_quick", "MC_Downscale"), workers=16)
    bad = tlc.model_check("MC_Downscale", "MC_Downscale_sig", workers=8)
    if bad["ok"]:
        raise tlc.MachineryError("deviation switch WorkType=sig did not violate Design (vacuous model)")
    ctx.notes["switch_sig_violates"] = bad["invariant_violated"]
    # non-integer outside value on integer data (units of 1/2): pairwise half-sum on the work
    # array = BlockMean in units of 2^-u; a design that casts the outside value must fail
    ctx.mc("MC_Downscale", "MC_Downscale_frac", workers=16)
    bad = tlc.model_check("MC_Downscale", "MC_Downscale_frac_cast", workers=8)
    if bad["ok"]:
        raise tlc.MachineryError("deviation 'outside value cast to the data type' did not violate "
                                 "DesignCastAgrees (vacuous model)")
    ctx.notes["switch_cast_violates"] = bad["invariant_violated"]
    calls = []
    scope_calls(ctx, calls)
    ctx.notes["scope_calls"] = len(calls)
    random_calls(ctx, calls)
    ctx.notes["random_calls"] = len(calls) - ctx.notes["scope_calls"]
    n0 = len(calls)
    directed_calls(ctx, calls)
    ctx.notes["directed_calls"] = len(calls) - n0
    ctx.notes["calls_via_auto"] = sum(1 for c, _ in calls if c["method"] == "auto")
    verdicts = judge_calls(ctx, calls)
    changed = 0
    for case, rec in calls:
        st, clause, pos = verdicts[case["tid"]]
        pos, deviation = split_pos(pos)
        if clause.startswith("machinery:"):
            ctx.undecided("%s on %s" % (clause, json.dumps(detail_of(case, rec, pos))[:600]))
            continue
        ctx.count()
        mixed, overhang = dd.block_class(rec, rec["arr"], effective(case), case["f"])
        if mixed or overhang:
            ctx.nontrivial((case["method"], case["itype"], tuple(case["f"]), str(rec["outside"]), case["dtype"],
                            tuple(case["shape"]), hashlib.sha1(rec["arr"].tobytes()).hexdigest()))
        if not rec["input_unchanged"]:
            changed += 1
        if st != "ok":
            ctx.violation(clause, sig_of(case, rec, clause, deviation), detail_of(case, rec, pos))
        elif mixed and overhang and effective(case) == "average":
            ctx.sample({"method": case["method"], "factors": case["f"], "outside": rec["outside"],
                        "dtype": case["dtype"], "shape": case["shape"],
                        "data": [str(x) for x in rec["arr"].ravel().tolist()][:32],
                        "observed": [str(x) for x in np.asarray(rec["out"]).ravel().tolist()][:16],
                        "verdict": "ok"})
    ctx.notes["calls_that_modified_their_input"] = changed


def replay(ctx, path):
    with open(path) as f:
        rp = json.load(f)
    d = rp["detail"]
    dt = np.dtype(d["dtype"])
    if dt.kind == "f":
        arr = np.array([float(x) for x in d["data"]], dtype=np.float64).astype(dt).reshape(d["shape"])
    else:
        arr = np.array([int(x) for x in d["data"]], dtype=dt).reshape(d["shape"])
    calls = []
    add_call(ctx, calls, "replay", d["method"], tuple(d["factors"]), d["outside"], arr,
             d.get("itype", "image"))
    v = judge_calls(ctx, calls)
    case, rec = calls[0]
    print("replay: observed", detail_of(case, rec, split_pos(v[1][2])[0])["observed"], "->", v[1][1],
          "element", v[1][2])
    print("replay verdict:", v[1][1])
    ctx.cleanup()
    return 0 if v[1][0] == "ok" else 1
