"""C07 - downscalers compute the documented block statistic exactly.

M    : MC_Downscale - on all small arrays (sizes 1..3 per axis) over
       {0, 1, type max}, all factor triples and edge / constant completion the
       implementation-shaped pairwise half-sum per axis equals the oracle's
       BlockMean (exact sum / count, half-even), and the range clause follows
       from the statistic for all three methods.  Deviation switch
       WorkType = "sig" (work type with too few significant bits, as float64
       for uint64 data) must FAIL.
S->C : Gen_Downscale - every array over three abstract values on the shapes
       of the small scope is mapped to concrete values of each Neuroglancer
       data type and executed on the real downscalers point by point.
C->S : seeded random arrays (shape 1..6 per axis, 1-2 channels, five dtypes,
       values at the type limits, four outside values); every call of the
       real downscaler is judged by Trace_Downscale: oracle:Raised, OutShape,
       DType, InRange, BlockMean / Majority / Stride.
"""
import hashlib
import json

import numpy as np

from .. import downscale_driver as dd
from .. import tlc

LEVEL = "model_checking"
RULE = ("one call of a real downscaler = (method, factors, outside value, dtype, array); non-trivial when "
        "some block holds two different values (so that rounding / tie / first-voxel choices are visible) "
        "or overhangs the border; distinct = distinct (method, factors, outside, dtype, shape, content)")


def magnitude_class(arr, outside):
    if arr.dtype.kind == "f":
        return "float"
    m = int(arr.max()) if arr.size else 0
    if outside is not None:
        m = max(m, int(outside))
    # a pairwise half-sum of 8 values needs 3 bits more than the values:
    # float64 arithmetic is exact up to 2^50
    return "le2^24" if m <= 2 ** 24 else "le2^50" if m <= 2 ** 50 else "gt2^50"


def add_call(ctx, calls, origin, method, factors, outside, arr):
    case, rec = dd.run_case(method, factors, outside, arr)
    rec["origin"] = origin
    rec["arr"] = arr
    calls.append((case, rec))


def scope_calls(ctx, calls):
    """S->C: TLC-enumerated points on the real downscalers."""
    recs = ctx.export("Gen_Downscale", ctx.pick("Gen_Downscale_quick", "Gen_Downscale"),
                      workers=8, extra=["-seed", str(1 + ctx.seed)])
    pts = sorted((json.loads(r[1]) for r in recs), key=lambda p: (p["shape"], p["data"]))
    ctx.notes["scope_points_exported"] = len(pts)
    rng = ctx.rng
    for k, p in enumerate(pts):
        dtype = dd.NG_DTYPES[k % len(dd.NG_DTYPES)]
        tri = dd.concrete_triples(rng, dtype)
        vals = [tri[a] for a in p["data"]]
        if np.dtype(dtype).kind == "f":
            arr = np.array(vals, dtype=np.float64).astype(dtype).reshape(p["shape"])
        else:
            arr = np.array(vals, dtype=dtype).reshape(p["shape"])
        outs = dd.outside_values(dtype)
        small = len(p["data"]) <= ctx.pick(4, 6)
        # every averaging triple on the small points, three sampled ones beyond
        favg = [f for f in dd.AVG_FACTORS if f != (1, 1, 1) or k % 7 == 0] if small \
            else rng.sample(dd.AVG_FACTORS[1:], 3)
        for f in favg:
            add_call(ctx, calls, "scope", "average", f, rng.choice(outs), arr)
        for method in ("majority", "stride"):
            for f in rng.sample(dd.ANY_FACTORS, 2 if small else 1):
                add_call(ctx, calls, "scope", method, f, None, arr)


def random_calls(ctx, calls):
    rng = ctx.rng
    n = ctx.pick(1500, 12000)
    for k in range(n):
        dtype = dd.NG_DTYPES[k % len(dd.NG_DTYPES)]
        arr = dd.random_array(rng, dtype)
        r = rng.random()
        if r < 0.6:
            outs = dd.outside_values(dtype)
            if arr.dtype.kind == "f" and float(abs(arr).max()) > 2.0 ** 100:
                outs = [None, 0.0]      # (a small outside value next to 2^127 has no exact float32 mean)
            add_call(ctx, calls, "random", "average", rng.choice(dd.AVG_FACTORS),
                     rng.choice(outs), arr)
        elif r < 0.8:
            if arr.size > 64:        # the majority downscaler is a slow Python loop
                arr = arr[:, :4, :4, :4]
            add_call(ctx, calls, "random", "majority", rng.choice(dd.ANY_FACTORS), None, arr)
        else:
            add_call(ctx, calls, "random", "stride", rng.choice(dd.ANY_FACTORS), None, arr)


def sig_of(case, rec, clause):
    arr = rec["arr"]
    return {"method": case["method"], "dtype": case["dtype"], "factors": case["f"],
            "outside": "none" if rec["outside"] is None else
            ("type_max" if rec["outside"] == dd.type_max(case["dtype"]) else str(rec["outside"])),
            "magnitude": magnitude_class(arr, rec["outside"]),
            "odd_axes": [int(s % 2) for s in arr.shape[1:]], "exc": case["exc"]}


def detail_of(case, rec, pos):
    arr = rec["arr"]
    out = rec["out"]
    return {"method": case["method"], "factors": case["f"], "outside": rec["outside"],
            "dtype": case["dtype"], "shape": case["shape"],
            "data": [str(x) for x in arr.ravel().tolist()],
            "observed": None if out is None else [str(x) for x in np.asarray(out).ravel().tolist()],
            "observed_shape": case["oshape"], "first_bad_element": pos, "exc": case["exc"],
            "msg": rec.get("msg", "")}


def judge_calls(ctx, calls):
    cases = []
    for k, (case, rec) in enumerate(calls):
        case["tid"] = k + 1
        cases.append(case)
    return ctx.judge("Trace_Downscale", cases, workers=12, chunk=4000)


def run(ctx):
    ctx.cov["rule"] = RULE
    ctx.assumptions += [
        "'edge value' completion = nearest voxel of the array (per-axis clamping); the outside value is "
        "given in the array's value domain (Python int for integer types)",
        "float32 data are dyadic values whose block means are exactly representable (exact oracle, no "
        "tolerance); float32 outside values are 0, 7, -2.5",
        "TLC 1.8 evaluates the oracle faithfully; harness/downscale_driver.py only re-encodes values as "
        "exact scaled integers",
    ]
    ctx.mc("MC_Downscale", ctx.pick("MC_Downscale_quick", "MC_Downscale"), workers=16)
    bad = tlc.model_check("MC_Downscale", "MC_Downscale_sig", workers=8)
    if bad["ok"]:
        raise tlc.MachineryError("deviation switch WorkType=sig did not violate Design (vacuous model)")
    ctx.notes["switch_sig_violates"] = bad["invariant_violated"]
    calls = []
    scope_calls(ctx, calls)
    ctx.notes["scope_calls"] = len(calls)
    random_calls(ctx, calls)
    ctx.notes["random_calls"] = len(calls) - ctx.notes["scope_calls"]
    verdicts = judge_calls(ctx, calls)
    changed = 0
    for case, rec in calls:
        st, clause, pos = verdicts[case["tid"]]
        if clause.startswith("machinery:"):
            raise tlc.MachineryError("%s on %s" % (clause, json.dumps(detail_of(case, rec, pos))[:600]))
        ctx.count()
        mixed, overhang = dd.block_class(rec, rec["arr"], case["method"], case["f"])
        if mixed or overhang:
            ctx.nontrivial((case["method"], tuple(case["f"]), str(rec["outside"]), case["dtype"],
                            tuple(case["shape"]), hashlib.sha1(rec["arr"].tobytes()).hexdigest()))
        if not rec["input_unchanged"]:
            changed += 1
        if st != "ok":
            ctx.violation(clause, sig_of(case, rec, clause), detail_of(case, rec, pos))
        elif mixed and overhang and case["method"] == "average":
            ctx.sample({"method": case["method"], "factors": case["f"], "outside": rec["outside"],
                        "dtype": case["dtype"], "shape": case["shape"],
                        "data": [str(x) for x in rec["arr"].ravel().tolist()][:32],
                        "observed": [str(x) for x in np.asarray(rec["out"]).ravel().tolist()][:16],
                        "verdict": "ok"})
    ctx.notes["calls_that_modified_their_input"] = changed


def replay(ctx, path):
    with open(path) as f:
        rp = json.load(f)
    d = rp["detail"]
    dt = np.dtype(d["dtype"])
    if dt.kind == "f":
        arr = np.array([float(x) for x in d["data"]], dtype=np.float64).astype(dt).reshape(d["shape"])
    else:
        arr = np.array([int(x) for x in d["data"]], dtype=dt).reshape(d["shape"])
    calls = []
    add_call(ctx, calls, "replay", d["method"], tuple(d["factors"]), d["outside"], arr)
    v = judge_calls(ctx, calls)
    case, rec = calls[0]
    print("replay: observed", detail_of(case, rec, v[1][2])["observed"], "->", v[1][1], "element", v[1][2])
    print("replay verdict:", v[1][1])
    ctx.cleanup()
    return 0 if v[1][0] == "ok" else 1
