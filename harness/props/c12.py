"""C12 - file storage returns the latest stored bytes under every layout option.

M    : MC_FileStore - all store histories (<= MaxOps) x 4 writer configurations
       x MIME types x overwrite flag on the design of the accessor's path and
       probe rules: LastWriteWins, NoOverwrite, PathsDocumented hold under the
       per-name MIME policy; the deviation MimePolicy=perCall must FAIL.
S->C : behaviours produced by TLC (simulation of Gen_FileStore under both MIME
       policies) replayed on real accessors in temporary directories; after
       EVERY step the directory tree (independent strict gzip inflate), every
       name and every chunk through all four reader configurations recorded.
C->S : longer seeded random histories, same recording; all validated step by
       step by Trace_FileStore (stateful trace spec reusing FileStore).
       Path-confinement probes for the plain AND the sharded file accessor.
"""
import json

from .. import file_driver as fd

LEVEL = "model_checking"
RULE = ("a history is non-trivial when it overwrites a name/chunk, or attempts a no-overwrite store on "
        "an existing target, or is read under a configuration different from the writer's with >= 2 "
        "stored targets; distinct = distinct (writer cfg, op sequence) tuples; confinement probes: "
        "distinct (accessor, op, name spelling); dispatch life-cycle histories (Dispatch.tla): non-trivial "
        "when they contain a store, distinct = distinct operation sequences")

MIMES = ["application/octet-stream", "application/json", "image/jpeg"]


def random_ops(rng, n, per_name):
    ops = []
    for _ in range(n):
        if rng.random() < 0.5:
            name = rng.choice(fd.NAMES)
            mime = ("application/json" if name == "a" else "application/octet-stream") if per_name \
                else rng.choice(MIMES)
            ops.append({"op": "store_file", "name": name, "v": rng.choice([0, 1, 2, 3, 1, 3, 4]), "mime": mime,
                        "ow": rng.random() < 0.6})
        else:
            c = rng.choice(fd.CHUNKS)
            mime = ("application/octet-stream" if c == fd.CHUNKS[0] else "image/jpeg") if per_name \
                else rng.choice(MIMES)
            ops.append({"op": "store_chunk", "c": list(c), "v": rng.choice([0, 1, 2, 3, 1, 3, 4]), "mime": mime,
                        "ow": rng.random() < 0.6})
    return ops


def nontrivial(case):
    seen = set()
    for e in case["events"]:
        t = e["name"] if e["op"] == "store_file" else tuple(e["c"])
        if t in seen:
            return True
        seen.add(t)
    return len(seen) >= 2


def run(ctx):
    ctx.cov["rule"] = RULE
    ctx.assumptions += [
        "'one storage configuration' = the accessor options; the MIME type is a per-call argument and "
        "mixed-MIME histories on one name are inside the quantifier (DESIGN 5.C12)",
        "names that resolve INSIDE the dataset directory through '..' (a/../b) may be accepted or refused",
    ]
    ctx.mc("MC_FileStore", ctx.pick("MC_FileStore_quick", "MC_FileStore"), workers=8)
    # every reachable storage state (operation counter outside the VIEW): histories of any length
    ctx.mc("MC_FileStore", "MC_FileStore_unbounded", workers=8)
    ctx.notes["model_complete_over_history_length"] = True
    from .. import tlc
    bad = tlc.model_check("MC_FileStore", "MC_FileStore_perCall", workers=4)
    if bad["ok"]:
        raise tlc.MachineryError("deviation switch MimePolicy=perCall did not violate the oracle")
    ctx.notes["switch_perCall_violates"] = bad["invariant_violated"]

    work = ctx.scratch("verif_c12_")
    cases = []
    # S->C: TLC-generated behaviours
    n1, n2 = ctx.pick((160, 60), (3000, 1500))
    behs = []
    for cfgname, n in (("Gen_FileStore_perName", n1), ("Gen_FileStore_perCall", n2)):
        recs = ctx.export("Gen_FileStore", cfgname, simulate="num=%d" % n,
                          extra=["-depth", "8", "-seed", str(ctx.seed + 11)], workers=1)
        behs += [json.loads(r[1]) for r in recs]
    ctx.notes["behaviours_from_tlc"] = len(behs)
    for b in behs:
        case = fd.run_history(work, b["cfg"], b["ops"], salt=ctx.rng.randrange(1 << 20),
                              level=ctx.rng.choice([0, 1, 6, 9, 9]),
                              via=ctx.rng.choice(["ctor", "path", "path", "file", "precomputed", "precomputed-file", "argparse", "argparse"]))
        case["mixed"] = fd.mixed_mime(b["ops"])
        cases.append(case)
    # C->S: longer random histories
    for _ in range(ctx.pick(60, 1500)):
        cfg = ctx.rng.choice(fd.CFGS)
        per_name = ctx.rng.random() < 0.7
        ops = random_ops(ctx.rng, ctx.rng.randint(6, ctx.pick(14, 40)), per_name)
        case = fd.run_history(work, cfg, ops, salt=ctx.rng.randrange(1 << 20),
                              level=ctx.rng.choice([0, 1, 6, 9, 9]),
                              via=ctx.rng.choice(["ctor", "path", "path", "file", "precomputed", "precomputed-file", "argparse", "argparse"]))
        case["mixed"] = fd.mixed_mime(ops)
        cases.append(case)
    # confinement probes
    for kind in ("file", "sharded"):
        for op in ("store_file", "fetch_file", "file_exists"):
            for segs, is_abs in fd.CONFINE_NAMES:
                c = fd.run_confine(work, kind, op, list(segs), is_abs)
                c["mixed"] = False
                cases.append(c)

    verdicts = ctx.judge("Trace_FileStore", cases, workers=8, chunk=1000)
    for c in cases:
        ctx.count()
        st, clause, pos = verdicts[c["tid"]]
        if c["kind"] == "hist":
            if nontrivial(c):
                ctx.nontrivial(json.dumps([c["cfg"], [[e["op"], e["name"], e["c"], e["v"], e["mime"], e["ow"]]
                                                      for e in c["events"]]]))
            if st != "ok":
                e = c["events"][pos - 1]
                sig = {"kind": "hist", "via": c.get("via", "ctor"), "mixed_mime": c["mixed"], "flat": c["cfg"]["flat"],
                       "gzip": c["cfg"]["gzip"], "op": e["op"], "ow": e["ow"], "res": e["res"]}
                ctx.violation(clause, sig, {"cfg": c["cfg"], "level": c["level"], "step": pos,
                                            "ops": [{k: e2[k] for k in ("op", "name", "c", "v", "mime", "ow")}
                                                    for e2 in c["events"]],
                                            "failing_event": e})
        else:
            ctx.nontrivial(("confine", c["acc"], c["op"], tuple(c["segs"]), c["abs"]))
            if st != "ok":
                sig = {"kind": "confine", "accessor": c["acc"], "op": c["op"], "abs": c["abs"]}
                ctx.violation(clause, sig, {k: c[k] for k in ("acc", "op", "segs", "abs", "res", "cls",
                                                               "touched", "val")})
    dispatch_section(ctx, work)
    h = next(c for c in cases if c["kind"] == "hist")
    ctx.sample({"cfg": h["cfg"], "ops": [[e["op"], e["name"] or e["c"], e["v"], e["mime"], e["ow"], e["res"]]
                                         for e in h["events"]], "verdict": verdicts[h["tid"]][1]})
    cf = next(c for c in cases if c["kind"] == "confine")
    ctx.sample({k: cf[k] for k in ("acc", "op", "segs", "abs", "res", "cls", "touched")})


def dispatch_section(ctx, work):
    """Dataset life cycle through get_accessor_for_url (spec/Dispatch.tla): the metadata is written,
    replaced and made unreadable, accessors are opened in every URL form with / without the sharding
    option (and over HTTP), chunks stored, sessions closed; after every step the storage form on disk
    and the reads of freshly dispatched accessors are recorded and judged by Trace_Dispatch."""
    from .. import dispatch_driver as dd
    from .. import http_server, tlc
    ctx.mc("MC_Dispatch", "MC_Dispatch", workers=8)      # complete: operation counter outside the VIEW
    bad = tlc.model_check("MC_Dispatch", "MC_Dispatch_anyError", workers=4)
    if bad["ok"]:
        raise tlc.MachineryError("deviation switch Fallback=anyError did not violate the oracle")
    ctx.notes["switch_anyError_violates"] = bad["invariant_violated"]
    behs = []
    for cfgname, n in (("Gen_Dispatch", ctx.pick(150, 2000)), ("Gen_Dispatch_long", ctx.pick(40, 800))):
        recs = ctx.export("Gen_Dispatch", cfgname, simulate="num=%d" % n,
                          extra=["-depth", "16", "-seed", str(ctx.seed + 23)], workers=1)
        behs += [json.loads(r[1]) for r in recs]
    ctx.notes["dispatch_behaviours_from_tlc"] = len(behs)
    hists = [b["ops"] for b in behs] + dd.directed_histories()
    hists += [dd.random_history(ctx.rng, ctx.rng.randint(5, ctx.pick(12, 24))) for _ in range(ctx.pick(150, 2500))]
    srv = http_server.Server(work)
    dcases = []
    try:
        for k, ops in enumerate(hists):
            c = dd.run_history(work, ops, srv, k + 1)
            dcases.append(c)
    finally:
        srv.stop()
    verdicts = ctx.judge("Trace_Dispatch", dcases, workers=8, chunk=1000)
    for c in dcases:
        ctx.count()
        st, clause, pos = verdicts[c["tid"]]
        ops = c["ops"]
        if any(o["op"] == "store" for o in ops):
            ctx.nontrivial(json.dumps([[o.get(k) for k in ("op", "h", "scheme", "so", "k", "b", "v", "url")]
                                       for o in ops]))
        if st != "ok":
            e = c["events"][pos - 1]
            sig = {"kind": "dispatch", "op": e["op"], "scheme": e.get("scheme", ""), "so": e.get("so", ""),
                   "res": e.get("res", "")}
            ctx.violation(clause, sig, {"dispatch_ops": ops, "step": pos, "failing_event": e})
    d0 = next((c for c in dcases if any(o["op"] == "store" for o in c["ops"])), dcases[0])
    ctx.sample({"dispatch_ops": [[o.get(k) for k in ("op", "h", "scheme", "so", "k", "b", "v") if o.get(k) is not None]
                                 for o in d0["ops"]], "verdict": verdicts[d0["tid"]][1]}, limit=4)


def replay(ctx, path):
    d = json.load(open(path))["detail"]
    work = ctx.scratch("verif_c12_")
    if "dispatch_ops" in d:
        from .. import dispatch_driver as dd
        from .. import http_server
        srv = http_server.Server(work)
        try:
            case = dd.run_history(work, d["dispatch_ops"], srv, 1)
        finally:
            srv.stop()
        v = ctx.judge("Trace_Dispatch", [case])
        print("replay verdict:", v[1])
        return 0 if v[1][0] == "ok" else 1
    if "ops" in d:
        case = fd.run_history(work, d["cfg"], d["ops"], level=d.get("level", 9))
    else:
        case = fd.run_confine(work, d["acc"], d["op"], (["ABS"] if d["abs"] else []) + d["segs"], d["abs"])
    v = ctx.judge("Trace_FileStore", [case])
    print("replay verdict:", v[1])
    return 0 if v[1][0] == "ok" else 1
