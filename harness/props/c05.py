"""C05 - sharded storage returns what was stored, whatever the order of writes.

M    : MC_ShardWriter - OrderIndependent (the writer state is a function of
       the stored SET, so all permutations collapse), ReadBack, NeverStored,
       OwnReaderAgrees; the deviation switch EmptySlotRead="crash" must FAIL.
S->C : every exported behaviour (subset x permutation of small grids) replayed
       on the real accessor under both buffering strategies.
C->S : store/close/reopen/fetch cycles; real fetch_chunk on a FRESH accessor for
       EVERY grid position, file hashes per (parameters, stored map) group;
       judged by Trace_Shard (C05 mode): FetchStored, NeverStoredHasData,
       ByteIdentical, StoreRaised.
"""
import json

from .. import shard_driver as sd
from .. import tlc
from . import c04

LEVEL = "model_checking"
RULE = ("a store/close/reopen/fetch cycle is non-trivial when some minishard receives >= 2 chunks "
        "in non-ascending order or has a gap (unstored position between stored ones); distinct = "
        "distinct (grid, triple, enc, strategy, order) tuples")


def nontrivial_key(rec):
    grid = rec["cfg"]["grid"]
    ids = [sd.morton_ref(grid, s["pos"]) for s in rec["stores"]]
    out_of_order = any(a > b for a, b in zip(ids, ids[1:]))
    total = grid[0] * grid[1] * grid[2]
    gap = 0 < len(ids) < total
    if len(ids) >= 2 and (out_of_order or gap):
        return json.dumps([rec["cfg"], rec["enc"], rec["strategy"], [s["pos"] for s in rec["stores"]]])
    return None


def run(ctx):
    ctx.cov["rule"] = RULE
    ctx.assumptions += [
        "zero-length payloads are excluded (indistinguishable from gap fillers by construction of the format)",
        "a never-stored chunk may be reported as an error or as zero bytes, never as data",
    ]
    ctx.mc("MC_ShardWriter", ctx.pick("MC_ShardWriter_quick", "MC_ShardWriter"),
           workers=16, coverage=not ctx.quick)
    bad = tlc.model_check("MC_ShardWriter", "MC_ShardWriter_crash", workers=8)
    if bad["ok"]:
        raise tlc.MachineryError("deviation switch EmptySlotRead=crash did not violate OwnReaderAgrees")
    ctx.notes["switch_crash_violates"] = bad["invariant_violated"]
    cases = c04.collect(ctx, "C05")
    verdicts = ctx.judge("Trace_Shard", [c for _, c in cases], workers=8, chunk=1500)
    for rec, case in cases:
        ctx.count()
        k = nontrivial_key(rec)
        if k:
            ctx.nontrivial(k)
        st, clause, _ = verdicts[case["tid"]]
        if st != "ok":
            sig = c04.sig_of(rec, clause)
            sig["fetch_exc"] = sorted({f.get("cls", "") for f in rec["fetch"] if f["st"] == "exc"})
            has_empty = any(m["st"] == "empty" for f in rec["files"] for m in f["minis"])
            sig["has_empty_slot"] = has_empty
            ctx.violation(clause, sig,
                          {"cfg": rec["cfg"], "enc": rec["enc"], "strategy": rec["strategy"],
                           "order": [s["pos"] for s in rec["stores"]],
                           "storeerr": rec["storeerr"], "fetch": rec["fetch"],
                           "hashes": case["hashes"], "ienc": rec.get("ienc"),
                           "multiscale": rec.get("multiscale"), "scale": rec.get("scale"),
                           "coord_type": rec.get("coord_type")})
    beyond_property(ctx)
    for rec, case in cases[:2]:
        ctx.sample({"cfg": rec["cfg"], "strategy": rec["strategy"],
                    "order": [s["pos"] for s in rec["stores"]],
                    "fetch": [[f["pos"], f["st"], f.get("cls", len(f["data"]))] for f in rec["fetch"]][:8],
                    "verdict": verdicts[case["tid"]][1]})


def beyond_property(ctx):
    """Specification growth (DESIGN 9), DRIFT only: two write sessions on one dataset
    and duplicate stores (spec/ShardSessions.tla).  TLC proves the design facts
    (what stays visible after the second close; files stay well formed) and exports
    histories; the real accessor is replayed and compared with the prediction."""
    ctx.mc("MC_ShardSessions", workers=8)
    recs = ctx.export("Gen_ShardSessions", simulate="num=%d" % ctx.pick(250, 4000),
                      extra=["-depth", "9", "-seed", str(ctx.seed + 5)], workers=1)
    behs = {}
    for r in recs:
        behs[r[1]] = json.loads(r[1])
    work = ctx.scratch("verif_sess_")
    agree = 0
    keys = sorted(behs)
    if ctx.quick and len(keys) > 400:
        keys = ctx.rng.sample(keys, 400)
    for k in keys:
        b = behs[k]
        pred_dups = [e[2] for e in b["hist"] if e[0] == "dup"]
        try:
            obs = sd.run_sessions(work, b["cfg"], b["hist"], salt=ctx.seed)
        except Exception as e:      # design-layer growth: whatever the code does here is DRIFT at most
            obs = {"dups": ["raised:" + type(e).__name__], "visible": []}
        ok = obs["dups"] == pred_dups and obs["visible"] == sorted(b["visible"])
        agree += ok
        if not ok:
            ctx.note_drift("design:SessionVisibility", {"cfg": b["cfg"], "hist": b["hist"],
                                                        "predicted": {"dups": pred_dups, "visible": sorted(b["visible"])},
                                                        "observed": obs})
    ctx.notes["beyond_property_multi_session"] = {"behaviours_replayed": len(keys), "agree_with_design": agree}


replay = c04.replay
