"""C04 - sharded output is readable by any reader that follows the format.

M    : MC_ShardWriter - design layer (reorder buffer, close/assembly) implies
       the oracle (WellFormedShard, SpecLookup) on all subsets/orders of a
       bounded parameter space; the deviation switch byRank must FAIL (the
       model distinguishes slot-by-number from slot-by-rank).
S->C : behaviours exported by Gen_ShardWriter replayed on the real accessor;
       the design-predicted layout is compared (DRIFT only).
C->S : real .shard files (random grids, triples, subsets, orders, both
       encodings and strategies) re-encoded and judged by Trace_Shard (C04 mode).
"""
import json

from .. import shard_driver as sd
from .. import tlc

LEVEL = "model_checking"
RULE = ("a dataset session (grid, bit triple, encoding, strategy, stored subset, order) is "
        "non-trivial when some shard holds >= 2 chunks or uses a minishard set that is not a "
        "prefix 0..k-1; distinct = distinct (grid, triple, enc, sorted subset) tuples")


def gen_random_cfgs(ctx, n):
    rng = ctx.rng
    out = []
    for _ in range(n):
        shape = rng.choice(["small", "flat", "line", "cube", "odd"])
        if shape == "small":
            grid = [rng.randint(1, 3) for _ in range(3)]
        elif shape == "flat":
            grid = [rng.randint(2, 5), rng.randint(2, 5), 1]
            rng.shuffle(grid)
        elif shape == "line":
            grid = [1, 1, rng.randint(2, 9)]
            rng.shuffle(grid)
        elif shape == "cube":
            g = rng.choice([2, 4])
            grid = [g, g, g]
        else:
            grid = [rng.choice([3, 5]), rng.choice([2, 3]), rng.choice([1, 2, 3])]
        kind = rng.random()
        if kind < 0.08:
            pb, mb, sb = rng.choice([(60, 2, 3), (62, 1, 2), (64, 0, 1), (70, 0, 0), (63, 1, 0)])
        else:
            pb = rng.choice([0, 0, 0, 1, 2, 3])
            mb = rng.choice([0, 1, 1, 2, 2, 3, 4])
            sb = rng.choice([0, 0, 1, 1, 2, 3, 5])
        enc = rng.choice(["raw", "raw", "gzip"])
        ienc = enc if rng.random() < 0.7 else rng.choice(["raw", "gzip"])
        out.append({"grid": grid, "pb": pb, "mb": mb, "sb": sb, "enc": enc, "ienc": ienc})
    return out


def subset_and_order(ctx, cfg):
    rng = ctx.rng
    pos = sd.all_pos(cfg["grid"])
    pos.sort(key=lambda p: sd.morton_ref(cfg["grid"], p))
    mode = rng.random()
    if mode < 0.3:
        sub = list(pos)
    else:
        k = rng.randint(1, len(pos))
        sub = sorted(rng.sample(pos, k), key=lambda p: sd.morton_ref(cfg["grid"], p))
    o = rng.random()
    if o < 0.25:
        order = list(sub)
    elif o < 0.45:
        order = list(reversed(sub))
    else:
        order = list(sub)
        rng.shuffle(order)
    return sub, order


def nontrivial_key(cfg, rec):
    """Non-trivial by RULE (computed from what is on disk)."""
    multi = any(sum(len(m["ids"]) for m in f["minis"]) >= 2 for f in rec["files"])
    gaps = False
    for f in rec["files"]:
        used = [k for k, m in enumerate(f["minis"]) if m["st"] != "empty"]
        if used != list(range(len(used))):
            gaps = True
    if multi or gaps:
        return json.dumps([cfg["grid"], cfg["pb"], cfg["mb"], cfg["sb"], cfg.get("enc", "raw"),
                           sorted(map(tuple, (s["pos"] for s in rec["stores"])))])
    return None


def case_from(rec, mode, group_hashes=None):
    return {"mode": mode, "cfg": rec["cfg"], "stores": rec["stores"],
            "storeerr": rec["storeerr"], "files": rec["files"], "fetch": rec["fetch"],
            "hashes": group_hashes or [rec["hash"]]}


def sig_of(rec, clause):
    f_gaps = False
    for f in rec["files"]:
        used = [k for k, m in enumerate(f["minis"]) if m["st"] != "empty"]
        if used != list(range(len(used))):
            f_gaps = True
    return {"clause": clause, "grid": rec["cfg"]["grid"], "pb": rec["cfg"]["pb"],
            "mb": rec["cfg"]["mb"], "sb": rec["cfg"]["sb"], "enc": rec["enc"], "ienc": rec.get("ienc"),
            "strategy": rec["strategy"], "nstores": len(rec["stores"]),
            "store_errors": sorted({e["cls"] for e in rec["storeerr"]})}


def compare_layout(ctx, beh, rec):
    """design:Layout - the real file structure equals the design prediction
    (DRIFT only, never a verdict)."""
    pred = {f["name"]: f for f in beh["files"]}
    real = {f["name"]: f for f in rec["files"]}
    if set(pred) != set(real):
        ctx.note_drift("design:FileNames", {"cfg": beh["cfg"], "order": beh["order"],
                                            "pred": sorted(pred), "real": sorted(real)})
        return False
    for n in pred:
        p, r = pred[n], real[n]
        for k in ("len", "index"):
            if p[k] != r[k]:
                ctx.note_drift("design:Layout." + k, {"cfg": beh["cfg"], "order": beh["order"],
                                                      "file": n, "pred": p[k], "real": r[k]})
                return False
        for s, (pm, rm) in enumerate(zip(p["minis"], r["minis"])):
            for k in ("st", "ids", "offs", "sizes"):
                if pm[k] != rm[k]:
                    ctx.note_drift("design:Layout.minis." + k,
                                   {"cfg": beh["cfg"], "order": beh["order"], "file": n,
                                    "slot": s, "pred": pm[k], "real": rm[k]})
                    return False
    return True


class ModelPayload:
    """payload sizes as in the design layer (PaySize(id) = 1 + id % 3)."""
    def __init__(self, grid):
        self.grid = grid

    def __call__(self, pos, salt):
        n = 1 + sd.morton_ref(self.grid, pos) % 3
        base = sd.payload_for(pos, salt, maxlen=6)
        return (base * 3)[:n]


def collect(ctx, mode):
    """Shared by C04 and C05: produce recorded sessions + cases."""
    work = ctx.scratch("verif_shard_")
    cases, recs = [], []

    # --- S->C: exported behaviours of the design layer ---------------------
    behs = ctx.export("Gen_ShardWriter", ctx.pick("Gen_ShardWriter", "Gen_ShardWriter_thorough"), workers=8)
    behs = [json.loads(b[1]) for b in behs]
    behs.sort(key=lambda b: json.dumps(b, sort_keys=True))
    take = ctx.pick(350, len(behs))
    if take < len(behs):
        behs = ctx.rng.sample(behs, take)
    ctx.notes["behaviours_exported"] = len(behs)
    agree = 0
    groups = {}
    for b in behs:
        cfg = dict(b["cfg"], enc="raw")
        order = [tuple(p) for p in b["order"]]
        strategy = "in memory" if ctx.rng.random() < 0.7 else "on disk"
        rec = sd.run_session(work, cfg, order, strategy=strategy, salt=ctx.seed,
                             payload_fn=ModelPayload(cfg["grid"]))
        sd.drop_dir(rec)
        if compare_layout(ctx, b, rec):
            agree += 1
        gk = json.dumps([b["cfg"], sorted(order)])
        groups.setdefault(gk, []).append(rec)
        recs.append(rec)
    ctx.notes["design_layout_agreements"] = agree

    # --- C->S: random sessions ---------------------------------------------
    n = ctx.pick(250, 6000)
    for cfg in gen_random_cfgs(ctx, n):
        sub, order = subset_and_order(ctx, cfg)
        salt = ctx.rng.randrange(1 << 30)
        strategies = ["in memory"]
        if ctx.rng.random() < ctx.pick(0.15, 0.3):
            strategies.append("on disk")
        gk = json.dumps([cfg, sorted(sub), salt])
        for st in strategies:
            o = list(order)
            if st == "on disk":
                ctx.rng.shuffle(o)
            rec = sd.run_session(work, cfg, o, strategy=st, salt=salt)
            sd.drop_dir(rec)
            groups.setdefault(gk, []).append(rec)
            recs.append(rec)

    # --- structured orders for a few fixed grids (both strategies) ----------
    for grid, (pb, mb, sb) in [((3, 3, 1), (0, 2, 2)), ((2, 2, 2), (1, 1, 1)),
                               ((1, 1, 7), (0, 1, 1)), ((3, 4, 2), (0, 2, 1)),
                               ((5, 1, 1), (2, 1, 0))]:
        cfg = {"grid": list(grid), "pb": pb, "mb": mb, "sb": sb, "enc": "raw"}
        pos = sorted(sd.all_pos(grid), key=lambda p: sd.morton_ref(grid, p))
        subsets = [pos, pos[1:], pos[:-1], pos[::2], pos[1::2], pos[len(pos) // 2:]]
        for sub in subsets:
            if not sub:
                continue
            gk = json.dumps([cfg, sorted(sub), "structured"])
            for order in sd.structured_orders(sub):
                for st in ("in memory", "on disk"):
                    rec = sd.run_session(work, cfg, order, strategy=st, salt=7)
                    sd.drop_dir(rec)
                    groups.setdefault(gk, []).append(rec)
                    recs.append(rec)

    # --- many shards per scale (more than any bound on simultaneously open shards),
    # raster orders that keep returning to shards opened long before --------------
    for k in range(ctx.pick(6, 80)):
        grid = ctx.rng.choice([[4, 4, 2], [3, 3, 3], [5, 4, 2], [2, 9, 2]])
        cfg = {"grid": grid, "pb": 0, "mb": ctx.rng.choice([0, 1]), "sb": ctx.rng.choice([5, 6]),
               "enc": ctx.rng.choice(["raw", "gzip"])}
        pos = sd.all_pos(grid)
        raster = sorted(pos)                                   # x slowest (numpy.ndindex order)
        order = [raster, raster[::-1], sorted(pos, key=lambda p: (p[2], p[1], p[0]))][k % 3]
        if k % 4 == 3:
            order = list(pos)
            ctx.rng.shuffle(order)
        salt = ctx.rng.randrange(1 << 30)
        gk = json.dumps([cfg, "many-shards", salt])
        for st in ("in memory", "on disk") if k % 2 else ("in memory",):
            rec = sd.run_session(work, cfg, order, strategy=st, salt=salt)
            sd.drop_dir(rec)
            groups.setdefault(gk, []).append(rec)
            recs.append(rec)
    # --- a writer process that stores and ends WITHOUT calling close(): the flush is
    # the accessor's own exit handler ----------------------------------------------
    for cfg in gen_random_cfgs(ctx, ctx.pick(6, 60)):
        if cfg["pb"] > 8:
            continue
        sub, order = subset_and_order(ctx, cfg)
        salt = ctx.rng.randrange(1 << 30)
        gk = json.dumps([cfg, sorted(sub), salt, "exit-flush"])
        for st, xf in (("in memory", False), (ctx.rng.choice(["in memory", "on disk", "on disk"]), True)):
            rec = sd.run_session(work, cfg, order, strategy=st, salt=salt, exit_flush=xf)
            sd.drop_dir(rec)
            groups.setdefault(gk, []).append(rec)
            recs.append(rec)

    # --- one accessor object, closed in the middle, continued into OTHER shards; and
    # payloads handed over in a buffer that the caller re-uses -----------------------
    for cfg in gen_random_cfgs(ctx, ctx.pick(30, 500)):
        if cfg["pb"] > 8:
            continue
        sub, order = subset_and_order(ctx, cfg)
        salt = ctx.rng.randrange(1 << 30)
        gk = json.dumps([cfg, sorted(sub), salt, "continued"])
        shard_of = lambda p: (sd.morton_ref(cfg["grid"], p) >> (cfg["pb"] + cfg["mb"])) & ((1 << cfg["sb"]) - 1)  # noqa: E731
        shards = sorted({shard_of(p) for p in order})
        variants = [dict(), dict(reuse_buffer=True),
                    dict(coord_type=ctx.rng.choice(["int64", "int64", "uint64", "int32"]))]
        if len(shards) >= 2:
            first = set(ctx.rng.sample(shards, ctx.rng.randint(1, len(shards) - 1)))
            o2 = [p for p in order if shard_of(p) in first] + [p for p in order if shard_of(p) not in first]
            variants.append(dict(order=o2, close_after=sum(1 for p in order if shard_of(p) in first)))
        for v in variants:
            o = v.pop("order", order)
            rec = sd.run_session(work, cfg, o, strategy=ctx.rng.choice(["in memory", "on disk"]), salt=salt, **v)
            sd.drop_dir(rec)
            groups.setdefault(gk, []).append(rec)
            recs.append(rec)

    # --- identifiers with more than 53 significant bits (grids of 2^18 / 2^20 chunks per
    # axis; one chunk per shard so that no gap filling is needed) and shard-bit counts
    # whose total with the other two exceeds the identifier width ---------------------
    for e, sb_choices in ((18, (54, 53)), (20, (60, 59))):
        g = 1 << e
        for sbits in sb_choices:
            cfg = {"grid": [g, g, g], "pb": 0, "mb": 3 * e - sbits, "sb": sbits, "enc": ctx.rng.choice(["raw", "gzip"])}
            far = [(g - 1, g - 1, g - 1), (g - 1, g - 2, g - 1), (g - 2, g - 1, g - 1), (1, 0, 0), (0, 0, 0),
                   (g - 1, 0, g - 1), tuple(ctx.rng.randrange(g) for _ in range(3))]
            far = sorted(set(far), key=lambda p: sd.morton_ref(cfg["grid"], p))
            never = [(g - 1, g - 1, g - 2), (0, 1, 0)]
            salt = ctx.rng.randrange(1 << 30)
            gk = json.dumps([cfg, "huge-ids", salt])
            for order in (far, far[::-1]):
                rec = sd.run_session(work, cfg, order, strategy="in memory", salt=salt,
                                     fetch_positions=far + never)
                sd.drop_dir(rec)
                groups.setdefault(gk, []).append(rec)
                recs.append(rec)
    for (pb, mb, sbits) in ((0, 4, 62), (0, 0, 70), (1, 5, 64), (0, 2, 66)):
        cfg = {"grid": [3, 2, 2], "pb": pb, "mb": mb, "sb": sbits, "enc": "raw"}
        pos = sd.all_pos(cfg["grid"])
        ctx.rng.shuffle(pos)
        gk = json.dumps([cfg, "wide-shard-bits"])
        for st in ("in memory", "on disk"):
            rec = sd.run_session(work, cfg, pos, strategy=st, salt=3)
            sd.drop_dir(rec)
            groups.setdefault(gk, []).append(rec)
            recs.append(rec)

    # --- several scales of ONE dataset written through ONE accessor object, stores of the
    # scales interleaved: grids that lose a Morton bit from one scale to the next, scales
    # with different sharding parameters and encodings --------------------------------
    pyramids = [[(5, 3, 2), (3, 2, 1)], [(3, 3, 1), (2, 2, 1), (1, 1, 1)], [(4, 3, 2), (2, 2, 1)],
                [(2, 5, 3), (1, 3, 2), (1, 2, 1)], [(6, 2, 2), (3, 1, 1)]]
    for k in range(ctx.pick(10, 150)):
        grids = pyramids[k % len(pyramids)]
        same = k % 3 == 0
        t0 = (ctx.rng.choice([0, 0, 1]), ctx.rng.choice([0, 1, 2]), ctx.rng.choice([0, 1, 2]))
        cfgs = []
        for g in grids:
            pb, mb, sb = t0 if same else (ctx.rng.choice([0, 0, 1]), ctx.rng.choice([0, 1, 2]), ctx.rng.choice([0, 1, 2]))
            enc = ctx.rng.choice(["raw", "gzip"])
            cfgs.append({"grid": list(g), "pb": pb, "mb": mb, "sb": sb, "enc": enc,
                         "ienc": enc if ctx.rng.random() < 0.7 else ctx.rng.choice(["raw", "gzip"])})
        order = [(j, p) for j, c in enumerate(cfgs) for p in sd.all_pos(c["grid"]) if ctx.rng.random() < 0.9]
        if k % 2:
            ctx.rng.shuffle(order)          # interleaved; else scale after scale (compute-scales order)
        salt = ctx.rng.randrange(1 << 30)
        rs = sd.run_multiscale(work, cfgs, order, strategy=ctx.rng.choice(["in memory", "in memory", "on disk"]), salt=salt)
        for r in rs:
            groups.setdefault(json.dumps([cfgs, order, salt, r["scale"], "multiscale"]), []).append(r)
            recs.append(r)

    framing = set()
    for gk, rs in groups.items():
        hashes = sorted({r["hash"] for r in rs})
        for r in rs:
            gh = [rs[0]["hash"], r["hash"]]
            cases.append((r, case_from(r, mode, gh)))
            framing.update(r["framing"])
    ctx.notes["compressed_framing_observed"] = sorted(framing)
    ctx.notes["sessions"] = len(recs)
    ctx.notes["order_groups"] = len(groups)
    return cases


def run_mc(ctx):
    r = ctx.mc("MC_ShardWriter", ctx.pick("MC_ShardWriter_quick", "MC_ShardWriter"),
               workers=16, coverage=not ctx.quick)
    # the model must be able to tell slot-by-rank from slot-by-number
    bad = tlc.model_check("MC_ShardWriter", "MC_ShardWriter_byRank", workers=8)
    if bad["ok"]:
        raise tlc.MachineryError("deviation switch byRank did not violate the oracle (vacuous model)")
    ctx.notes["switch_byRank_violates"] = bad["invariant_violated"]
    return r


def run(ctx):
    ctx.cov["rule"] = RULE
    ctx.assumptions += [
        "the 'gzip' encodings of the sharded format are accepted in either RFC1950 or RFC1952 framing (DESIGN 5.C04)",
        "TLC 1.8 evaluates the oracle faithfully; harness/parsers.py only re-encodes bytes",
    ]
    run_mc(ctx)
    cases = collect(ctx, "C04")
    verdicts = ctx.judge("Trace_Shard", [c for _, c in cases], workers=8, chunk=1500)
    for (rec, case) in cases:
        ctx.count()
        k = nontrivial_key(rec["cfg"] | {"enc": rec["enc"]}, rec)
        if k:
            ctx.nontrivial(k)
        st, clause, _ = verdicts[case["tid"]]
        if st != "ok":
            ctx.violation(clause, sig_of(rec, clause),
                          {"cfg": rec["cfg"], "enc": rec["enc"], "ienc": rec.get("ienc"), "strategy": rec["strategy"],
                           "order": [s["pos"] for s in rec["stores"]],
                           "storeerr": rec["storeerr"], "files": rec["files"],
                           "multiscale": rec.get("multiscale"), "scale": rec.get("scale"),
                           "coord_type": rec.get("coord_type")})
    for rec, case in cases[:2]:
        ctx.sample({"cfg": rec["cfg"], "enc": rec["enc"], "order": [s["pos"] for s in rec["stores"]],
                    "files": [{"name": f["name"], "len": f["len"], "index": f["index"]} for f in rec["files"]],
                    "verdict": verdicts[case["tid"]][1]})


def replay(ctx, path):
    with open(path) as f:
        rp = json.load(f)
    d = rp["detail"]
    work = ctx.scratch("verif_shard_")
    cfg = dict(d["cfg"], enc=d.get("enc", "raw"), ienc=d.get("ienc"))
    if d.get("multiscale"):
        m = d["multiscale"]
        rec = sd.run_multiscale(work, m["cfgs"], [(j, tuple(q)) for j, q in m["order"]],
                                strategy=m["strategy"], salt=m["salt"])[d["scale"]]
    else:
        rec = sd.run_session(work, cfg, [tuple(p) for p in d["order"]],
                             strategy=d.get("strategy", "in memory"), salt=0, coord_type=d.get("coord_type"))
        sd.drop_dir(rec)
    case = case_from(rec, ctx.prop)
    v = ctx.judge("Trace_Shard", [case])
    print("replay verdict:", v[1])
    ctx.cleanup()
    return 0 if v[1][0] == "ok" else 1
