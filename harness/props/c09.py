"""C09 - chunk identifiers and shard routing follow the specification.

M    : MC_Morton - the compressed Morton code definition is injective, bounded,
       monotone and dense on all grids <= 6^3 (+ lines up to 64); the package's
       mask arithmetic (transcribed at identifier width 8) equals the oracle
       routing for every bit triple with total 0..12 (beyond the width).
S->C : the same grids exhaustively on the real get_cmc (every position incl.
       the outer boundary, -1, off-lattice), and sampled grids up to 2^21
       chunks per axis; routing for triples with totals 0..70.
       TLC (Trace_Morton) compares bit sequences with the oracle.
"""
import contextlib
import io
import itertools

from ..parsers import bits

LEVEL = "model_checking"
RULE = ("case = (grid, chunk size, position) or (bit triple, identifier); non-trivial: position on "
        "the outer boundary / off the lattice / negative, or a grid whose axes drop out of the "
        "interleaving at different bit levels, or a triple whose masks cut the identifier; "
        "distinct = distinct (grid, position) / (triple, id) tuples")


def cmc_items(spec_cls, size, cs, mins_list):
    from neuroglancer_scripts.sharded_base import ShardedIOError
    try:
        vs = spec_cls([cs, cs, cs], list(size))
    except Exception as e:
        # the volume description itself was refused: every position counts as refused (TLC decides
        # whether the grid is one the identifier can hold)
        st = "rejected" if isinstance(e, ShardedIOError) else "exc"
        return [{"c": list(m), "st": st, "bits": [], "cls": type(e).__name__} for m in mins_list]
    items = []
    for k, m in enumerate(mins_list):
        coords = [m[0], m[0] + cs, m[1], m[1] + cs, m[2], m[2] + cs]
        if k % 5 == 4 and all(-2 ** 62 < v < 2 ** 62 for v in coords):
            # coordinates computed with numpy arrive as numpy integer scalars
            import numpy as np
            coords = [np.int64(v) for v in coords]
        try:
            r = vs.get_cmc(coords)
            items.append({"c": list(m), "st": "id", "bits": bits(int(r))})
        except ShardedIOError:
            items.append({"c": list(m), "st": "rejected", "bits": []})
        except Exception as e:
            items.append({"c": list(m), "st": "exc", "bits": [], "cls": type(e).__name__})
    return items


def run(ctx):
    from neuroglancer_scripts import sharded_base as sb
    from neuroglancer_scripts import sharded_file_accessor as sfa
    import numpy as np
    ctx.cov["rule"] = RULE
    ctx.assumptions += ["only integer coordinates are offered; acceptance is judged on the chunk minima "
                        "(the identifier does not depend on the maxima)"]
    ctx.mc("MC_Morton", ctx.pick("MC_Morton_quick", "MC_Morton"), workers=16)
    cases = []
    rng = ctx.rng
    # --- exhaustive small grids, every position incl. outside ones ----------
    maxg = ctx.pick(4, 6)
    grids = list(itertools.product(range(1, maxg + 1), repeat=3))
    grids += [(1, 1, n) for n in (7, 9, 17, 33, 64)] + [(n, 1, 2) for n in (5, 8, 31)]
    for g in grids:
        cs = rng.choice([1, 2, 3, 4, 64])
        # sizes: last chunk partial where possible
        size = [gi * cs - (rng.randrange(cs) if gi > 1 or cs > 1 else 0) for gi in g]
        size = [max(s, (gi - 1) * cs + 1) for s, gi in zip(size, g)]
        rng_axes = [list(range(-1, gi + 2)) for gi in g]
        mins = [(x * cs, y * cs, z * cs) for x in rng_axes[0] for y in rng_axes[1] for z in rng_axes[2]]
        if cs > 1:   # off-lattice: on one, two or three axes at once
            for _ in range(6):
                p = [rng.randrange(gi) * cs for gi in g]
                d = rng.randrange(3)
                p[d] += rng.randrange(1, cs)
                mins.append(tuple(p))
            if cs <= 4:
                rems = [r for r in itertools.product(range(cs), repeat=3) if any(r)]
            else:
                rems = []
                for _ in range(24):
                    a, b = rng.randrange(1, cs), rng.randrange(cs)
                    rems += [(a, cs - a, 0), (0, a, cs - a), (a, b, (-a - b) % cs), (a, a, a),
                             (rng.randrange(cs), rng.randrange(1, cs), rng.randrange(cs))]
                rems = [r for r in rems if any(r)]
            base = [rng.randrange(gi) * cs for gi in g]
            for r in rems:
                mins.append(tuple(base[d] + r[d] for d in range(3)))
        items = cmc_items(sb.ShardVolumeSpec, size, cs, mins)
        cases.append({"kind": "cmc", "size": size, "cs": cs, "items": items, "pb": 0, "mb": 0, "sb": 0})
    # --- sampled large grids -------------------------------------------------
    # grids whose per-axis chunk counts are exact powers of two with 62..64 identifier bits in total
    # (the widest grids the identifier can hold)
    directed = [[2 ** 21, 2 ** 21, 2 ** 20], [2 ** 21, 2 ** 21, 2 ** 21], [2 ** 20, 2 ** 21, 2 ** 21],
                [2 ** 21, 2 ** 20, 2 ** 21], [2 ** 22, 2 ** 21, 2 ** 21], [2 ** 21, 2 ** 21, 2 ** 22],
                [2 ** 16, 2 ** 24, 2 ** 24], [2 ** 21 + 1, 2 ** 21, 2 ** 20]]      # (coordinates stay below 2^31: TLC integers)
    for k in range(ctx.pick(150, 4000)):
        g = list(directed[k]) if k < len(directed) else \
            [rng.choice([1, 2, 3, 5, 7, 100, 1000, 4097, 65536, 2 ** 20 + 1, 2 ** 21])
             if rng.random() < 0.7 else rng.randint(1, 2 ** 21) for _ in range(3)]
        nb = sum(max(0, (x - 1).bit_length()) for x in g)
        cs = rng.choice([1, 1, 2, 64]) if max(g) < 2 ** 20 else 1
        size = [gi * cs for gi in g]
        mins = []
        for _ in range(12):
            p = []
            for gi in g:
                r = rng.random()
                if r < 0.15:
                    p.append(gi * cs)            # outer boundary
                elif r < 0.3:
                    p.append((gi - 1) * cs)
                elif r < 0.35:
                    p.append(-cs)
                elif r < 0.4:
                    p.append((gi + rng.randint(1, 5)) * cs)
                else:
                    p.append(rng.randrange(gi) * cs)
            mins.append(tuple(p))
        if nb > 64:
            continue
        items = cmc_items(sb.ShardVolumeSpec, size, cs, mins)
        cases.append({"kind": "cmc", "size": size, "cs": cs, "items": items, "pb": 0, "mb": 0, "sb": 0})
    # --- routing ------------------------------------------------------------
    work = ctx.scratch("verif_c09_")
    triples = [(p, m, s) for p in (0, 1, 2, 5) for m in (0, 1, 2, 3, 6) for s in (0, 1, 2, 4, 5, 9)]
    triples += [(60, 2, 3), (62, 1, 2), (64, 0, 1), (70, 0, 0), (0, 32, 32), (1, 40, 23), (0, 64, 0),
                (0, 0, 64), (3, 30, 37), (0, 63, 1), (63, 1, 6), (10, 20, 40)]
    for _ in range(ctx.pick(40, 400)):
        triples.append((rng.randint(0, 70), rng.randint(0, 40), rng.randint(0, 40)))
    vol = sb.ShardVolumeSpec([64, 64, 64], [128, 128, 128])
    import json
    import os
    routed = []
    for n, (pb, mb, sbits) in enumerate(triples):
        routed.append(((pb, mb, sbits), "direct", lambda pb=pb, mb=mb, sbits=sbits:
                       sb.ShardSpec(mb, sbits, preshift_bits=pb)))
        # the specification as the --sharding option path writes it into an info (to_dict) and an
        # accessor reads it back
        routed.append(((pb, mb, sbits), "option-dict", lambda pb=pb, mb=mb, sbits=sbits:
                       sb.ShardSpec(**{k: v for k, v in sb.ShardSpec(mb, sbits, preshift_bits=pb).to_dict().items()
                                       if k != "@type"})))
        # the specification as the accessors obtain it from a dataset's info file:
        # the writer's path (get_volume_shard_spec) and the readers' (get_sharding_spec)
        d = os.path.join(work, "ds%d" % n)
        os.makedirs(d)
        with open(os.path.join(d, "info"), "w") as f:
            json.dump({"type": "image", "data_type": "uint8", "num_channels": 1, "scales": [{
                "key": "k", "size": [128, 128, 128], "chunk_sizes": [[64, 64, 64]], "resolution": [1, 1, 1],
                "voxel_offset": [0, 0, 0], "encoding": "raw",
                "sharding": {"@type": "neuroglancer_uint64_sharded_v1", "preshift_bits": pb,
                             "minishard_bits": mb, "shard_bits": sbits, "hash": "identity",
                             "minishard_index_encoding": "raw", "data_encoding": "raw"}}]}, f)
        routed.append(((pb, mb, sbits), "writer-info", lambda d=d:
                       sfa.ShardedFileAccessor(d).get_volume_shard_spec("k")[1]))
        routed.append(((pb, mb, sbits), "reader-info", lambda d=d:
                       sb.ShardSpec(**sfa.ShardedFileAccessor(d).get_sharding_spec("k"))))
    for (pb, mb, sbits), source, make in routed:
        try:
            spec = make()
        except Exception as e:
            if source == "direct":
                raise
            # the accessor refuses this triple when reading the info: not a routing fact
            ctx.notes.setdefault("triples_refused_by_accessor", []).append([pb, mb, sbits, source, type(e).__name__])
            continue
        with contextlib.redirect_stdout(io.StringIO()):
            scale = sfa.ShardedScale(work, "k", spec, vol)
        items = []
        ids = [0, 1, 2, 3, 7, 255, 2 ** 32 - 1, 2 ** 32, 2 ** 63, 2 ** 64 - 1, 0xDEADBEEFCAFEF00D]
        ids += [rng.getrandbits(rng.choice([8, 16, 33, 64])) for _ in range(ctx.pick(6, 20))]
        for v in ids:
            cmc = np.uint64(v)
            try:
                sk = scale.get_shard_key(cmc)
                mk = scale.get_minishard_key(cmc)
                shard = sfa.Shard(scale.base_dir, sk, spec)
                name = shard.file_path.name
                if not name.endswith(".shard"):
                    name = "!" + name
                else:
                    name = name[:-len(".shard")]
                items.append({"id": bits(v), "shard": bits(int(sk)), "mini": bits(int(mk)), "name": name})
            except Exception as e:
                items.append({"id": bits(v), "shard": [2], "mini": [2], "name": "exc:" + type(e).__name__})
        cases.append({"kind": "route", "size": [1, 1, 1], "cs": 1, "pb": pb, "mb": mb, "sb": sbits, "items": items,
                      "source": source})

    verdicts = ctx.judge("Trace_Morton", cases, workers=8, chunk=400)
    for c in cases:
        n = len(c["items"])
        ctx.count(n)
        if c["kind"] == "cmc":
            g = [-(-s // c["cs"]) for s in c["size"]]
            for it in c["items"]:
                p = [v // c["cs"] for v in it["c"]]
                off = any(v % c["cs"] for v in it["c"])
                edge = any(p[d] in (-1, g[d], g[d] - 1) for d in range(3))
                uneven = len({max(0, (x - 1).bit_length()) for x in g}) > 1
                if off or edge or uneven:
                    ctx.nontrivial(("cmc", tuple(c["size"]), c["cs"], tuple(it["c"])))
        else:
            for it in c["items"]:
                if c["pb"] + c["mb"] + c["sb"] > 0:
                    ctx.nontrivial(("route", c.get("source"), c["pb"], c["mb"], c["sb"], tuple(it["id"])))
        st, clause, pos = verdicts[c["tid"]]
        if st != "ok":
            it = c["items"][pos - 1]
            if c["kind"] == "cmc":
                g = [-(-s // c["cs"]) for s in c["size"]]
                p = [v // c["cs"] for v in it["c"]]
                sig = {"kind": "cmc", "on_outer_boundary": any(p[d] == g[d] for d in range(3)),
                       "beyond": any(p[d] > g[d] for d in range(3)), "negative": any(v < 0 for v in it["c"]),
                       "off_lattice": any(v % c["cs"] for v in it["c"]), "result": it["st"]}
            else:
                sig = {"kind": "route", "source": c.get("source", "direct"), "pb": c["pb"], "mb": c["mb"], "sb": c["sb"],
                       "total_gt_64": c["pb"] + c["mb"] + c["sb"] > 64}
            ctx.violation(clause, sig, {"case": {k: v for k, v in c.items() if k != "items"}, "item": it})
    ctx.sample({"size": cases[0]["size"], "cs": cases[0]["cs"], "first_items": cases[0]["items"][:4]})
    ctx.sample({k: cases[-1][k] for k in ("kind", "pb", "mb", "sb")} | {"first_items": cases[-1]["items"][:2]})


def replay(ctx, path):
    import json
    from neuroglancer_scripts import sharded_base as sb
    d = json.load(open(path))["detail"]
    c = d["case"]
    if c["kind"] != "cmc":
        print("replay of route cases: rerun ./check C09")
        return 2
    c["items"] = cmc_items(sb.ShardVolumeSpec, c["size"], c["cs"], [d["item"]["c"]])
    v = ctx.judge("Trace_Morton", [c])
    print("replay verdict:", v[1])
    return 0 if v[1][0] == "ok" else 1
