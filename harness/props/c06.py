"""C06 - each pyramid level equals the whole previous level downscaled once.

M    : MC_PyramidAssembly - the per-axis octant assembly (state machine + NumPy
       assignment semantics + provenance) for every old size 1..40, chunks
       {1,2,4,8,16}^2, factor 1|2: outcome classes Correct / Error / SilentWrong
       reported; Correct => level = global downscale (provenance and value
       level); closed form = voxel model; the pairs the code was written for
       are all Correct; with the switch AssignRule = "strict" (the code's
       fill() helper) NoSilentWrong HOLDS on the whole pair space, with
       "numpy" (length-1 broadcast) it must FAIL.  MC_PyramidAssembly2D: the
       2-D outcome is the product of the 1-D outcomes.
S->C : every per-axis class exported by Gen_PyramidAssembly (o, n, f, outcome,
       representative sizes) is combined into 3-D infos and run through the REAL
       compute_dyadic_scales (three methods, 1-3 channels, raw /
       compressed_segmentation, deep / flat / gzip / sharded) TWICE with
       np.empty poisoned by two patterns; infos produced by the REAL scale
       generator (isotropic to strongly anisotropic) are run the same way.
       Trace_PyramidAssembly (mode level) judges each transition against the
       implementation's own downscaler applied to the whole previous level.
       Entry paths: the library (get_downscaler(method, info, options) +
       compute_dyadic_scales) and, for about a third of the runs, the command
       line entry point scripts.compute_scales.main(argv) in this process
       (--downscaling-method, --outside-value, --flat, --no-gzip).  Methods:
       stride / average / majority by name and the default "auto" (image ->
       average with the configured outside value, segmentation -> stride; TLC
       applies the documented rule to choose between the two recorded
       references); the reference downscaler is constructed directly from its
       class, never through get_downscaler.  Directed jobs: "auto" with an
       outside value on odd-sized generator infos through both entry paths.
       Volumes: pairwise distinct values, random values (with empty margins),
       LABEL IMAGES (few labels incl. the top of the type's range, large
       uniform regions, further channels identical / mirrored / over the same
       labels: multi-channel compressed_segmentation blocks of different
       channels then hold the same label sets) and, for averaging, uint64
       values from 2^53 to 2^64 - 1 on odd sizes (float64 arithmetic is
       inexact there, yet chunk-wise and whole-array results must coincide
       because the property defines the level by ONE application of the method
       to the whole scale); uint64 voxels travel to TLC as three 30/30/4-bit
       integers each.  Directed jobs of both kinds on generator infos through
       compute-scales main and the library.
       Function-API runs RE-USE one downscaler object per (method, outside
       value, info type) for all pyramids of the run (different data types,
       channel counts, sizes); a directed sequence uint8, uint16, float32,
       uint32, uint8, uint64 shares one averaging object of its own.
       Tool level (last clause): infos the tool cannot process - per-axis
       pairs the model classifies as Error (hand-edited chunk sizes) and size
       pairs related by a factor 3 - go through compute_scales.main(argv); a
       zero exit status (main returns None / 0) obliges every level to exist
       and equal the global downscale, whatever the info:
       oracle:FailsInsteadOfWrongData otherwise.
       Third entry path: the all-in-one tool
       scripts.volume_to_precomputed_pyramid.main(argv) on NIfTI files (> 128
       voxels on one axis so that the fixed target chunk 64 yields a second
       scale) with --type image / segmentation / none, --encoding, default
       method; TLC applies the documented selection rule to the type of the
       FINAL info read back from the dataset; transition 0 starts from the
       first scale as the tool's conversion step stored it.
       Source faults (last clause of the property): on pairs that are
       processable, one chunk of the PRECEDING scale is removed, given a bad
       gzip magic number or truncated right before the step that reads it
       (sharded: one chunk of the first scale is never written); allowed
       outcomes are an error or a level equal to the global downscale of the
       intact preceding scale - oracle:FailsInsteadOfWrongData otherwise.
C->S : provenance traces through recording reader / writer objects with
       striding on coordinate-coded volumes (mode prov).
"""
import json

import numpy as np

from .. import pyramid_driver as pd
from .. import tlc

LEVEL = "model_checking"
RULE = ("one evaluation = one scale transition of one real run (level case: two poisoned runs "
        "+ global reference, optionally with one source chunk of the preceding scale removed / "
        "damaged before the step; provenance case: one recorded run); non-trivial when the new level "
        "has >= 2 voxels; distinct = distinct (per-axis instances, origin, method or 'auto' + info "
        "type, entry path lib / cli / all-in-one, outside value, dtype, channels, encoding, storage, source "
        "fault, mode)")
LET = {"C": "Correct", "E": "Error", "S": "SilentWrong"}
METHODS = ["stride", "average", "majority"]
FAULT_KINDS = {"deep": ["missing", "truncated"], "flat": ["missing", "truncated"],
               "gzip": ["missing", "badgzip"], "sharded": ["missing"]}
STORAGES = ["deep", "flat", "gzip", "sharded"]


# ------------------------------------------------------------------- M ------
def run_mc(ctx):
    r = ctx.mc("MC_PyramidAssembly", ctx.pick("MC_PyramidAssembly_quick", "MC_PyramidAssembly"),
               workers=16, coverage=not ctx.quick)
    cl = tlc.records(r["out"], "CLASSES")
    if cl:
        _, n, nc, ne, ns, ns_nobc, ns_other = cl[0]
        ctx.notes["per_axis_classes"] = {"instances": n, "Correct": nc, "Error": ne,
                                         "SilentWrong": ns,
                                         "SilentWrong_without_broadcast": ns_nobc,
                                         "SilentWrong_outside_half1_new_ge4": ns_other}
    # deviation switch AssignRule: with "strict" (the code's fill()) the main
    # run above proves NoSilentWrong on the WHOLE pair space; with "numpy"
    # (length-1 broadcast) it must FAIL (non-vacuity)
    ctx.notes["switches"] = {"AssignRule": "strict"}
    bad = tlc.model_check("MC_PyramidAssembly", "MC_PyramidAssembly_nosw", workers=8)
    if bad["ok"] or "NoSilentWrong" not in bad["invariant_violated"]:
        raise tlc.MachineryError("AssignRule=numpy does not violate NoSilentWrong (vacuous model)")
    ctx.notes["AssignRule_numpy_violates"] = bad["invariant_violated"]
    ctx.mc("MC_PyramidAssembly", "MC_PyramidAssembly_intended", workers=16)
    ctx.mc("MC_PyramidAssembly2D", ctx.pick("MC_PyramidAssembly2D_quick", "MC_PyramidAssembly2D"),
           workers=16)
    # unbounded complement: rounding the size up level by level equals rounding up once
    # (ceil(ceil(n/a)/b) = ceil(n/(a*b)) for every n, a, b) - proved with the TLA+ proof
    # system; reported, not a verdict
    pr = tlc.tlaps_check("CeilHalving")
    ctx.notes["tlaps_CeilHalving"] = {k: pr[k] for k in ("ok", "obligations", "proved")}
    if not pr["ok"]:
        print("PROOF-INCOMPLETE property=C06 CeilHalving: %d/%d obligations proved" % (pr["proved"], pr["obligations"]))
    if not ctx.quick:
        # the other invariants and the factorisation also hold for plain NumPy assignment
        ctx.mc("MC_PyramidAssembly", "MC_PyramidAssembly_numpy", workers=16)
        ctx.mc("MC_PyramidAssembly2D", "MC_PyramidAssembly2D_numpy", workers=16)


# ------------------------------------------------------------ S->C inputs ---
def class_table(ctx):
    recs = [json.loads(b[1]) for b in ctx.export("Gen_PyramidAssembly", workers=4)]
    table = [r for r in recs if "outs" in r]
    table.sort(key=lambda r: (r["o"], r["n"], r["f"]))
    emittable = [r["emittable"] for r in recs if "emittable" in r][0]
    ctx.notes["emittable_triples_design"] = sorted(emittable)
    ctx.notes["emittable_not_intended"] = sorted(
        t for t in emittable if t[0] // t[2] == 0 or t[1] not in (t[0] // t[2], 2 * (t[0] // t[2])))
    return table


def axis_classes(ctx, table):
    """(o, n, f, outcome, size) representatives of every class TLC found"""
    rng = ctx.rng
    out = []
    for r in table:
        for letter in "CES":
            sizes = [s + 1 for s, ch in enumerate(r["outs"]) if ch == letter
                     and not (r["f"] == 2 and s + 1 == 1)]     # size 1 cannot be halved
            if not sizes:
                continue
            small = [s for s in sizes if s <= 34]
            picks = {sizes[0], small[-1] if small else sizes[0]}
            extra = ctx.pick(1, 4)
            for _ in range(extra):
                picks.add(rng.choice(small or sizes))
            # the first size of each residue class of the outcome pattern boundary
            for s in sizes:
                if s - 1 not in sizes and s <= 34:
                    picks.add(s)
            for s in sorted(picks):
                out.append({"o": r["o"], "n": r["n"], "f": r["f"], "size": s,
                            "outcome": LET[letter], "emit": r["emit"]})
    return out


def fillers(table):
    """small Correct per-axis instances used on the other two axes"""
    out = []
    for r in table:
        for s, ch in enumerate(r["outs"][:6]):
            if ch == "C" and not (r["f"] == 2 and s == 0):
                out.append({"o": r["o"], "n": r["n"], "f": r["f"], "size": s + 1})
    return out


def info_from_axes(axes):
    s0 = {"key": "s0", "size": [a["size"] for a in axes], "chunk": [a["o"] for a in axes]}
    s1 = {"key": "s1", "size": [-(-a["size"] // a["f"]) for a in axes],
          "chunk": [a["n"] for a in axes]}
    return [s0, s1]


def cubic(scales):
    return all(len(set(s["chunk"])) == 1 for s in scales)


def pick_variant(ctx, voxels, cseg_ok=True, scales=None):
    rng = ctx.rng
    method = rng.choice((METHODS if voxels <= 1500 else ["stride", "average"]) + ["auto"])
    # "auto": the info's type attribute selects averaging (image) or striding
    itype = rng.choice(["image", "image", "segmentation"]) if method == "auto" else None
    averaging = method == "average" or itype == "image"
    if averaging:
        dtype = rng.choice(["uint8", "uint16", "uint32", "float32", "uint64"])
    else:
        dtype = rng.choice(["uint16", "uint32", "uint64", "uint32"])
    channels = rng.choice([1, 1, 2, 3])
    enc = "raw"
    if cseg_ok and dtype in ("uint32", "uint64") and rng.random() < 0.35 and itype != "image":
        enc = "compressed_segmentation"
    if itype is None:
        itype = "segmentation" if enc == "compressed_segmentation" else "image"
    # the sharded accessor refuses non-cubic chunks by design (explicit error)
    if scales is not None and cubic(scales):
        storage = rng.choice(STORAGES + ["sharded", "sharded"])
    else:
        storage = rng.choice(STORAGES[:3])
    kind = "random" if (averaging and rng.random() < 0.6) else "unique"
    if not averaging and rng.random() < (0.75 if (enc == "compressed_segmentation" and channels >= 2) else 0.35):
        kind = "labels"     # label image: uniform regions, channels sharing their label sets
    if averaging and dtype == "uint64" and rng.random() < 0.6:
        kind = "big"        # values >= 2^53 (up to the top of the range): float64 averaging is inexact
    # --outside-value of the averaging method (border blocks completed with it)
    outside = rng.choice([None, None, 0, 7, 100.5]) if averaging else None      # (the option is a float)
    if method == "auto":
        outside = rng.choice([None, 0, 7, 2.5])      # (irrelevant when striding is selected)
    via = rng.choice(["lib", "lib", "cli"])
    return {"method": method, "itype": itype, "dtype": dtype, "channels": channels, "encoding": enc,
            "storage": storage, "kind": kind, "outside": outside, "via": via,
            "explicit_auto": rng.random() < 0.5}


def handmade_jobs(ctx, table):
    rng = ctx.rng
    classes = axis_classes(ctx, table)
    fill = fillers(table)
    jobs = []
    per_class = ctx.pick(1, 4)
    if ctx.quick:
        # one representative per (o, n, f, outcome) + every size boundary of the emittable ones
        seen = set()
        sel = []
        for c in classes:
            k = (c["o"], c["n"], c["f"], c["outcome"])
            if k not in seen or (c["emit"] and rng.random() < 0.5):
                seen.add(k)
                sel.append(c)
        classes = sel
    for c in classes:
        for _ in range(per_class):
            pos = rng.randrange(3)
            others = []
            budget = max(2, 700 // max(1, c["size"]))
            for _k in range(2):
                cand = [f for f in fill if f["size"] * (others[0]["size"] if others else 1) <= budget]
                others.append(rng.choice(cand or [{"o": 1, "n": 1, "f": 1, "size": 1}]))
            main = {k: c[k] for k in ("o", "n", "f", "size")}
            axes = others[:]
            axes.insert(pos, main)
            jobs.append({"origin": "class", "axes3": [axes], "scales": info_from_axes(axes),
                         "class": c, "gen": False})
    # cubic chunk pairs (the only ones the sharded accessor stores): the same
    # (o, n) on the three axes, factors and sizes vary per axis
    by_on = {}
    for c in classes:
        by_on.setdefault((c["o"], c["n"]), []).append(c)
    for (o, n), cs in sorted(by_on.items()):
        for _ in range(ctx.pick(1, 6)):
            axes = []
            for _a in range(3):
                c = rng.choice([x for x in cs if x["size"] <= 9] or cs)
                axes.append({k: c[k] for k in ("o", "n", "f", "size")})
            if axes[0]["size"] * axes[1]["size"] * axes[2]["size"] > 800:
                axes[2] = dict(axes[2], size=1, f=1)
            jobs.append({"origin": "cubic", "axes3": [axes], "scales": info_from_axes(axes),
                         "class": None, "gen": False})
    # combinations of two non-Correct classes (Error dominates SilentWrong)
    bad = [c for c in classes if c["outcome"] != "Correct" and c["size"] <= 12]
    for _ in range(ctx.pick(12, 150)):
        a, b = rng.choice(bad), rng.choice(bad)
        axes = [{k: a[k] for k in ("o", "n", "f", "size")}, {k: b[k] for k in ("o", "n", "f", "size")},
                {"o": 2, "n": 2, "f": 1, "size": rng.choice([1, 2, 3])}]
        rng.shuffle(axes)
        jobs.append({"origin": "class2", "axes3": [axes], "scales": info_from_axes(axes),
                     "class": None, "gen": False})
    return jobs


GEN_RES = [[1, 1], [2, 1], [3, 1], [4, 1], [5, 1], [7, 1], [8, 1], [12, 1], [16, 1], [40, 1],
           [8, 10], [12, 10], [5, 10], [25, 10]]


def generator_jobs(ctx):
    """infos produced by the REAL scale generator on small volumes.  A pool of
    candidates is generated; the selection (ORDER / SELECT only) keeps the
    fixed seeds, the candidates whose first non-intended chunk pair has half
    chunk 1 (the class the model predicts to be silently wrong) and a random
    rest."""
    from neuroglancer_scripts import dyadic_pyramid
    rng = ctx.rng
    want = ctx.pick(45, 1100)
    fixed = [([[1, 1]] * 3, 2, [21, 13, 9]), ([[1, 1], [2, 1], [2, 1]], 2, [40, 9, 5]),
             ([[8, 10], [8, 10], [12, 10]], 2, [33, 20, 6]), ([[1, 1], [3, 1], [12, 1]], 2, [250, 9, 2]),
             ([[1, 1], [3, 1], [12, 1]], 1, [130, 5, 2]), ([[1, 1], [5, 1], [35, 4]], 2, [70, 8, 3]),
             ([[1, 1], [1, 1], [40, 1]], 1, [64, 50, 1]), ([[1, 1], [8, 1], [64, 1]], 2, [300, 8, 1]),
             ([[1, 1], [3, 1], [40, 1]], 2, [250, 9, 2]), ([[1, 1], [3, 1], [40, 1]], 2, [130, 9, 1]),
             ([[1, 1]] * 3, 3, [40, 40, 20]), ([[1, 1]] * 3, 2, [33, 1, 1]),
             # target chunk size 1 (every scale has 1x1x1 chunks)
             ([[1, 1]] * 3, 0, [6, 5, 4]), ([[1, 1], [2, 1], [2, 1]], 0, [6, 3, 2]),
             # sizes that are 1 modulo the chunk size on every axis
             ([[1, 1]] * 3, 2, [9, 13, 5]), ([[1, 1]] * 3, 3, [17, 9, 9])]

    def build(res, T, size, maxs):
        if size[0] * size[1] * size[2] > 4600:
            return None
        info = {"type": "image", "data_type": "uint8", "num_channels": 1,
                "scales": [{"size": list(size), "voxel_offset": [0, 0, 0], "encoding": "raw",
                            "resolution": [float(p) / q for p, q in res]}]}
        try:
            dyadic_pyramid.fill_scales_for_dyadic_pyramid(info, 2 ** T, maxs)
        except Exception:
            return None
        sc = info["scales"]
        if len(sc) < 2:
            return None
        scales = [{"key": s["key"], "size": s["size"], "chunk": s["chunk_sizes"][0],
                   "resolution": s["resolution"]} for s in sc]
        axes3 = []
        for k in range(len(sc) - 1):
            axes3.append([{"size": sc[k]["size"][a], "o": sc[k]["chunk_sizes"][0][a],
                           "n": sc[k + 1]["chunk_sizes"][0][a],
                           "f": 1 if sc[k]["size"][a] == sc[k + 1]["size"][a] else 2}
                          for a in range(3)])
        return {"origin": "generator", "axes3": axes3, "scales": scales, "class": None,
                "gen": True, "input": {"res": res, "T": T, "size": size, "maxs": maxs}}

    def first_odd_is_half1(job):
        for axes in job["axes3"]:
            odd = [a for a in axes if a["o"] // a["f"] == 0
                   or a["n"] not in (a["o"] // a["f"], 2 * (a["o"] // a["f"]))]
            if odd:
                return all(a["o"] // a["f"] == 1 and a["n"] >= 4 for a in odd)
        return False

    jobs = []
    for n, (r, t, s_) in enumerate(fixed):
        j = build(r, t, s_, None)
        if j:
            j["fixed"] = n
            jobs.append(j)
    pool = []
    for _ in range(want * 8):
        kind = rng.random()
        if kind < 0.15:
            r = rng.choice(GEN_RES)
            res = [r, r, r]
        else:
            res = [rng.choice(GEN_RES) for _ in range(3)]
        T = rng.choice([1, 1, 2, 2, 3])
        order = sorted(range(3), key=lambda a: res[a][0] / res[a][1])
        size = [0, 0, 0]
        size[order[0]] = rng.choice([9, 20, 33, 64, 100, 130, 250])
        size[order[1]] = rng.choice([1, 2, 3, 5, 8, 9, 20])
        size[order[2]] = rng.choice([1, 1, 2, 3, 4, 6])
        j = build(res, T, size, rng.choice([None, None, None, 4]))
        if j:
            pool.append(j)
    silent = [j for j in pool if first_odd_is_half1(j)]
    rest = [j for j in pool if not first_odd_is_half1(j)]
    jobs += silent[:max(3, want // 6)]
    jobs += rest[:max(0, want - len(jobs))]
    return jobs


# -------------------------------------------------------------- execution ---
def run_job(ctx, work, job, salt):
    if job.get("all_in_one"):
        return run_all_in_one_job(ctx, work, job, salt)
    sc = job["scales"]
    voxels = int(np.prod(sc[0]["size"]))
    var = job.get("variant") or pick_variant(ctx, voxels, scales=sc)
    var.setdefault("itype", "segmentation" if var["encoding"] == "compressed_segmentation" else "image")
    var.setdefault("via", "lib")
    job["variant"] = var
    fault = job.get("fault")
    info = pd.make_info(sc, var["dtype"], var["channels"], var["encoding"],
                        sharded=(var["storage"] == "sharded"), typ=var["itype"])
    vol = pd.make_volume(sc[0]["size"], var["dtype"], var["channels"], ctx.np_rng(salt), var["kind"])
    runs = [pd.run_pyramid(work, info, var["storage"], vol, var["method"], pat, var["outside"],
                           via=var["via"], fault=fault, explicit_auto=var.get("explicit_auto", False))
            for pat in (0x5A, 0xA5)]
    if "shared_prior" in runs[0]:
        job["prior_dtypes"] = [dt for dt in runs[0]["shared_prior"] if dt != var["dtype"]]
    return level_cases_of(job, info, vol, runs), runs


def run_all_in_one_job(ctx, work, job, salt):
    """third entry path: scripts.volume_to_precomputed_pyramid.main(argv) on a
    NIfTI file; the scales are the tool's own (gen), the info type is the FINAL
    one read back from the written info file"""
    var = job["variant"]
    vol = pd.make_volume(job["size"], var["dtype"], 1, ctx.np_rng(salt), var["kind"])
    runs = [pd.run_all_in_one(work, vol, pat, dataset_type=var["type_option"],
                              encoding=var["encoding_option"], storage=var["storage"],
                              method=var["method"], outside_value=var["outside"],
                              explicit_auto=var.get("explicit_auto", False))
            for pat in (0x5A, 0xA5)]
    ra = runs[0]
    info = ra.get("info")
    if info is None or ra.get("setup_error") or runs[1].get("setup_error") or len(ra["levels"]) < 1:
        job["setup_error"] = ra.get("setup_error") or ra["raised"] or "no dataset"
        job["scales"], job["axes3"] = [], []
        return [], runs
    sc = info["scales"]
    job["scales"] = [{"key": s_["key"], "size": s_["size"], "chunk": s_["chunk_sizes"][0],
                      "resolution": s_["resolution"]} for s_ in sc]
    job["axes3"] = [[{"size": sc[k]["size"][a], "o": sc[k]["chunk_sizes"][0][a],
                      "n": sc[k + 1]["chunk_sizes"][0][a],
                      "f": 1 if sc[k]["size"][a] == sc[k + 1]["size"][a] else 2} for a in range(3)]
                    for k in range(len(sc) - 1)]
    var["itype"] = info["type"]                  # the FINAL type (recorded, TLC selects on it)
    var["encoding"] = sc[0]["encoding"]
    var["channels"] = info["num_channels"]
    # the first scale AS STORED by the tool's conversion step is the preceding level of transition 0
    return level_cases_of(job, info, ra["levels"][0], runs), runs


def level_cases_of(job, info, vol, runs):
    var = job["variant"]
    sc = job["scales"]
    fault = job.get("fault")
    scale = 8 if var["dtype"] == "float32" else 1
    cases = []
    ra, rb = runs
    if ra.get("setup_error") or rb.get("setup_error") or ra.get("fault_error") or rb.get("fault_error"):
        job["setup_error"] = (ra.get("setup_error") or rb.get("setup_error")
                              or ra.get("fault_error") or rb.get("fault_error"))
        return cases
    auto = var["method"] == "auto"
    foreign = bool(job.get("foreign"))

    def ref_ints(prev, k, method, shape):
        try:
            ref = pd.global_reference(prev, info, k, method, var["outside"],
                                      factors=pd.ratio_factors(info, k) if foreign else None)
        except Exception:
            if not foreign:
                raise
            return [-1]     # the documented class does not support the size ratio
        return pd.flat_ints(ref, scale) if list(ref.shape) == list(shape) else [-1]

    tool = var["via"] in ("cli", "v2p")
    for k in range(len(sc) - 1):
        started = ra["started"]
        if k not in started and not (tool and not ra["raised"] and not rb["raised"]):
            break       # (a tool that returned status 0 is judged on EVERY transition of the info)
        faulted = fault is not None and k == fault["level"]
        if fault is not None and not faulted:
            continue    # transitions before the damaged scale were judged in the plain run (and the
                        # final read-back of their new level sees the damage made afterwards)
        raised = ra["raised"] if (ra["raised"] and started and k == started[-1]) else ""
        raised_b = rb["raised"] if (rb["raised"] and rb["started"] and k == rb["started"][-1]) else ""
        case = {"mode": "level", "axes": job["axes3"][k], "gen": job["gen"],
                "raised": raised or raised_b, "a": [], "b": [], "ref": [], "missing": 0,
                "sel": "auto" if auto else "explicit", "itype": var["itype"],
                "via": var["via"], "foreign": foreign,
                "fault": fault["kind"] if faulted else ""}
        if not case["raised"]:
            if faulted:
                prev = ra["intact"]        # the preceding scale as it was before the damage
            else:
                prev = ra["levels"][k] if k > 0 else vol
            shape = ra["levels"][k + 1].shape
            case["a"] = pd.flat_ints(ra["levels"][k + 1], scale)
            case["b"] = pd.flat_ints(rb["levels"][k + 1], scale)
            if auto:
                # both candidates are recorded; TLC applies the documented selection rule
                case["ref_image"] = ref_ints(prev, k, "average", shape)
                case["ref_segmentation"] = ref_ints(prev, k, "stride", shape)
            else:
                case["ref"] = ref_ints(prev, k, var["method"], shape)
            case["missing"] = len(ra["missing"][k + 1]) + len(rb["missing"][k + 1])
        cases.append((k, case))
        if faulted:
            break       # later transitions start from a damaged scale: outside the case
    return cases


def fault_jobs(ctx, jobs):
    """copies of jobs whose pairs are processable (every transition completed in
    the plain run) with ONE source chunk removed / damaged before a step"""
    rng = ctx.rng
    ok = [j for j in jobs if j.get("all_completed") and j["variant"]["method"] != "majority"
          and int(np.prod(j["scales"][0]["size"])) <= 2500]
    rng.shuffle(ok)
    out = []
    want = ctx.pick(24, 250)
    # every (storage, kind) class first, then random ones
    need = [(st, kd) for st in STORAGES for kd in FAULT_KINDS[st]]
    for j in ok:
        if len(out) >= want:
            break
        var = j["variant"]
        kinds = [kd for kd in FAULT_KINDS[var["storage"]]
                 if kd != "truncated" or var["encoding"] == "raw"]
        wanted = [kd for kd in kinds if (var["storage"], kd) in need]
        if need and not wanted:
            continue
        kind = rng.choice(wanted or kinds)
        if (var["storage"], kind) in need:
            need.remove((var["storage"], kind))
        ntrans = len(j["scales"]) - 1
        level = 0 if var["storage"] == "sharded" else rng.choice([0, 0, 1, 2]) % ntrans
        fj = {k: j[k] for k in ("axes3", "scales", "class", "gen") if k in j}
        fj.update(origin="fault:" + j["origin"], variant=dict(var), input=j.get("input"),
                  fault={"level": level, "kind": kind, "pick": rng.randrange(1000)})
        out.append(fj)
    return out


DIRECTED_AUTO = [
    # (index of the fixed generator job, dtype, outside, via, storage)
    (0, "uint8", 7, "cli", "gzip"), (0, "uint16", 0, "lib", "flat"),
    (14, "float32", 7, "cli", "deep"), (15, "uint32", 200, "lib", "sharded"),
]


SHARED_OBJECT_DTYPES = ["uint8", "uint16", "float32", "uint32", "uint8", "uint64"]
ALL_IN_ONE = [
    # (size, dtype, --type, --encoding, --outside-value, storage)
    ([130, 3, 2], "uint16", "segmentation", None, None, "gzip"),
    ([150, 5, 3], "uint8", "segmentation", None, 7, "deep"),
    ([129, 2, 1], "uint16", "image", None, 7, "flat"),
    ([260, 3, 1], "uint8", None, None, None, "gzip"),
    ([131, 4, 1], "uint16", None, "compressed_segmentation", None, "deep"),
    ([133, 3, 2], "float32", None, None, 0, "gzip"),
    ([140, 2, 2], "uint32", "segmentation", "compressed_segmentation", None, "flat"),
    ([137, 5, 1], "uint32", "image", None, None, "gzip"),
]


def shared_object_jobs(ctx, gen_jobs):
    """function API with ONE averaging downscaler object (a key of its own:
    outside value 3) for consecutive pyramids of different data types,
    narrower types first"""
    base = [j for j in gen_jobs if j.get("fixed") == 0]
    out = []
    for dtype in SHARED_OBJECT_DTYPES if base else []:
        j = base[0]
        dj = {k: j[k] for k in ("axes3", "scales", "class", "gen", "input")}
        dj.update(origin="directed-shared-object",
                  variant={"method": "average", "itype": "image", "dtype": dtype, "channels": 1,
                           "encoding": "raw", "storage": "deep", "kind": "random",
                           "outside": 3, "via": "lib", "explicit_auto": False})
        out.append(dj)
    return out


def unprocessable_cli_jobs(ctx, table):
    """infos the tool cannot process, through compute_scales.main(argv): pairs
    the per-axis model classifies as Error (hand-edited chunk sizes) and size
    pairs related by a factor 3 (foreign)"""
    rng = ctx.rng
    out = []
    err = [c for c in axis_classes(ctx, table) if c["outcome"] == "Error" and c["size"] <= 24]
    rng.shuffle(err)
    seen = set()
    for c in err:
        if (c["o"], c["n"], c["f"]) in seen:
            continue
        seen.add((c["o"], c["n"], c["f"]))
        if len(seen) > ctx.pick(14, 60):
            break
        main = {k: c[k] for k in ("o", "n", "f", "size")}
        axes = [{"o": 2, "n": 2, "f": 1, "size": rng.choice([1, 2, 3])},
                {"o": 2, "n": 2, "f": 2, "size": rng.choice([2, 3, 5])}]
        axes.insert(rng.randrange(3), main)
        method = rng.choice(["stride", "average", "auto"])
        out.append({"origin": "directed-unprocessable", "axes3": [axes], "scales": info_from_axes(axes),
                    "class": c, "gen": False,
                    "variant": {"method": method, "itype": "image",
                                "dtype": rng.choice(["uint8", "uint16", "uint32"]), "channels": 1,
                                "encoding": "raw", "storage": rng.choice(STORAGES[:3]), "kind": "unique",
                                "outside": None, "via": "cli", "explicit_auto": True}})
    for _ in range(ctx.pick(4, 30)):
        fs = [rng.choice([1, 2, 3]) for _a in range(3)]
        fs[rng.randrange(3)] = 3
        axes = [{"o": rng.choice([2, 4]), "n": rng.choice([2, 4]), "f": f, "size": rng.choice([3, 4, 7, 9])}
                for f in fs]
        out.append({"origin": "directed-foreign", "axes3": [axes], "scales": info_from_axes(axes),
                    "class": None, "gen": False, "foreign": True,
                    "variant": {"method": rng.choice(["stride", "average", "auto"]), "itype": "image",
                                "dtype": "uint16", "channels": 1, "encoding": "raw",
                                "storage": rng.choice(STORAGES[:3]), "kind": "unique", "outside": None,
                                "via": "cli", "explicit_auto": False}})
    return out


def all_in_one_jobs(ctx):
    rng = ctx.rng
    rows = list(ALL_IN_ONE)
    for _ in range(ctx.pick(0, 40)):
        size = [rng.randint(129, 270), rng.randint(1, 6), rng.randint(1, 3)]
        rng.shuffle(size)
        dtype = rng.choice(["uint8", "uint16", "uint32", "float32"])
        typ = rng.choice([None, "image", "segmentation"]) if dtype != "float32" else rng.choice([None, "image"])
        enc = "compressed_segmentation" if (typ != "image" and dtype != "float32" and rng.random() < 0.3) else None
        rows.append((size, dtype, typ, enc, rng.choice([None, 0, 7]), rng.choice(STORAGES[:3])))
    out = []
    for size, dtype, typ, enc, outside, storage in rows:
        out.append({"origin": "all-in-one", "all_in_one": True, "size": size, "gen": True, "class": None,
                    "scales": [], "axes3": [],
                    "variant": {"method": "auto", "dtype": dtype, "channels": 1, "kind": "unique",
                                "type_option": typ, "encoding_option": enc, "outside": outside,
                                "storage": storage, "via": "v2p", "itype": None,
                                "encoding": enc or "raw", "explicit_auto": rng.random() < 0.3}})
    return out


DIRECTED_VOLUMES = [
    # (fixed generator job, method, dtype, channels, encoding, kind, via, storage, outside)
    (0, "stride", "uint32", 2, "compressed_segmentation", "labels", "cli", "gzip", None),
    (0, "majority", "uint64", 3, "compressed_segmentation", "labels", "lib", "deep", None),
    (14, "stride", "uint64", 2, "compressed_segmentation", "labels", "cli", "flat", None),
    (15, "majority", "uint32", 2, "compressed_segmentation", "labels", "lib", "sharded", None),
    (12, "auto", "uint32", 3, "compressed_segmentation", "labels", "cli", "deep", None),
    (0, "average", "uint64", 1, "raw", "big", "lib", "deep", None),
    (14, "average", "uint64", 2, "raw", "big", "cli", "gzip", None),
    (15, "auto", "uint64", 1, "raw", "big", "cli", "flat", 7),
    (1, "average", "uint64", 1, "raw", "big", "lib", "deep", 0),
]


def directed_volume_jobs(ctx, gen_jobs):
    """generator infos (generate-scales-info arithmetic) with (a) multi-channel
    compressed_segmentation label images whose channels share label sets,
    (b) uint64 images with values >= 2^53 on odd sizes under averaging"""
    by_idx = {j["fixed"]: j for j in gen_jobs if j.get("fixed") is not None}
    out = []
    for idx, method, dtype, channels, enc, kind, via, storage, outside in DIRECTED_VOLUMES:
        j = by_idx.get(idx)
        if j is None:
            continue
        if storage == "sharded" and not cubic(j["scales"]):
            storage = "deep"
        dj = {k: j[k] for k in ("axes3", "scales", "class", "gen", "input")}
        dj.update(origin="directed-volume",
                  variant={"method": method,
                           "itype": "segmentation" if enc == "compressed_segmentation" else "image",
                           "dtype": dtype, "channels": channels, "encoding": enc, "storage": storage,
                           "kind": kind, "outside": outside, "via": via, "explicit_auto": False})
        out.append(dj)
    return out


def directed_jobs(ctx, gen_jobs):
    """default method "auto" + outside value on odd-sized infos of the real
    generator, through both entry paths"""
    out = []
    fixed = [j for j in gen_jobs if j.get("fixed") is not None]
    by_idx = {j["fixed"]: j for j in fixed}
    for idx, dtype, outside, via, storage in DIRECTED_AUTO:
        j = by_idx.get(idx)
        if j is None:
            continue
        if storage == "sharded" and not cubic(j["scales"]):
            storage = "deep"
        dj = {k: j[k] for k in ("axes3", "scales", "class", "gen", "input")}
        dj.update(origin="directed-auto",
                  variant={"method": "auto", "itype": "image", "dtype": dtype, "channels": 1,
                           "encoding": "raw", "storage": storage, "kind": "random",
                           "outside": outside, "via": via, "explicit_auto": via == "lib"})
        out.append(dj)
    return out


def sig_level(job, k, case, clause):
    var = job["variant"]
    axes = case["axes"]
    keys = [s["key"] for s in job["scales"]]
    bad_axes = [a for a in axes if a["o"] // a["f"] == 0
                or a["n"] not in (a["o"] // a["f"], 2 * (a["o"] // a["f"]))]
    sig = {"origin": job["origin"], "gen": job["gen"], "mode": case["mode"], "level": k,
           "foreign": bool(case.get("foreign")),
           "raised": case["raised"], "method": var["method"], "itype": var.get("itype"),
           "via": var.get("via", "lib"), "outside": var.get("outside"),
           "fault": case.get("fault", ""), "dtype": var["dtype"],
           "channels": var["channels"], "encoding": var["encoding"], "storage": var["storage"],
           "dup_keys": len(set(keys)) < len(keys),
           "pair_intended": not bad_axes,
           "odd_pairs": [[a["o"], a["n"], a["f"]] for a in bad_axes],
           "half_chunk_1_new_ge_4": any(a["o"] // a["f"] == 1 and a["n"] >= 4 for a in bad_axes)}
    if job.get("input"):
        sig["input"] = job["input"]
    return sig


def run(ctx):
    ctx.cov["rule"] = RULE
    ctx.assumptions += [
        "the reference of a transition is the implementation's own downscaler applied to the "
        "whole previous level AS STORED, with the factors read off the two sizes (1 iff equal)",
        "silent corruption is a verdict only for infos produced by the real scale generator or "
        "pairs that are processable by design; hand-made incompatible pairs are reported as notes",
        "an exception on a pair whose model outcome is Error / SilentWrong is acceptable",
        "the reference downscaler is the documented class constructed directly "
        "(AveragingDownscaler(outside_value) / MajorityDownscaler / StridingDownscaler); for the default "
        "method 'auto' the documented rule (image -> average, otherwise stride) is applied by TLC",
        "uint64 averaging above 2^53: the reference is the implementation's own class applied to the whole "
        "scale, so the float64 inexactness recorded as a C07 known finding is on both sides; only a "
        "dependence on the chunking is reported",
        "one downscaler object may serve several pyramids (function API): the property does not tie a "
        "downscaler to one data type",
        "tool level (compute-scales, volume-to-precomputed-pyramid main): a returned status None / 0 means "
        "success; then every transition of the info must have produced the global downscale, also for "
        "hand-edited infos; for size pairs not related by factors 1 / 2 the reference uses the smallest "
        "factor with ceil(old / f) = new",
        "a pair 'cannot be processed' also when a chunk of the preceding scale is missing or unreadable: "
        "any exception (or non-zero status) is accepted, and so is a completed level equal to the global "
        "downscale of the intact preceding scale; the transitions after the damaged one are not judged",
        "compressed_segmentation is exercised with the default cubic block size [8,8,8]",
    ]
    run_mc(ctx)
    table = class_table(ctx)
    work = ctx.scratch("verif_pyr_")
    gen_jobs = generator_jobs(ctx)
    jobs = (handmade_jobs(ctx, table) + gen_jobs + directed_jobs(ctx, gen_jobs)
            + directed_volume_jobs(ctx, gen_jobs)
            + shared_object_jobs(ctx, gen_jobs) + unprocessable_cli_jobs(ctx, table) + all_in_one_jobs(ctx))
    level_cases = []
    import time
    t0 = time.time()
    for n, job in enumerate(jobs):
        job["salt"] = n
        cases, runs = run_job(ctx, work, job, n)
        job["all_completed"] = (not job.get("all_in_one") and not job.get("foreign")
                                and len(cases) == len(job["scales"]) - 1
                                and all(not c["raised"] for _, c in cases))
        for k, case in cases:
            level_cases.append((job, k, case))
    # ---- source faults: a chunk of the preceding scale is missing / damaged ----
    plain_jobs = jobs
    t1 = time.time()
    fjobs = fault_jobs(ctx, plain_jobs)
    for n, job in enumerate(fjobs):
        job["salt"] = len(plain_jobs) + n
        cases, runs = run_job(ctx, work, job, len(plain_jobs) + n)
        for k, case in cases:
            level_cases.append((job, k, case))
    jobs = plain_jobs + fjobs
    ctx.notes["wall_s_plain_and_fault_runs"] = [round(t1 - t0, 1), round(time.time() - t1, 1)]
    ctx.notes["jobs"] = {"class": sum(1 for j in jobs if j["origin"] == "class"),
                         "class2": sum(1 for j in jobs if j["origin"] == "class2"),
                         "cubic": sum(1 for j in jobs if j["origin"] == "cubic"),
                         "generator": sum(1 for j in jobs if j["origin"] == "generator"),
                         "directed_auto": sum(1 for j in jobs if j["origin"] == "directed-auto"),
                         "directed_volume": sum(1 for j in jobs if j["origin"] == "directed-volume"),
                         "directed_shared_object": sum(1 for j in jobs if j["origin"] == "directed-shared-object"),
                         "directed_unprocessable_cli": sum(1 for j in jobs if j["origin"] == "directed-unprocessable"),
                         "directed_foreign_cli": sum(1 for j in jobs if j["origin"] == "directed-foreign"),
                         "all_in_one": sum(1 for j in jobs if j["origin"] == "all-in-one"),
                         "source_fault": len(fjobs)}
    fc = {}
    for job, k, case in level_cases:
        if case.get("fault"):
            key = "%s/%s/%s" % (job["variant"]["storage"], case["fault"],
                                "raised" if case["raised"] else "completed")
            fc[key] = fc.get(key, 0) + 1
    ctx.notes["source_fault_cases"] = fc
    hist = {}
    for j in jobs:
        v = j.get("variant") or {}
        for fld in ("method", "itype", "via", "outside", "dtype", "channels", "encoding", "storage", "kind"):
            d_ = hist.setdefault(fld, {})
            d_[str(v.get(fld))] = d_.get(str(v.get(fld)), 0) + 1
    ctx.notes["variant_histogram"] = hist
    setup = [j for j in jobs if j.get("setup_error")]
    ctx.notes["datasets_that_could_not_be_written"] = {
        "count": len(setup),
        "examples": [{"error": j["setup_error"], "keys": [s["key"] for s in j["scales"]],
                      "storage": j["variant"]["storage"]} for j in setup[:5]]}
    # ---- C->S provenance traces -------------------------------------------
    prov_cases = []
    stride_jobs = [j for j in plain_jobs if j["origin"] in ("class", "cubic", "generator")]
    take = ctx.pick(150, 4000)
    if len(stride_jobs) > take:
        stride_jobs = ctx.rng.sample(stride_jobs, take)
    for job in stride_jobs:
        info = pd.make_info(job["scales"], "uint32", 1)
        for k in range(len(job["scales"]) - 1):
            tr = pd.run_provenance(info, k)
            case = {"mode": "prov", "axes": job["axes3"][k], "gen": job["gen"],
                    "raised": tr["raised"], "events": tr["events"],
                    "newkey": job["scales"][k + 1]["key"]}
            prov_cases.append((job, k, case))
            if tr["raised"]:
                break
    allc = level_cases + prov_cases
    verdicts = ctx.judge("Trace_PyramidAssembly", [c for _, _, c in allc], workers=16, chunk=1500)
    pos_counts = {}
    profile = {}
    observations = []
    clause_counts = {}
    for job, k, case in allc:
        ctx.count()
        st, clause, pos = verdicts[case["tid"]]
        pos_counts[str(pos)] = pos_counts.get(str(pos), 0) + 1
        newvox = 1
        for a in case["axes"]:
            newvox *= -(-a["size"] // a["f"])
        var = job.get("variant", {})
        if newvox >= 2:
            ctx.nontrivial(json.dumps([case["axes"], job["origin"], case["mode"],
                                       [var.get(x) for x in ("method", "itype", "via", "outside", "dtype",
                                                             "channels", "encoding", "storage")]
                                       + [case.get("fault", "")]
                                       if case["mode"] == "level" else None]))
        if pos in (1, 2, 4):
            ctx.note_drift({1: "design:PredictedErrorButCorrect", 2: "design:PredictedSilentWrongButRaised",
                            4: "design:PredictedErrorButWrongData"}[pos],
                           {"axes": case["axes"], "mode": case["mode"], "raised": case["raised"],
                            "variant": var})
        if pos == 3 and len(observations) < 12:
            observations.append({"axes": case["axes"], "mode": case["mode"]})
        if st != "ok":
            clause_counts[clause] = clause_counts.get(clause, 0) + 1
            sig = sig_level(job, k, case, clause) if job.get("variant") else {}
            if case["mode"] == "prov":
                sig = sig_level(dict(job, variant={"method": "stride", "dtype": "uint32", "channels": 1,
                                                   "encoding": "raw", "storage": "recording"}),
                                k, case, clause)
            for fld in ("gen", "origin", "dup_keys", "raised", "half_chunk_1_new_ge_4",
                        "pair_intended", "storage", "encoding", "method", "odd_pairs"):
                d_ = profile.setdefault(clause, {}).setdefault(fld, {})
                d_[str(sig.get(fld))] = d_.get(str(sig.get(fld)), 0) + 1
            ctx.violation(clause, sig,
                          {"mode": case["mode"], "scales": job["scales"], "level": k,
                           "variant": job.get("variant"), "fault": job.get("fault"),
                           "salt": job.get("salt", 0), "foreign": bool(job.get("foreign")),
                           "all_in_one": bool(job.get("all_in_one")), "size": job.get("size"),
                           "prior_dtypes": job.get("prior_dtypes"),
                           "gen": job["gen"], "axes": case["axes"],
                           "raised": case["raised"], "input": job.get("input"),
                           "a": case.get("a", [])[:64], "ref": case.get("ref", [])[:64]})
    ctx.notes["verdict_pos_counts"] = pos_counts
    ctx.notes["failing_clause_counts"] = clause_counts
    ctx.notes["violation_profile"] = profile
    ctx.notes["handmade_pairs_silently_wrong_as_modelled"] = {
        "count": pos_counts.get("3", 0), "examples": observations}
    ctx.notes["source_fault_completed_with_correct_level"] = pos_counts.get("5", 0)
    ctx.notes["level_cases"] = len(level_cases)
    ctx.notes["provenance_traces"] = len(prov_cases)
    for job, k, case in (level_cases[:2] + prov_cases[:1]):
        ctx.sample({"origin": job["origin"], "mode": case["mode"], "axes": case["axes"],
                    "variant": job.get("variant"), "raised": case["raised"],
                    "new_level": case.get("a", [])[:12], "reference": case.get("ref", [])[:12],
                    "verdict": verdicts[case["tid"]][1]})


def replay(ctx, path):
    with open(path) as f:
        rp = json.load(f)
    d = rp["detail"]
    work = ctx.scratch("verif_pyr_")
    nsc = len(d["scales"])
    axes3 = []
    for k in range(nsc - 1):
        a, b = d["scales"][k], d["scales"][k + 1]
        axes3.append([{"size": a["size"][x], "o": a["chunk"][x], "n": b["chunk"][x],
                       "f": 1 if a["size"][x] == b["size"][x] else 2} for x in range(3)])
    job = {"origin": "replay", "axes3": axes3, "scales": d["scales"], "gen": d["gen"],
           "variant": d.get("variant")}
    if d.get("fault"):
        job["fault"] = d["fault"]
    if d.get("foreign"):
        job["foreign"] = True
        for k in range(nsc - 1):
            for x in range(3):
                a_, b_ = d["scales"][k]["size"][x], d["scales"][k + 1]["size"][x]
                axes3[k][x]["f"] = ([f for f in range(1, a_ + 1) if -(-a_ // f) == b_] or [2])[0]
    if d.get("all_in_one"):
        job.update(all_in_one=True, size=d["size"], scales=[], axes3=[])
    out = []
    if d["mode"] == "level":
        # a shared downscaler object has a history: the earlier pyramids of the object come first
        for dt in d.get("prior_dtypes") or []:
            run_job(ctx, work, dict(job, variant=dict(d["variant"], dtype=dt, encoding="raw", via="lib"),
                                    fault=None), 0)
        cases, _ = run_job(ctx, work, job, d.get("salt", 0))
        out = [c for k, c in cases if k == d["level"]]
    else:
        info = pd.make_info(d["scales"], "uint32", 1)
        tr = pd.run_provenance(info, d["level"])
        out = [{"mode": "prov", "axes": axes3[d["level"]], "gen": d["gen"], "raised": tr["raised"],
                "events": tr["events"], "newkey": d["scales"][d["level"] + 1]["key"]}]
    if not out:
        print("replay: the transition was not reached")
        ctx.cleanup()
        return 1
    v = ctx.judge("Trace_PyramidAssembly", out)
    print("replay verdict:", v[1])
    ctx.cleanup()
    return 0 if v[1][0] == "ok" else 1
