"""C20 - reported statistics match the dataset that is actually produced.

Formatter half (this file, harness/stats_driver.py, spec/Stats.tla):
M    : MC_Stats - the prefix-selection design of readable_count in exact
       arithmetic satisfies ReadableOk on all bands with Threshold="byLength";
       with Threshold="gt10" (the code before fix 7cbc19a) TLC must find the band with
       no significant digit (deviation switch, must FAIL).
S->C : the integer bands (every count 0..20000; +-300 around m*1024^k; powers
       of two up to 2^70 +-2; the places where the shown length changes; a
       seeded stride sample) through the REAL readable_count; every returned
       string, tokenised losslessly, is judged by Trace_Stats:
       oracle:ReadableFormat / ReadableDigits / ReadableLength / ReadableDistance.

Report half (scale-stats versus the produced dataset): supplied by another
builder through `extra_cases(ctx)` below.
"""
import json

from .. import stats_driver as sd
from .. import tlc

LEVEL = "model_checking"
RULE = ("formatter: one case per count; non-trivial when count >= 1000 (a prefix must be chosen and the "
        "value rounded); distinct = distinct counts")


# ---------------------------------------------------------------------------
# HOOK for the report half (scale-stats vs. produced dataset).  The builder of
# that half replaces the body of this function (or assigns c20.extra_cases)
# with code that drives the real tools, has TLC judge the recorded cases and
# registers counts / violations in ctx itself.  It must not touch the
# formatter half above/below.
def extra_cases(ctx):
    # report half (harness/stats_report.py): scale-stats stdout vs. the dataset
    # actually produced by the real tools, judged by TLC (Trace_Pipeline)
    from .. import stats_report
    return stats_report.extra_cases(ctx)
# ---------------------------------------------------------------------------


def run(ctx):
    ctx.cov["rule"] = RULE
    ctx.assumptions += [
        "readable_count: ',' accepted as thousands separator; 'within rounding distance' read up to the "
        "relative precision 2^-52 of the quotient (exact below 2^52); shown trailing zeros are significant",
        "TLC 1.8 evaluates the oracle faithfully; harness/stats_driver.py only re-encodes (count -> bit list, "
        "string -> list of characters)",
    ]
    ctx.mc("MC_Stats", ctx.pick("MC_Stats_quick", "MC_Stats"), workers=16)
    bad = tlc.model_check("MC_Stats", "MC_Stats_gt10", workers=8)
    if bad["ok"]:
        raise tlc.MachineryError("deviation switch Threshold=gt10 did not violate ReadableOk (vacuous model)")
    ctx.notes["switch_gt10_violates"] = bad["invariant_violated"]
    cases = sd.readable_cases(ctx)
    sd.judge_readable(ctx, cases)
    extra_cases(ctx)


def replay(ctx, path):
    with open(path) as f:
        rp = json.load(f)
    d = rp["detail"]
    if d.get("label") == "report":
        from .. import stats_report
        return stats_report.replay_report(ctx, path)
    if d.get("kind") != "readable_count":
        raise tlc.MachineryError("replay of this case kind belongs to the report half")
    from neuroglancer_scripts.utils import readable_count
    from ..parsers import bits
    s = readable_count(int(d["count"]))
    v = ctx.judge("Trace_Stats", [{"n": bits(int(d["count"])), "s": list(s), "d": 1}])
    print("replay: readable_count(%d) = %r -> %s" % (int(d["count"]), s, v[1][1]))
    print("replay verdict:", v[1][1])
    ctx.cleanup()
    return 0 if v[1][0] == "ok" else 1
