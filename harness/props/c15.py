"""C15 - slice stacks are assembled with the requested anatomical orientation.

M    : MC_Orientation - for all 48 codes x input sizes <= 3x4x5 (pairwise
       distinct) x chunk depth 1..6: the documentation-derived SrcIndex is a
       bijection consistent with the letter semantics, and the slice-window
       design (tables, reversed stepping, flips, moveaxis) puts every input
       pixel exactly once where SrcIndex says, final partial group included.
       Holds with SliceStop="none"; must FAIL with "minus1" (the code's
       position: reversed stop passed as the number -1).
C->S : real slices-to-precomputed runs (main(argv), wall-clock limit) on PNG /
       TIFF stacks whose pixel values encode (column,row,slice,channel), for
       all 48 codes x slice-count classes x chunk sizes x pixel types x
       storage options; the dataset is read back through a fresh accessor and
       Trace_Orientation judges every voxel's provenance and channel.
"""
import json
from concurrent.futures import ThreadPoolExecutor

from .. import slice_driver as sl
from .. import tlc

LEVEL = "model_checking"
RULE = ("one evaluation = one real conversion of a provenance-coded stack judged by TLC; all are "
        "non-trivial (pairwise distinct extents except in the degenerate-size sweep, so every "
        "permutation/flip is visible); distinct = distinct (code, input size, chunk size, "
        "channels layout, pixel type, file format, output type, storage options) tuples")

CODES = ["".join((a, b, c)) for a in "RLAPSI" for b in "RLAPSI" for c in "RLAPSI"
         if len({sl.AXIS[a], sl.AXIS[b], sl.AXIS[c]}) == 3]
TIMEOUT = 30


def depth_class(nslice, depth):
    if nslice < depth:
        return "fewer"
    if nslice == depth:
        return "equal"
    return "multiple" if nslice % depth == 0 else "not_multiple"


def pick_for_class(rng, cls):
    """(nslice, depth) of the requested class"""
    if cls == "fewer":
        d = rng.randint(2, 6)
        return rng.randint(1, d - 1), d
    if cls == "equal":
        d = rng.randint(1, 5)
        return d, d
    if cls == "multiple":
        d = rng.randint(1, 3)
        return d * rng.randint(2, 3 if d < 3 else 2), d
    d = rng.randint(2, 4)
    n = rng.randint(d + 1, 7)
    while n % d == 0:
        n = rng.randint(d + 1, 7)
    return n, d


def choose_plan(rng, code, cls, distinct=True):
    nsl, depth = pick_for_class(rng, cls)
    while True:
        ncol, nrow = rng.randint(1, 5), rng.randint(1, 5)
        if not distinct or len({ncol, nrow, nsl}) == 3:
            break
    insize = [ncol, nrow, nsl]
    layout = rng.choice(["grey1", "grey1", "grey2", "grey3", "rgb", "rgb", "rgb2"])
    dirs = {"grey1": 1, "grey2": 2, "grey3": 3, "rgb": 1, "rgb2": 2}[layout]
    rgb = layout.startswith("rgb")
    nch = dirs * (3 if rgb else 1)
    total = ncol * nrow * nsl * nch
    pixel = "uint16" if total > 255 else rng.choice(["uint8", "uint8", "uint16"])
    ext = ".tif" if (pixel == "uint16" and rgb) else rng.choice([".png", ".tif"])
    out_dtype = rng.choice([pixel, pixel, "uint16" if pixel == "uint8" else "uint32", "uint32", "float32", "uint64"])
    chunk = [rng.randint(1, 4) for _ in range(3)]
    chunk[sl.AXIS[code[2]]] = depth
    p = {"code": code, "insize": insize, "chunk": chunk, "dirs": dirs, "rgb": rgb, "pixel": pixel,
         "ext": ext, "out_dtype": out_dtype, "flat": rng.random() < 0.4, "gzip": rng.random() < 0.6,
         "cls": cls, "mode": "inprocess"}
    if out_dtype in ("uint32", "uint64") and rng.random() < 0.5:
        # compressed_segmentation destination: the encoder then sees the re-oriented views
        p["encoding"] = "compressed_segmentation"
        b = rng.choice([8, 4, 2, 2])
        p["block"] = [b, b, b]
    if rng.random() < 0.12:
        # sharded destination (cubic chunks), real sub-process
        c = rng.choice([2, 2, 3, 4])
        chunk2 = [c, c, c]
        chunk2[sl.AXIS[code[2]]] = c
        p.update(chunk=[c, c, c], sharding=list(rng.choice([(0, 0, 0), (1, 0, 0), (1, 1, 0), (2, 1, 0), (1, 1, 1)]))
                 + [rng.choice(["raw", "gzip"])], mode="subprocess", flat=False, gzip=True)
        p["cls"] = depth_class(nsl, c)
    r = rng.random()
    if r < 0.15 and p["mode"] != "subprocess":
        # the function API without an options dictionary (default storage options)
        p.update(mode="api", flat=False, gzip=True)
    if pixel == "uint16" and not rgb and rng.random() < 0.6:
        p["mixpix"] = True          # 8-bit and 16-bit slices in one stack
    if nsl >= 2 and rng.random() < 0.08:
        p["short"] = True           # invalid stack: must be refused, not half converted
    if nsl >= 2 and rng.random() < 0.25:
        # empty (all-black) slices: all but one, so that whole chunks hold only zeros
        keep = rng.randrange(nsl)
        p["blank"] = [0 if k == keep else 1 for k in range(nsl)]
    return p


def sig_of(p, res, clause):
    return {"tool": "slices-to-precomputed", "clause": clause, "code": p["code"],
            "slice_axis_inverted": p["code"][2] in "LPI",
            "slices_vs_depth": p["cls"], "channels": p["dirs"] * (3 if p["rgb"] else 1),
            "rgb": p["rgb"], "pixel": p["pixel"], "ext": p["ext"], "out_dtype": p["out_dtype"],
            "sharded": bool(p.get("sharding")), "encoding": p.get("encoding", "raw"),
            "exc": res.get("exc", ""), "where": res.get("where", ""),
            "entry": p["mode"], "mixed_pixel_types": bool(p.get("mixpix")), "invalid_stack": bool(p.get("short"))}


def plan_key(p):
    return json.dumps([p["code"], p["insize"], p["chunk"], p["dirs"], p["rgb"], p["pixel"], p["ext"],
                       p["out_dtype"], p["flat"], p["gzip"], p.get("sharding"), p.get("encoding"), p["mode"],
                       bool(p.get("mixpix")), bool(p.get("short"))])


def execute(work, plans):
    prepared = [(p, sl.prepare_stack(work, p)) for p in plans]
    results = [None] * len(prepared)
    sub = [k for k, (p, _) in enumerate(prepared) if p["mode"] == "subprocess"]
    with ThreadPoolExecutor(max_workers=12) as ex:
        futs = {k: ex.submit(sl.convert_subprocess, prepared[k][1], TIMEOUT) for k in sub}
        for k, (p, pd) in enumerate(prepared):
            if p["mode"] == "api":
                results[k] = sl.convert_api(pd, TIMEOUT)
            elif p["mode"] != "subprocess":
                results[k] = sl.convert_inprocess(pd, TIMEOUT)
        for k, f in futs.items():
            results[k] = f.result()
    out = []
    for (p, pd), res in zip(prepared, results):
        case, extra = sl.slice_case(p, pd, res)
        sl.drop(pd)
        out.append((p, res, case, extra))
    return out


def build_plans(ctx):
    rng = ctx.rng
    plans = []
    classes = ["fewer", "equal", "multiple", "not_multiple"]
    reps = ctx.pick(1, 24)
    for code in CODES:
        for cls in classes:
            for _ in range(reps):
                plans.append(choose_plan(rng, code, cls))
        # one extra with degenerate / equal extents (1-pixel axes, squares)
        for _ in range(ctx.pick(1, 12)):
            plans.append(choose_plan(rng, code, rng.choice(classes), distinct=False))
    # sharded outputs through real sub-processes (atexit flush of the accessor)
    for _ in range(ctx.pick(6, 192)):
        code = rng.choice(CODES)
        p = choose_plan(rng, code, rng.choice(classes))
        c = p["chunk"][sl.AXIS[code[2]]]
        p["chunk"] = [c, c, c]
        p["sharding"] = list(rng.choice([(0, 0, 0), (1, 0, 0), (1, 1, 0), (2, 1, 0), (1, 1, 1)])) \
            + [rng.choice(["raw", "gzip"])]
        p["mode"] = "subprocess"
        plans.append(p)
    return plans


def run(ctx):
    ctx.cov["rule"] = RULE
    ctx.assumptions += [
        "the orientation letters are read as the tool's help text defines them: the direction the "
        "input axis POINTS TO; first letter = column index (left-to-right), second = row index "
        "(top-to-bottom), third = increasing slice number; output is RAS+",
        "'channels are kept in order' = directories in command-line order, then R,G,B inside a file",
        "slices are named so that lexicographic order = slice number (the tool sorts file names)",
        "sharded outputs use cubic chunk sizes (the sharded accessor refuses others explicitly)",
    ]
    ctx.mc("MC_Orientation", ctx.pick("MC_Orientation_quick", "MC_Orientation"), workers=16,
           coverage=not ctx.quick)
    bad = tlc.model_check("MC_Orientation", "MC_Orientation_minus1", workers=8)
    if bad["ok"]:
        raise tlc.MachineryError("switch SliceStop=minus1 did not violate the window invariants (vacuous model)")
    ctx.notes["switch_minus1_violates"] = bad["invariant_violated"]
    import os
    import re
    with open(os.path.join(tlc.SPEC_DIR, "Trace_Orientation.cfg")) as f:
        m = re.search(r'SliceStop\s*=\s*"(\w+)"', f.read())
    ctx.notes["switch_positions_in_force"] = {
        "MC_Orientation": "none (conforming design must hold); minus1 must fail",
        "Trace_Orientation design prediction (DRIFT only)": m.group(1) if m else "?"}

    work = ctx.scratch("verif_slices_")
    plans = build_plans(ctx)
    done = execute(work, plans)
    cases = [c for (_, _, c, _) in done]
    verdicts = ctx.judge("Trace_Orientation", cases, workers=12, chunk=2000)
    classes = {}
    drift = 0
    per_code = {}
    for (p, res, case, extra) in done:
        ctx.count()
        ctx.nontrivial(plan_key(p))
        st, clause, dr = verdicts[case["tid"]]
        if clause.startswith("machinery:"):
            ctx.undecided("case rejected by the trace specification: %s plan=%s"
                                     % (clause, json.dumps(p)))
            continue
        if dr and not p.get("short"):      # the design predicts outcomes of VALID stacks only
            drift += 1
            ctx.note_drift("design:SliceWindowOutcome", {"code": p["code"], "insize": p["insize"],
                                                         "outcome": res["outcome"]})
        pc = per_code.setdefault(p["code"], {"ok": 0, "bad": 0})
        pc["ok" if st == "ok" else "bad"] += 1
        if st != "ok":
            sg = sig_of(p, res, clause)
            ck = "%s inverted_slice_axis=%s exc=%s where=%s" % (clause, sg["slice_axis_inverted"],
                                                               sg["exc"], sg["where"])
            classes[ck] = classes.get(ck, 0) + 1
            ctx.violation(clause, sg, {"plan": p, "run": res, "extra": extra})
    ctx.notes["violation_classes"] = classes
    ctx.notes["design_outcome_drift_cases"] = drift
    ctx.notes["codes_all_ok"] = sorted(c for c, v in per_code.items() if v["bad"] == 0)
    ctx.notes["codes_with_failures"] = sorted(c for c, v in per_code.items() if v["bad"] > 0)
    ctx.notes["conversions"] = {"total": len(done),
                                "subprocess_sharded": sum(1 for d in done if d[0]["mode"] == "subprocess"),
                                "rgb": sum(1 for d in done if d[0]["rgb"]),
                                "multi_directory": sum(1 for d in done if d[0]["dirs"] > 1),
                                "tiff": sum(1 for d in done if d[0]["ext"] == ".tif"),
                                "uint16_pixels": sum(1 for d in done if d[0]["pixel"] == "uint16")}
    for (p, res, case, extra) in done[:2]:
        ctx.sample({"plan": p, "run": {k: res[k] for k in ("outcome", "exit", "exc")},
                    "stored_head": case["stored"][:12], "verdict": verdicts[case["tid"]][1]})


def replay(ctx, path):
    with open(path) as f:
        rp = json.load(f)
    p = rp["detail"]["plan"]
    work = ctx.scratch("verif_slices_")
    (p, res, case, extra), = execute(work, [p])
    v = ctx.judge("Trace_Orientation", [case])
    print("replay run:", {k: res.get(k) for k in ("outcome", "exit", "exc", "where", "msg")})
    print("replay verdict:", v[1])
    ctx.cleanup()
    return 0 if v[1][0] == "ok" else 1
