"""C19 - all-in-one conversion equals the step-by-step pipeline; steps are
repeatable; exit status 0 means complete and readable.

M    : MC_Pipeline - the command-level design (Pipeline.tla: one action per
       documented command, abstract contents) satisfies the four oracle
       clauses AllInOneEqualsSteps / RepeatIsNoop / SuccessMeansComplete /
       SourceUntouched (+ ConvertPreserves, TypeOK) on every program of length
       <= 6 over the command alphabet on two directories, and - the abstract
       state space being finite - on EVERY program (VIEW without the step
       counter).  Two deviation switches must FAIL (non-vacuity).
S->C : Gen_Pipeline exports one shortest witness program per abstract
       situation (directory states x provenance x kind/exit of the last
       command x "last two commands identical"); a stratified seeded sample is
       run as REAL sub-processes on synthetic NIfTI volumes and PNG/TIFF slice
       stacks (data types, channels, RGB, header value scaling with and
       without --ignore-scaling, --input-min/--input-max, chunk-aligned zero
       background and all-zero volumes, anisotropy, thick slices, 1-3 scales,
       orientation codes, layouts flat/gzip, sharding), plus directed programs
       (sharded datasets on chunk grids that are not powers of two with
       several bit triples; compressed_segmentation without --type
       segmentation; compute-scales re-run after a failed run) and programs
       of the environment class "obstructed destination" (a regular file where
       the last scale's directory must be created, plain and sharded),
       snapshotting exit code, info files and all decoded chunks after every
       command.
C->S : every recorded trace is judged by Trace_Pipeline (oracle clauses on
       the snapshots -> VIOLATION; design prediction mismatch -> DRIFT).
"""
import json

from .. import pipeline_check as pc
from .. import pipeline_driver as pd
from .. import tlc

LEVEL = "model_checking"
RULE = ("a program (command list x volume class x layouts) is non-trivial when at least one "
        "command after the first changes a directory that is not empty (it contains an "
        "all-in-one/steps pair, a repeated step, a conversion, or statistics of a produced "
        "dataset); distinct = distinct (command list, volume dtype/shape/voxel size/channels, "
        "layouts) tuples")

DATA_OPS = ("Vol", "Slices", "Compute", "Convert")


# ---------------------------------------------------------------------------
# volumes
# ---------------------------------------------------------------------------
# ":scl" = header value scaling (scl_slope 2, scl_inter 10); "+ign" = every volume command of the
# program gets --ignore-scaling (stored values are converted)
# ":max" / ":minmax" = --input-max 256 alone / --input-min 64 --input-max 192 on every volume command
# (natively typed volume; the values are mapped to [0, 1], the info becomes float32)
IMAGE_CLASSES = ["uint8", "uint8:scl+ign", "uint8:max", "uint16:minmax", "float32", "uint8:rgb", "int16",
                 "uint8:c2", "float32:q", "uint16", "int16:scl", "float64", "uint8:c3", "uint32",
                 "uint16:scl+ign", "uint16:max"]
INT_CLASSES = ["uint8", "uint32", "uint16", "uint64"]
# programs that write slice stacks (PNG / TIFF): 8/16-bit grey, RGB, two directories as channels
SLICE_CLASSES = ["uint8", "uint16", "uint8:rgb", "uint8:c2", "uint16", "uint8"]
SLICE_INT_CLASSES = ["uint8", "uint16"]


THICK = [([6, 6, 40], [1.0, 1.0, 4.0]), ([40, 6, 6], [4.0, 1.0, 1.0]), ([6, 40, 6], [1.0, 4.0, 1.0]),
         ([5, 7, 44], [1.0, 1.0, 4.0]), ([7, 70, 5], [2.0, 8.0, 2.0]), ([72, 5, 6], [4.0, 1.0, 1.0]),
         ([9, 5, 72], [2.0, 1.0, 4.0]), ([20, 20, 40], [1.0, 1.0, 4.0])]


SLICE_LONG = [([3, 2, 270], [4.0, 4.0, 1.0]), ([6, 6, 40], [1.0, 1.0, 4.0]), ([2, 3, 140], [2.0, 2.0, 1.0]),
              ([5, 7, 44], [1.0, 1.0, 4.0])]


def pick_volume(rng, cmds, turn=0, allow_rgb=True):
    """Volume class for a program (selection only).  Sharded programs need
    cubic chunks -> isotropic voxels; compressed_segmentation needs an
    unsigned integer volume."""
    ops = [c["op"] for c in cmds]
    sharded = any(c["sh"] == "s110" for c in cmds)
    cseg = any(c["enc"] == "compressed_segmentation" for c in cmds)
    seg = any(c["type"] == "segmentation" for c in cmds)
    r = rng.random()
    if sharded:
        voxel = [1.0, 1.0, 1.0]
        if r < 0.7:
            shape = [rng.randint(257, 300), rng.randint(2, 4), rng.randint(2, 3)]
        elif r < 0.9:
            shape = [rng.randint(130, 200), rng.randint(3, 5), rng.randint(2, 4)]
        else:
            shape = [rng.randint(30, 64), rng.randint(4, 6), rng.randint(3, 4)]
    else:
        if r < 0.6:
            voxel = rng.choice([[1.0, 2.0, 4.0], [1.0, 4.0, 4.0], [1.0, 2.0, 2.0], [0.5, 1.0, 4.0]])
            shape = [rng.randint(257, 320), rng.randint(2, 4), rng.randint(2, 3)]
        elif r < 0.75:
            voxel = rng.choice([[2.0, 1.0, 4.0], [4.0, 4.0, 1.0]])
            shape = [rng.randint(2, 4), rng.randint(2, 3), rng.randint(2, 3)]
            shape[voxel.index(1.0)] = rng.randint(257, 310)
        elif r < 0.9:
            voxel = rng.choice([[1.0, 4.0, 4.0], [1.0, 1.0, 2.0]])
            shape = [rng.randint(140, 250), rng.randint(3, 6), rng.randint(2, 4)]
        else:
            voxel = [1.0, 1.0, 1.0]
            shape = [rng.randint(20, 64), rng.randint(4, 6), rng.randint(3, 5)]
    if not sharded and turn % 3 == 1:
        # thick slices: the extent along the thick axis exceeds that axis' chunk size at a
        # computed scale whose chunk sizes differ between the axes (all permutations of the
        # thick axis, the slice axis Z first)
        shape, voxel = THICK[(turn // 3) % len(THICK)]
        shape, voxel = list(shape), list(voxel)
    if any(op == "Slices" for op in ops) and turn % 2 == 0:
        # slice stacks: let the slice axis (Z for the exported code RPI) span several slice groups
        if sharded:
            shape, voxel = [rng.randint(2, 3), rng.randint(2, 3), rng.randint(257, 290)], [1.0, 1.0, 1.0]
        else:
            shape, voxel = SLICE_LONG[(turn // 2) % len(SLICE_LONG)]
            shape, voxel = list(shape), list(voxel)
    spec = {"shape": shape, "voxel": voxel, "kind": "labels" if seg else rng.choice(["noise", "ramp"]),
            "perfect": True}
    slices = any(op in ("Slices", "HandInfo") for op in ops)
    if cseg or seg:
        pool = SLICE_INT_CLASSES if slices else INT_CLASSES
    else:
        pool = SLICE_CLASSES if slices else IMAGE_CLASSES
    klass = pool[turn % len(pool)]
    spec["dtype"] = klass.split(":")[0]
    if klass == "float32:q":
        spec["quarters"] = True
    if ":scl" in klass:
        spec["scl"] = [2.0, 10.0]
        spec["ignore_scaling"] = klass.endswith("+ign")
    if klass.endswith(":max"):
        spec["input_range"] = [None, 256]
    if klass.endswith(":minmax"):
        spec["input_range"] = [64, 192]
    if (klass in ("int16", "float64") or (":scl" in klass and not klass.endswith("+ign"))
            or "input_range" in spec):
        spec["perfect"] = False           # data type adjusted by --generate-info: exit status 4
    if klass.startswith("uint8:c") and not sharded:
        spec["shape"] = shape + [int(klass[-1])]
    if klass == "uint8:rgb" and allow_rgb:
        spec["rgb"] = True
    if "Convert" in ops:
        # sources with ENTIRELY zero chunks: a chunk-aligned slab of background (128 voxels along
        # the longest axis: a multiple of every chunk size in use), now and then an all-zero volume
        if turn % 2 == 0 and max(spec["shape"][:3]) >= 140:
            spec["zero_slab"] = 128
        elif turn % 4 == 1:
            spec["allzero"] = True
    spec["nall"] = min(3, pd.n_levels(spec["shape"], voxel))
    if pd.n_levels(spec["shape"], voxel) > 3:
        raise tlc.MachineryError("volume class with more than 3 scales: %r" % spec)
    return spec


def make_prog(rng, beh, turn=0):
    """turn: position of the program inside its stratum - volume classes rotate"""
    cmds = [pd.parse_cmd(s) for s in beh["prog"]]
    lay = {"A": rng.choice(list(pd.LAYOUTS)), "B": rng.choice(list(pd.LAYOUTS))}
    vol = pick_volume(rng, cmds, turn)
    return {"vol": vol, "cmds": cmds, "lay": lay, "ignore_scaling": bool(vol.pop("ignore_scaling", False)),
            "input_range": vol.pop("input_range", None),
            "explicit": rng.random() < 0.4, "seed": rng.randrange(1 << 30),
            "docs_shflag": rng.random() < 0.6,
            "shard_enc": rng.choice(["gzip", "raw"]),
            "slice_format": rng.choice(["png", "png", "tiff"]),
            "model_exits": beh["exits"],
            "feat": {k: beh[k] for k in ("pair", "rep", "op", "ex", "cls")}}


# ---------------------------------------------------------------------------
# selection of exported programs (ORDER / SELECT only)
# ---------------------------------------------------------------------------
def stratum(b):
    """Feature class of an exported program (all features computed by TLC)."""
    sharded = "S" in b["cls"]
    if b["pair"] and b["ex"] == 0:
        return "pair"
    if b["op"] == "AllInOne" and b["ex"] != 0:
        # the all-in-one command on a directory that already holds an info: written by
        # generate-scales-info, no chunk yet ("e"), or a complete earlier run ("f")
        return "aio-on-info-only" if b["cls"] == "e" else ("aio-rerun" if b["rep"] else "refused:AllInOne")
    if b["op"] == "GenScales" and b["ex"] != 0 and b["cls"] == "i":
        # generate-scales-info into a destination that already has an info: asked for OTHER
        # parameters than the info there was generated with, or for the same ones again
        last = b["prog"][-1].split("|")
        others = [s.split("|") for s in b["prog"][:-1] if s.startswith(("GenScales|%s|" % last[1],
                                                                         "AllInOne|%s|" % last[1]))]
        if others and all(o[3:5] != last[3:5] for o in others):
            return "genscales-other-params"
        return "genscales-again"
    if b["rep"] and b["op"] in DATA_OPS and b["ex"] == 0:
        if b["op"] == "Convert":
            return "repeat-convert:" + b["cls"]
        if b["op"] == "Slices":
            return "repeat-slices-sharded" if sharded else "repeat-slices"
        return "repeat-data-sharded" if sharded else "repeat-data"
    if b["rep"] and b["op"] in DATA_OPS:
        return "repeat-data-refused"
    if b["rep"]:
        return "repeat-info"
    if b["op"] == "Convert" and b["ex"] == 0:
        if b["cls"].endswith("s"):
            return "convert-from-slices"
        return "convert:" + b["cls"]
    if b["op"] in ("Compute", "Stats") and b["ex"] == 0 and b["cls"].endswith("s"):
        return "slices-" + b["op"].lower()
    if b["op"] == "Stats" and b["ex"] == 0:
        return "stats-sharded" if sharded else "stats"
    if b["ex"] != 0:
        return "refused:" + b["op"]       # precondition not met: must fail and change nothing
    if b["op"] in ("Vol", "Compute") and sharded:
        return "sharded-data"
    return "other"


QUOTA = [("pair", 0.27), ("aio-on-info-only", 0.04), ("aio-rerun", 0.02),
         ("genscales-other-params", 0.04), ("genscales-again", 0.02),
         ("repeat-data", 0.08), ("repeat-data-sharded", 0.06),
         ("repeat-slices", 0.05), ("repeat-slices-sharded", 0.03), ("convert-from-slices", 0.04),
         ("slices-compute", 0.03), ("slices-stats", 0.02),
         ("repeat-convert:PPkeep", 0.02), ("repeat-convert:PPcopy", 0.02),
         ("repeat-convert:SSkeep", 0.02), ("repeat-convert:PSkeep", 0.02),
         ("repeat-info", 0.04), ("repeat-data-refused", 0.03),
         ("convert:PPkeep", 0.03), ("convert:PSkeep", 0.03), ("convert:PPcopy", 0.03),
         ("convert:SPkeep", 0.03), ("convert:SScopy", 0.03), ("convert:SSkeep", 0.03),
         ("stats", 0.03), ("stats-sharded", 0.03),
         ("refused:Vol", 0.01), ("refused:Compute", 0.01), ("refused:Convert", 0.01),
         ("refused:Stats", 0.01), ("refused:GenScales", 0.01), ("refused:AllInOne", 0.01),
         ("refused:GenInfo", 0.01), ("refused:Edit", 0.005), ("refused:Slices", 0.01),
         ("refused:HandInfo", 0.005),
         ("sharded-data", 0.04), ("other", 0.03)]


def select(ctx, behs, n):
    by = {}
    for b in behs:
        by.setdefault(stratum(b), []).append(b)
    for v in by.values():
        v.sort(key=lambda b: json.dumps(b["prog"]))
        ctx.rng.shuffle(v)
    # the pair stratum: spread over the option sets of the all-in-one command
    if "pair" in by:
        groups = {}
        for b in by["pair"]:
            key = tuple(sorted(s for s in b["prog"] if s.startswith("AllInOne")))
            groups.setdefault(key, []).append(b)
        order = []
        keys = sorted(groups)
        ctx.rng.shuffle(keys)
        while any(groups.values()):
            for k in keys:
                if groups[k]:
                    order.append(groups[k].pop())
        by["pair"] = order
    chosen = []
    want = {k: max(1, int(round(q * n))) for k, q in QUOTA}
    for k, _ in QUOTA:
        take = by.get(k, [])[:want[k]]
        by[k] = by.get(k, [])[len(take):]
        if k == "pair" and take:
            # few distinct pair programs exist (option sets x order): run them again on
            # other volume classes / layouts until the quota is filled
            j = 0
            while len(take) < want[k]:
                take.append(take[j])
                j += 1
        chosen += take
    # fill up / trim to n, round robin over the strata
    keys = [k for k, _ in QUOTA]
    i = 0
    while len(chosen) < n and any(by.get(k) for k in keys):
        k = keys[i % len(keys)]
        if by.get(k):
            chosen.append(by[k].pop(0))
        i += 1
    return chosen[:max(n, sum(want.values()))], {k: len(v) for k, v in by.items()}   # never drop a stratum's minimum


def mesh_programs(ctx):
    """GROWTH (every command-line tool is an action of the command state machine):
    mesh-to-precomputed and link-mesh-fragments interleaved with the volume
    commands.  Witness programs exported by Gen_Pipeline over the mesh alphabet
    (Gen_Pipeline_mesh*.cfg), one per (last command, its class, exit status,
    repeated) among the programs that contain a mesh command, run as real
    sub-processes on small label volumes with GIfTI surfaces and CSV label
    tables.  C19's exit-0 clause is a verdict; what only the tool help texts
    promise is DRIFT (growth:*)."""
    recs = ctx.export("Gen_Pipeline", ctx.pick("Gen_Pipeline_mesh_quick", "Gen_Pipeline_mesh"), workers=1)
    behs = [json.loads(r[1]) for r in recs]
    behs = [b for b in behs if any(s.startswith(("Mesh|", "Link|")) for s in b["prog"])]
    behs.sort(key=lambda b: json.dumps(b["prog"]))
    ctx.rng.shuffle(behs)
    by = {}
    for b in behs:
        by.setdefault((b["op"], b["cls"], b["ex"], b["rep"]), []).append(b)
    n = ctx.pick(30, 240)
    chosen = []
    keys = sorted(by, key=lambda k: (k[0] not in ("Mesh", "Link"), json.dumps(k)))
    i = 0
    while len(chosen) < n and any(by[k] for k in keys):
        k = keys[i % len(keys)]
        if by[k]:
            chosen.append(by[k].pop())
        i += 1
    ctx.notes["mesh_programs_exported"] = len(behs)
    ctx.notes["mesh_strata"] = len(keys)
    progs = []
    for t, b in enumerate(chosen):
        cmds = [pd.parse_cmd(s) for s in b["prog"]]
        sharded = any(c["sh"] == "s110" for c in cmds)
        shape = ([ctx.rng.randint(257, 290), 3, 2] if t % 3 else [ctx.rng.randint(130, 200), 4, 3])
        voxel = [1.0, 1.0, 1.0] if sharded or t % 2 else [1.0, 2.0, 4.0]
        vol = {"shape": shape, "voxel": voxel, "dtype": ["uint8", "uint32", "uint16"][t % 3], "kind": "labels",
               "perfect": True, "nall": min(3, pd.n_levels(shape, voxel))}
        progs.append({"vol": vol, "cmds": cmds,
                      "lay": {"A": ctx.rng.choice(list(pd.LAYOUTS)), "B": ctx.rng.choice(list(pd.LAYOUTS))},
                      "explicit": ctx.rng.random() < 0.4, "seed": ctx.rng.randrange(1 << 30),
                      "docs_shflag": ctx.rng.random() < 0.6, "shard_enc": ctx.rng.choice(["gzip", "raw"]),
                      "feat": {k: b[k] for k in ("pair", "rep", "op", "ex", "cls")}})
    return progs


def directed_programs(ctx):
    """Option sets / input classes the exported alphabet does not span:
      - sharded datasets whose chunk grid is NOT a power of two on at least two axes, several
        chunks per axis (--target-chunk-size 8), with the bit triples 1,1,0 / 2,1,0 / 2,2,0 /
        0,0,0 / 3,0,0, through the real command lines (default on-disk buffering of the writer);
      - --encoding compressed_segmentation WITHOUT --type segmentation (the info type stays
        "image"), default downscaling method: all-in-one versus steps (clause (a));
      - compute-scales run again after a run that failed half way (one input chunk hidden, then
        restored): exit 0 means complete."""
    C = pd.cmd
    rng = ctx.rng
    out = []

    def prog(vol, cmds, **kw):
        p = {"vol": vol, "cmds": cmds, "lay": {"A": rng.choice(list(pd.LAYOUTS)), "B": rng.choice(list(pd.LAYOUTS))},
             "explicit": rng.random() < 0.4, "seed": rng.randrange(1 << 30), "docs_shflag": rng.random() < 0.6,
             "shard_enc": rng.choice(["gzip", "raw"]), "feat": {"env": "directed"}}
        p.update(kw)
        return p

    def vol(shape, voxel, dtype="uint8", tgt=64, **kw):
        v = {"shape": shape, "voxel": voxel, "dtype": dtype, "kind": kw.pop("kind", "noise"), "perfect": True,
             "nall": min(3, pd.n_levels(shape, voxel, tgt))}
        v.update(kw)
        return v

    iso = [1.0, 1.0, 1.0]
    gen = lambda sh, typ="image", enc="raw", mx="all": [
        C("GenInfo", "A", sh=sh), C("GenScales", "A", src="A", type=typ, enc=enc, max=mx)]
    # sharded, chunk grids 3x3x3 / 3x2x1 / 3x3x2 at the full resolution
    triples = [[1, 1, 0], [2, 1, 0], [2, 2, 0], [0, 0, 0], [3, 0, 0]]
    shapes = [[20, 19, 18], [20, 12, 5], [18, 20, 12]]
    if not ctx.quick:
        triples += [[1, 2, 1], [3, 1, 0], [0, 3, 0], [2, 0, 2]]
        shapes += [[12, 20, 19], [5, 20, 12], [23, 17, 9]]
    k = 0
    for tr in triples:
        for shape in (shapes if not ctx.quick else [shapes[k % 2], shapes[(k + 1) % 3]]):
            k += 1
            v = vol(shape, iso, ["uint8", "uint16"][k % 2], tgt=8)
            cmds = gen("s110") + [C("Vol", "A"), C("Compute", "A", m=["auto", "stride"][k % 2]), C("Stats", "A")]
            if k % 2:
                cmds += [C("Convert", "B", src="A", copy="copy")]
            else:
                cmds += [C("Vol", "A"), C("Compute", "A", m="stride")]
            out.append(prog(v, cmds, tgt=8, shard_triple=tr, lay={"A": "deep-gz", "B": "deep-gz"}))
    # compressed_segmentation without --type segmentation: all-in-one versus steps
    for n, (dt, shape, voxel) in enumerate([("uint32", [rng.randint(257, 300), 3, 2], [1.0, 2.0, 4.0]),
                                            ("uint8", [rng.randint(140, 250), 4, 3], [1.0, 4.0, 4.0]),
                                            ("uint64", [rng.randint(257, 290), 3, 3], [1.0, 1.0, 1.0])]):
        v = vol(shape, voxel, dt, kind="labels")
        aio = [C("AllInOne", "A", type="image", enc="compressed_segmentation", m="auto")]
        steps = [C("GenInfo", "B", sh="nosh"),
                 C("GenScales", "B", src="B", type="image", enc="compressed_segmentation", max="all"),
                 C("Vol", "B"), C("Compute", "B", m="auto")]
        out.append(prog(v, (aio + steps) if n % 2 == 0 else (steps + aio), explicit=False))
    # --input-min (non-zero) together with --input-max: all-in-one versus steps (the range is a
    # power of two wide, so that the mapped values are exact)
    for n, (dt, rngopt) in enumerate([("uint8", [10, 266]), ("uint16", [-5, 251])]):
        v = vol([rng.randint(257, 300), 3, 2], [1.0, 2.0, 4.0], dt)
        v["perfect"] = False            # the info becomes float32: --generate-info exits 4
        aio = [C("AllInOne", "A", type="image", enc="raw", m="auto")]
        steps = [C("GenInfo", "B", sh="nosh"), C("GenScales", "B", src="B", type="image", enc="raw", max="all"),
                 C("Vol", "B"), C("Compute", "B", m="auto")]
        out.append(prog(v, (aio + steps) if n == 0 else (steps + aio), input_range=rngopt))
    # --outside-value on every downscaling command, odd sizes along the downscaled axes (the border
    # blocks are completed with it): all-in-one versus steps; the values differ from the data range
    # so that a command that ignores the option writes other border voxels
    for n, (dt, ov) in enumerate([("uint8", 250), ("uint16", 60000), ("uint8", 100.5)]):
        v = vol([rng.choice([131, 133, 145, 259]), 3, 3], iso, dt)
        v["hi"] = 40
        aio = [C("AllInOne", "A", type="image", enc="raw", m=["auto", "average"][n % 2])]
        steps = [C("GenInfo", "B", sh="nosh"), C("GenScales", "B", src="B", type="image", enc="raw", max="all"),
                 C("Vol", "B"), C("Compute", "B", m=["auto", "average"][n % 2])]
        out.append(prog(v, (aio + steps) if n % 2 == 0 else (steps + aio), outside_value=ov))
    # sizes that are EXACT multiples of the chunk size on one axis (one chunk exactly, two chunks
    # exactly): all-in-one versus steps
    for n, shape in enumerate([[3, 2, 64], [2, 3, 128], [64, 2, 3], [2, 128, 3], [64, 64, 1]]):
        v = vol(shape, iso, ["uint8", "uint16"][n % 2])
        aio = [C("AllInOne", "A", type="image", enc="raw", m="auto")]
        steps = [C("GenInfo", "B", sh="nosh"), C("GenScales", "B", src="B", type="image", enc="raw", max="all"),
                 C("Vol", "B"), C("Compute", "B", m="auto"), C("Stats", "B")]
        out.append(prog(v, (aio + steps) if n % 2 == 0 else (steps + aio)))
    # compute-scales again after a run that failed while writing the last scale
    for n, (shape, tgt, dt) in enumerate([([70, 10, 8], 16, "uint8"), ([150, 7, 5], 32, "uint16")]):
        v = vol(shape, iso, dt, tgt=tgt)
        v["nall"] = min(v["nall"], 2)
        out.append(prog(v, gen("nosh", mx="two") + [C("Vol", "A"), C("Damage", "A", m="hide"),
                                                    C("Compute", "A", m="auto"), C("Restore", "A"),
                                                    C("Compute", "A", m="auto"), C("Stats", "A")], tgt=tgt))
    return out


def obstructed_programs(ctx):
    """ENVIRONMENT class "obstructed destination": a regular file occupies the path of the last
    scale's directory (plain and sharded datasets) before the data-writing commands run.  The
    exit-status clause is judged as everywhere: a command that exits 0 must have written every
    chunk it is responsible for, readable; refusing with a non-zero status is fine."""
    C = pd.cmd
    rng = ctx.rng
    out = []

    def prog(vol, cmds, **kw):
        p = {"vol": vol, "cmds": cmds, "lay": {"A": rng.choice(list(pd.LAYOUTS)), "B": rng.choice(list(pd.LAYOUTS))},
             "explicit": rng.random() < 0.4, "seed": rng.randrange(1 << 30), "docs_shflag": rng.random() < 0.6,
             "shard_enc": rng.choice(["gzip", "raw"]), "feat": {"env": "obstructed"}}
        p.update(kw)
        return p

    def vol(shape, voxel, dtype="uint8"):
        return {"shape": shape, "voxel": voxel, "dtype": dtype, "kind": "noise", "perfect": True,
                "nall": min(3, pd.n_levels(shape, voxel))}

    iso = [1.0, 1.0, 1.0]
    gen = lambda sh, typ="image", enc="raw": [C("GenInfo", "A", sh=sh),
                                              C("GenScales", "A", src="A", type=typ, enc=enc, max="all")]
    variants = [("s110", [rng.randint(257, 290), 3, 2], iso), ("nosh", [rng.randint(257, 300), 3, 2], [1.0, 2.0, 4.0]),
                ("s110", [rng.randint(130, 200), 4, 3], iso)]
    if not ctx.quick:
        variants += [(rng.choice(["s110", "nosh"]), [rng.randint(130, 300), rng.randint(2, 4), rng.randint(2, 3)], iso)
                     for _ in range(12)]
    for k, (sh, shape, voxel) in enumerate(variants):
        v = vol(shape, voxel, ["uint8", "uint16"][k % 2])
        # pyramid computation into an obstructed last scale; statistics afterwards
        out.append(prog(v, gen(sh) + [C("Obstruct", "A"), C("Vol", "A"), C("Compute", "A", m="auto"),
                                      C("Compute", "A", m="auto"), C("Stats", "A")]))
    # conversion into an obstructed destination (plain and sharded), single-scale volume conversion
    v = vol([rng.randint(257, 290), 3, 2], iso)
    out.append(prog(v, gen("nosh") + [C("Vol", "A"), C("Compute", "A", m="auto"),
                                      C("GenScales", "B", src="A", type="image", enc="raw", max="all"),
                                      C("Edit", "B", sh="s110"), C("Obstruct", "B"),
                                      C("Convert", "B", src="A", copy="keep")]))
    out.append(prog(vol([rng.randint(140, 250), 4, 3], [1.0, 4.0, 4.0], "uint16"),
                    gen("nosh") + [C("Vol", "A"), C("Compute", "A", m="auto"),
                                   C("GenScales", "B", src="A", type="image", enc="raw", max="all"),
                                   C("Obstruct", "B"), C("Convert", "B", src="A", copy="keep")]))
    out.append(prog(vol([40, 5, 4], iso), gen("s110") + [C("Obstruct", "A"), C("Vol", "A"), C("Stats", "A")]))
    # one chunk file / one shard file of the first scale cannot be created
    for sh, shape, voxel in (("s110", [rng.randint(257, 290), 3, 2], iso),
                             ("nosh", [rng.randint(257, 300), 3, 2], [1.0, 2.0, 4.0])):
        out.append(prog(vol(shape, voxel), gen(sh) + [C("Obstruct", "A", m="first"), C("Vol", "A"),
                                                      C("Compute", "A", m="auto"), C("Stats", "A")]))
    out.append(prog(vol([rng.randint(257, 290), 3, 2], iso),
                    [C("HandInfo", "A", sh="nosh"), C("GenScales", "A", src="A", type="image", enc="raw", max="all"),
                     C("Edit", "A", sh="s110"), C("Obstruct", "A", m="first"), C("Slices", "A", code="RPI")]))
    # the info cannot be written: a directory named "info"; a destination that already has an
    # info generated with other parameters (other target chunk size is not an option of the
    # model: other --type / --encoding / --max-scales)
    v = vol([rng.randint(257, 300), 3, 2], [1.0, 2.0, 4.0])
    out.append(prog(v, [C("GenInfo", "A", sh="nosh"), C("Obstruct", "A", m="info"),
                        C("GenScales", "A", src="A", type="image", enc="raw", max="all"),
                        C("AllInOne", "A", type="image", enc="raw", m="auto"), C("Stats", "A")]))
    out.append(prog(v, [C("GenInfo", "A", sh="nosh"), C("Obstruct", "B", m="info"),
                        C("GenScales", "B", src="A", type="segmentation", enc="compressed_segmentation", max="one"),
                        C("AllInOne", "B", type="image", enc="raw", m="auto")]))
    out.append(prog(v, gen("nosh") + [C("GenScales", "A", src="A", type="segmentation",
                                        enc="compressed_segmentation", max="one"),
                                      C("GenScales", "A", src="A", type="image", enc="raw", max="two"),
                                      C("Vol", "A"), C("Compute", "A", m="auto"), C("Stats", "A")]))
    return out


def nontrivial_key(p):
    return json.dumps([[pd.cmd_str(c) for c in p["cmds"]], p["vol"]["dtype"], p["vol"]["shape"],
                       p["vol"]["voxel"], bool(p["vol"].get("rgb")), p["lay"]])


def is_nontrivial(case):
    """RULE: some command after the first changed a non-empty directory."""
    evs = case["events"]
    for k in range(1, len(evs)):
        d = evs[k]["cmd"]["d"]
        before = evs[k - 1]["snap"][d]
        if before["tree"] not in ("none",) and (evs[k]["snap"][d]["tree"] != before["tree"]
                                                or evs[k]["cmd"]["op"] == "Stats"):
            return True
    return False


def run_mc(ctx):
    if ctx.quick:
        ctx.mc("MC_Pipeline", "MC_Pipeline_quick", workers=16)
        ctx.mc("MC_Pipeline", "MC_Pipeline_all_quick", workers=16)
    else:
        ctx.mc("MC_Pipeline", "MC_Pipeline", workers=16, coverage=True)
        ctx.mc("MC_Pipeline", "MC_Pipeline_all", workers=16)
    # non-vacuity: the model must tell the deviating designs apart
    ctx.mc("MC_Pipeline", ctx.pick("MC_Pipeline_mesh_quick", "MC_Pipeline_mesh"), workers=16)
    for cfg, inv in (("MC_Pipeline_devMethod", "AllInOneEqualsSteps"),
                     ("MC_Pipeline_devLayout", "SuccessMeansComplete"),
                     ("MC_Pipeline_devMesh", "")):
        bad = tlc.model_check("MC_Pipeline", cfg, workers=8)
        if bad["ok"] or (inv and inv not in bad["invariant_violated"]):
            raise tlc.MachineryError("deviation switch %s did not violate %s (vacuous model)" % (cfg, inv))
        ctx.notes["switch_" + cfg] = bad["invariant_violated"]


def export_programs(ctx):
    recs = ctx.export("Gen_Pipeline", ctx.pick("Gen_Pipeline_quick", "Gen_Pipeline"), workers=1)
    behs = [json.loads(r[1]) for r in recs]
    ctx.notes["programs_exported"] = len(behs)
    return behs


def run(ctx):
    ctx.cov["rule"] = RULE
    ctx.assumptions += [
        "clause (a) compares an all-in-one run on an empty directory with exactly GenInfo; GenScales "
        "(same --type/--encoding, no --max-scales); Vol; Compute (same method) on an empty directory, "
        "all exit 0 (GenInfo may exit 4); layout options do not enter (decoded contents are compared)",
        "clause (b) applies when the first of two identical consecutive commands exited 0",
        "clause (c) is judged under the environment condition 'obstructed destination' as well (last "
        "scale's directory, one chunk / shard file path, the info path): a command that cannot write may "
        "exit non-zero, but not 0 with files missing",
        "clause (c) for generate-scales-info: exit 0 means the info on disk has the requested type, "
        "encoding and maximum number of scales (oracle:SuccessButWrongInfo)",
        "--input-min / --input-max are options of the program (given to every volume command or to none); "
        "--input-min alone is rejected by every tool's argument parser and is not exercised",
        "--ignore-scaling is an option of the program: it is given to every volume command (generate-info, "
        "conversion, all-in-one) or to none",
        "decoded contents are read back in-process with fresh accessors of the package under test",
        "TLC 1.8 evaluates the specification faithfully; the driver only records and re-encodes",
    ]
    run_mc(ctx)
    behs = export_programs(ctx)
    n = ctx.pick(52, 600)
    chosen, left = select(ctx, behs, n)
    progs = []
    ctx.notes["strata_selected"] = {}
    turns = {}
    for b in chosen:
        k = stratum(b)
        fam = (k, any("|segmentation|" in s for s in b["prog"]))     # volume classes rotate per family
        progs.append(make_prog(ctx.rng, b, turn=turns.get(fam, 0)))
        turns[fam] = turns.get(fam, 0) + 1
        ctx.notes["strata_selected"][k] = ctx.notes["strata_selected"].get(k, 0) + 1
    env_progs = obstructed_programs(ctx)
    ctx.notes["obstructed_destination_programs"] = len(env_progs)
    directed = directed_programs(ctx)
    ctx.notes["directed_programs"] = len(directed)
    mesh = mesh_programs(ctx)
    ctx.notes["mesh_programs"] = len(mesh)
    progs += env_progs + directed + mesh
    for p in progs:
        # the separate steps succeed on the same input: an all-in-one run the design accepts
        # must succeed as well (fault-free programs only, pipeline_check.must_ops)
        # ... and so must every step of the documented sequence (a tool that falls over on valid input
        # cannot "produce the same info and voxels as the sequence of separate commands")
        p.setdefault("mustops", ["AllInOne", "GenInfo", "GenScales", "Vol", "Slices", "Compute", "Convert",
                                 "Stats", "Mesh", "Link"])
    res = pc.run_and_judge(ctx, progs, workers=12, chunk=120, label="gen")
    agree = 0
    for p, case, (st, clause, pos) in res:
        ctx.count(len(case["events"]))
        if is_nontrivial(case):
            ctx.nontrivial(nontrivial_key(p))
        if st == "ok":
            agree += 1
    ctx.notes["program_list"] = [{"cmds": [pd.cmd_str(c) for c in p["cmds"]],
                              "exits": [e["exit"] for e in case["events"]],
                              "vol": "%s %s %s%s" % (p["vol"]["dtype"], p["vol"]["shape"], p["vol"]["voxel"],
                                                     " rgb" if p["vol"].get("rgb") else ""),
                              "verdict": list(v)} for p, case, v in res][:ctx.pick(40, 80)]
    ctx.notes["programs_run"] = len(res)
    ctx.notes["commands_run"] = sum(len(c["events"]) for _, c, _ in res)
    ctx.notes["design_agreements"] = agree
    ctx.notes["exit_status_histogram"] = {}
    for _, c, _ in res:
        for ev in c["events"]:
            k = "%s:%d" % (ev["cmd"]["op"], ev["exit"])
            ctx.notes["exit_status_histogram"][k] = ctx.notes["exit_status_histogram"].get(k, 0) + 1
    for p, case, v in res[:3]:
        ctx.sample({"cmds": [pd.cmd_str(c) for c in p["cmds"]], "vol": p["vol"], "lay": p["lay"],
                    "exits": [e["exit"] for e in case["events"]], "verdict": list(v)})


def replay(ctx, path):
    return pc.replay_prog(ctx, path)


# ---------------------------------------------------------------------------
# self-test of the trace specification: corrupt recorded traces of a correct
# run and expect the clause that names the corruption
# ---------------------------------------------------------------------------
def selftest(ctx):
    C = pd.cmd
    vol = {"shape": [300, 3, 2], "dtype": "uint8", "voxel": [1.0, 2.0, 4.0], "kind": "noise",
           "perfect": True, "nall": 3}
    base = {"vol": vol, "lay": {"A": "deep-gz", "B": "flat-plain"}, "seed": 5, "cmds": [
        C("AllInOne", "A", type="image", enc="raw", m="auto"), C("GenInfo", "B", sh="nosh"),
        C("GenScales", "B", src="B", type="image", enc="raw", max="all"), C("Vol", "B"),
        C("Vol", "B"), C("Stats", "A"), C("Convert", "B", src="A", copy="keep")]}
    pair = dict(base, cmds=base["cmds"][:4] + [C("Compute", "B", m="auto")])
    work = ctx.scratch("verif_pipe_")
    c1, c2 = pd.run_programs(work, [base, pair], workers=2)
    import copy

    def mut(case, f):
        c = copy.deepcopy(pd.strip_case(case))
        f(c)
        return c

    def other_array(c, idx):
        a = copy.deepcopy(c["arrays"][idx - 1])
        a["v"][0] = a["v"][0] + 1
        c["arrays"].append(a)
        return len(c["arrays"])

    def m_repeat(c):
        sc = c["events"][4]["snap"]["B"]["scales"][0]
        sc["vox"] = other_array(c, sc["vox"])

    def m_missing(c):
        c["events"][3]["snap"]["B"]["scales"][0]["st"][0] = "absent"
        c["events"][3]["snap"]["B"]["scales"][0]["vox"] = 0

    def m_unreadable(c):
        c["events"][3]["snap"]["B"]["scales"][0]["st"][0] = "unreadable"
        c["events"][3]["snap"]["B"]["scales"][0]["vox"] = 0

    def m_source(c):
        c["events"][6]["snap"]["A"]["tree"] = "changed"

    def m_convert(c):
        sc = c["events"][6]["snap"]["B"]["scales"][1]
        sc["vox"] = other_array(c, sc["vox"])

    def m_count(c):
        c["events"][5]["report"]["lines"][0]["n"] += 1

    def m_bytes(c):
        c["events"][5]["report"]["lines"][1]["size"]["mant"] += 2

    def m_total(c):
        c["events"][5]["report"]["total"]["n"] -= 1

    def m_info(c):
        for e in c["events"][4:]:
            e["snap"]["B"]["info"]["txt"] += " "

    def m_vox(c):
        sc = c["events"][4]["snap"]["B"]["scales"][2]
        sc["vox"] = other_array(c, sc["vox"])

    def m_exit(c):
        c["events"][1]["exit"] = 3

    expect = [
        (c1, None, "ok"), (c2, None, "ok"),
        (c1, m_repeat, "oracle:RepeatChangedContents"),
        (c1, m_missing, "oracle:SuccessButMissingChunk"),
        (c1, m_unreadable, "oracle:SuccessButUnreadable"),
        (c1, m_source, "oracle:SourceChanged"),
        (c1, m_convert, "oracle:ConvertVoxelsDiffer"),
        (c1, m_count, "oracle:StatsChunkCount"),
        (c1, m_bytes, "oracle:StatsByteSize"),
        (c1, m_total, "oracle:StatsTotals"),
        (c2, m_info, "oracle:AllInOneInfoDiffers"),
        (c2, m_vox, "oracle:AllInOneVoxelsDiffer"),
        (c1, m_exit, "design:ExitCode"),
    ]
    cases = [mut(c, f) if f else pd.strip_case(c) for c, f, _ in expect]
    for k, c in enumerate(cases):
        c["tid"] = k + 1
    v = ctx.judge("Trace_Pipeline", cases)
    failed = 0
    for k, (_, f, want) in enumerate(expect):
        got = v[k + 1][1]
        flag = "ok " if got == want else "FAIL"
        if got != want:
            failed += 1
        print("selftest %s %-14s expected %-32s got %s" % (flag, f.__name__ if f else "-", want, v[k + 1]))
    ctx.cleanup()
    return 0 if not failed else 2
