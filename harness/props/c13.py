"""C13 - re-encoding a dataset preserves its voxels exactly for lossless
targets, and leaves the source unchanged.

M    : MC_Pipeline - the command-level design with the Convert action
       (destination info's scales walked coarsest first, accessor chosen from
       the destination info) implies ConvertPreserves / SourceUntouched /
       SuccessMeansComplete / RepeatIsNoop on every program; the deviation
       switch CopyInfoLayout = "byOptions" must FAIL.
S->C : programs exported by Gen_Pipeline whose last command is a successful
       Convert (every source/destination storage class x copy/keep) are run
       on the real tools.
C->S : (main) conversions built from option classes: the source dataset is
       produced by the REAL tools (volume-to-precomputed --generate-info,
       generate-scales-info, volume-to-precomputed, compute-scales), the
       destination info by generate-scales-info --encoding/--type (+ the
       documented hand edit: wider data type, sharding specification) or
       --copy-info; convert-chunks runs as a sub-process (sharded flush in
       the exit handler), also from an http://127.0.0.1 source; both datasets
       are read back by fresh accessors; Trace_Pipeline judges
       ConvertVoxelsDiffer (every scale, every chunk of EVERY chunking the
       destination info declares, after the documented type conversion),
       SourceChanged, SuccessBut*, RepeatChangedContents.  Sharded
       destinations are additionally read by a reader written from the format
       text: the .shard files are re-encoded by harness/parsers.parse_shard and
       TLC locates every chunk with ShardFormat!SpecLookup under its
       compressed Morton code (ConvertSpecReaderDiffers), each scale under its
       own sharding parameters (destination infos with per-scale different
       bits / encodings).  Environment class "obstructed destination" (a
       chunk / shard file path or the last scale's directory is occupied):
       exit 0 still means everything readable.  The function API
       convert_chunks(src, dst, copy_info=True) is also called several times
       in ONE interpreter (unsharded and sharded sources, both orders).
       Environment class "source fault" (one source chunk cannot be read:
       transient 503 of the server, removed / truncated chunk file): exit 0 is
       the violation.  --copy-info into a destination that already holds a
       conversion made with another info: exit 0 => decodes by its own info to
       the source, a refusal leaves it as it was
       (RefusedCopyChangedDestination).  Sources with entirely zero chunks.
       Remote sources are
       served by a loopback server, plain and sharded multi-scale (scales that
       share shard numbers and chunk identifiers).
"""
import json

from .. import pipeline_check as pc
from .. import pipeline_driver as pd
from .. import tlc

LEVEL = "model_checking"
RULE = ("(sources: produced by the real tools from volumes or slice stacks, optionally re-tiled by hand "
        "with further chunk sizes; destinations: single or several chunk_sizes per scale, plain or "
        "sharded with bit triples on power-of-two and other chunk grids) "
        "a conversion is non-trivial when convert-chunks exited 0 on a source with >= 1 readable scale "
        "and source and destination differ in encoding, data type, file layout or sharding, or the "
        "source is remote, or the step is repeated; distinct = distinct (source class, destination "
        "class, data-type pair, channels, scales, copy/keep, remote, repeated) tuples")

C = pd.cmd
WIDER = {"uint8": ["uint16", "uint32", "uint64", "float32"],
         "uint16": ["uint32", "uint64", "float32"],
         "uint32": ["uint64"], "uint64": [], "float32": []}


# thick slices: (shape, voxel size); the last computed scale has chunk sizes that differ between
# axes and more than one chunk along the thick axis
THICK = [([6, 6, 40], [1.0, 1.0, 4.0]), ([40, 6, 6], [4.0, 1.0, 1.0]), ([6, 40, 6], [1.0, 4.0, 1.0]),
         ([5, 7, 44], [1.0, 1.0, 4.0]), ([7, 70, 5], [2.0, 8.0, 2.0]), ([72, 5, 6], [4.0, 1.0, 1.0]),
         ([9, 5, 72], [2.0, 1.0, 4.0])]


def conversion_classes(ctx):
    """Systematic list of conversion classes (dicts); the seeded rng only fills
    in sizes and layouts."""
    rng = ctx.rng
    out = []

    def add(**kw):
        base = {"src_dtype": "uint8", "src_enc": "raw", "src_type": "image", "src_sh": "nosh",
                "dst_enc": "raw", "dst_type": "image", "dst_dtype": "-", "dst_sh": "keep",
                "copy": "keep", "channels": 1, "method": "auto", "src_max": "all", "dst_max": "all",
                "remote": False, "repeat": False, "iso": False, "quarters": False, "offset": 0,
                "tgt": None, "stats": False,
                "src_bs": "-", "dst_bs": "-",        # compressed_segmentation block sizes ("bs4", "bs16x8x4")
                "shape": None, "voxel": None,        # fixed volume geometry (else drawn per family)
                "kind": None, "triple": None, "shard_enc": None, "shard_index_enc": None,
                "slices": None, "rgb": False, "slice_format": "png",   # source built from a slice stack
                "rechunk": "-",     # source re-tiled with further chunk sizes ("cs4", "cs8x4x8,4")
                "dst_cs": "-",      # further chunk sizes declared by the destination info
                "obstruct": None,   # environment: "first" (one chunk / shard file path of the first
                                    # scale is a directory) or "last" (the last scale's directory)
                "per_scale": None,  # destination: every scale ITS OWN sharding parameters / encodings
                "link": None,       # conversions run through the function API in one interpreter
                "zero": None,       # "slab": chunk-aligned zero background; "all": all-zero volume
                "src_fault": None,  # environment: "remote503" (the server fails the first chunk request
                                    # once), "remove" / "truncate" (one source chunk file)
                "prior": None,
                "fractions": False}  # float32 source with x.25 / x.5 / x.75 and negative values      # the destination already holds a conversion with ANOTHER info:
                                    # [type, encoding, data type or "-", sharding or "keep"]
        base.update(kw)
        out.append(base)

    # 1. same data type, other encoding / layout / sharding
    for sd in ("uint8", "uint16", "uint32", "uint64", "float32"):
        add(src_dtype=sd)
        add(src_dtype=sd, copy="copy")
    for sd in ("uint8", "uint16", "uint32", "uint64"):
        # raw -> compressed_segmentation (uint8/16 are widened to uint32 by generate-scales-info)
        add(src_dtype=sd, src_type="segmentation", dst_type="segmentation",
            dst_enc="compressed_segmentation", method="majority")
    for sd in ("uint32", "uint64"):
        # compressed_segmentation -> raw and -> compressed_segmentation
        add(src_dtype=sd, src_type="segmentation", src_enc="compressed_segmentation",
            dst_type="segmentation", dst_enc="raw", method="stride")
        add(src_dtype=sd, src_type="segmentation", src_enc="compressed_segmentation",
            dst_type="segmentation", dst_enc="compressed_segmentation", copy="copy")
    # 2. widened data types (hand edit of the destination info)
    for sd, wides in WIDER.items():
        for dd in wides:
            add(src_dtype=sd, dst_dtype=dd)
    add(src_dtype="uint8", dst_dtype="uint64", src_type="segmentation", dst_type="segmentation",
        dst_enc="compressed_segmentation", method="majority")
    add(src_dtype="uint32", dst_dtype="uint64", src_type="segmentation", dst_type="segmentation",
        src_enc="compressed_segmentation", dst_enc="compressed_segmentation")
    # 3. conversions through the rounding / clipping path whose values are preserved,
    #    or rounded to the (unique) nearest integer
    add(src_dtype="uint16", dst_dtype="uint8")                 # all values <= 200: clip is the identity
    add(src_dtype="float32", dst_dtype="uint32", method="stride")   # integral floats
    add(src_dtype="float32", dst_dtype="uint8", method="average")
    add(src_dtype="float32", dst_dtype="uint16", quarters=True, method="stride")   # x.25 -> x
    add(src_dtype="uint32", dst_dtype="float32")
    # 4. unsharded <-> sharded (isotropic volumes: the sharded accessor needs cubic chunks)
    for sd, dd in (("uint8", "-"), ("uint16", "uint32"), ("uint8", "float32"), ("uint64", "-")):
        add(src_dtype=sd, dst_dtype=dd, dst_sh="s110", iso=True)                 # P -> S
        add(src_dtype=sd, dst_dtype=dd, src_sh="s110", dst_sh="nosh", iso=True)  # S -> P
        add(src_dtype=sd, dst_dtype=dd, src_sh="s110", iso=True)                 # S -> S
    add(src_dtype="uint8", src_sh="s110", copy="copy", iso=True)                 # S --copy-info
    add(src_dtype="uint32", src_type="segmentation", src_enc="compressed_segmentation",
        dst_type="segmentation", dst_enc="compressed_segmentation", src_sh="s110", copy="copy", iso=True)
    add(src_dtype="uint16", src_type="segmentation", dst_type="segmentation",
        dst_enc="compressed_segmentation", dst_sh="s110", iso=True, method="majority")
    # 5. channels
    for ch in (2, 3):
        add(src_dtype="uint8", channels=ch, dst_dtype="uint16")
        add(src_dtype="uint8", channels=ch, copy="copy")
    add(src_dtype="uint8", channels=2, dst_sh="s110", iso=True)
    # 6. fewer scales in the destination, other chunk sizes per scale
    add(src_dtype="uint8", dst_max="one")
    add(src_dtype="uint16", dst_max="two", dst_dtype="uint32")
    add(src_dtype="uint8", tgt=32, dst_dtype="uint16")
    add(src_dtype="uint8", tgt=16, iso=True, dst_sh="s110")
    # 7. large labels (beyond 2^31 and 2^53)
    add(src_dtype="uint32", offset=3_000_000_000, dst_dtype="uint64", src_type="segmentation",
        dst_type="segmentation", dst_enc="compressed_segmentation", method="stride")
    add(src_dtype="uint64", offset=(1 << 53) + 12345, src_type="segmentation", dst_type="segmentation",
        dst_enc="compressed_segmentation", method="stride")
    add(src_dtype="uint64", offset=(1 << 63) + 7, src_type="segmentation", dst_type="segmentation",
        src_enc="compressed_segmentation", dst_enc="raw", method="majority")
    # 8. remote sources, repeated conversions, statistics of the destination
    add(src_dtype="uint8", remote=True, dst_dtype="uint16")
    add(src_dtype="uint16", remote=True, copy="copy")
    add(src_dtype="uint8", remote=True, src_sh="s110", iso=True)
    add(src_dtype="uint8", repeat=True, dst_dtype="uint32")
    add(src_dtype="uint8", repeat=True, copy="copy")
    add(src_dtype="uint8", repeat=True, dst_sh="s110", iso=True)
    add(src_dtype="uint16", stats=True, dst_dtype="uint32", dst_sh="s110", iso=True)
    # 9. same encoding NAME, other encoding PARAMETERS: compressed_segmentation block sizes
    cs = dict(src_type="segmentation", src_enc="compressed_segmentation", dst_type="segmentation",
              dst_enc="compressed_segmentation", method="majority", kind="blobs",
              shape=[40, 18, 17], voxel=[1.0, 1.0, 1.0], tgt=16)
    add(src_dtype="uint32", dst_bs="bs4", **cs)
    add(src_dtype="uint32", dst_bs="bs16", **cs)
    add(src_dtype="uint64", src_bs="bs4", **cs)                     # 4 -> default 8
    add(src_dtype="uint32", src_bs="bs16", dst_bs="bs4", dst_dtype="uint64", **cs)
    add(src_dtype="uint64", dst_bs="bs16x8x4", **cs)
    add(src_dtype="uint32", src_bs="bs4", dst_bs="bs8x4x16", dst_sh="s110", **dict(cs, iso=True))
    #    ... and sharding sub-encodings (same "raw" chunk encoding, other shard parameters)
    add(src_dtype="uint8", src_sh="s110", iso=True, dst_sh="s110", shard_enc="raw", shard_index_enc="gzip",
        shape=[40, 20, 18], voxel=[1.0, 1.0, 1.0], tgt=16, triple=[1, 0, 0])
    # 10. sharded destinations with gzip sub-encodings, small bit triples, and chunk grids with
    #     >= 2 chunks on at least two axes (the conversion loop does not visit the chunks in
    #     compressed-Morton order there)
    grids = [([40, 20, 20], 16), ([20, 36, 40], 16), ([34, 33, 10], 16), ([70, 66, 3], 32),
             ([20, 20, 20], 8), ([36, 40, 33], 16)]
    triples = [[0, 0, 0], [1, 0, 0], [0, 1, 0], [1, 1, 0], [0, 0, 1], [2, 0, 1], [1, 1, 1], [0, 2, 0]]
    for n, tr in enumerate(triples):
        shape, tgt = grids[n % len(grids)]
        add(src_dtype=["uint8", "uint16", "uint8", "uint32"][n % 4], dst_sh="s110", iso=True, shape=shape,
            voxel=[1.0, 1.0, 1.0], tgt=tgt, triple=tr, shard_enc="gzip",
            shard_index_enc=["gzip", "raw"][n % 2], dst_dtype=["-", "uint32", "float32", "-"][n % 4])
    add(src_dtype="uint8", src_sh="s110", dst_sh="s110", iso=True, shape=[40, 20, 20], voxel=[1.0, 1.0, 1.0],
        tgt=16, triple=[0, 0, 0], shard_enc="gzip")                  # sharded source written by Vol/Compute
    add(src_dtype="uint8", src_sh="s110", copy="copy", iso=True, shape=[20, 36, 40], voxel=[1.0, 1.0, 1.0],
        tgt=16, triple=[1, 0, 0], shard_enc="gzip")
    add(src_dtype="uint32", src_type="segmentation", dst_type="segmentation", dst_enc="compressed_segmentation",
        dst_sh="s110", iso=True, shape=[40, 20, 20], voxel=[1.0, 1.0, 1.0], tgt=16, triple=[0, 0, 0],
        shard_enc="gzip", kind="blobs", method="majority")
    # 11. multi-channel label volumes with large uniform regions shared between the channels
    mc = dict(src_type="segmentation", dst_type="segmentation", dst_enc="compressed_segmentation",
              kind="blobs", voxel=[1.0, 1.0, 1.0], tgt=16, method="stride")
    add(src_dtype="uint32", channels=2, shape=[40, 17, 16], **mc)
    add(src_dtype="uint32", channels=2, dst_dtype="uint64", shape=[36, 18, 16], **mc)
    add(src_dtype="uint32", channels=3, shape=[33, 16, 18], **mc)
    add(src_dtype="uint8", channels=2, shape=[40, 16, 16], **mc)      # widened to uint32 by the generator
    add(src_dtype="uint64", channels=2, src_enc="compressed_segmentation", dst_bs="bs4",
        shape=[34, 17, 17], **mc)
    add(src_dtype="uint32", channels=2, dst_sh="s110", iso=True, shape=[40, 20, 17], triple=[0, 0, 0],
        shard_enc="gzip", **mc)
    # 12. thick-slice sources: the extent along the thick axis exceeds that axis' chunk size at a
    #     computed scale (every permutation of the thick axis)
    for n, (shape, voxel) in enumerate(THICK):
        add(src_dtype=["uint8", "uint16", "float32"][n % 3], shape=shape, voxel=voxel,
            dst_dtype=["uint16", "-", "-"][n % 3], copy=["keep", "copy", "keep"][n % 3])
    # 13. sources built by slices-to-precomputed from PNG / TIFF stacks (hand-written full-resolution
    #     info; orientation codes incl. reversed slice axes)
    add(src_dtype="uint8", slices="RPI", dst_dtype="uint16")
    add(src_dtype="uint16", slices="LIP", copy="copy", slice_format="tiff")
    add(src_dtype="uint8", slices="ASR", rgb=True, dst_sh="s110", iso=True)
    add(src_dtype="uint8", slices="IAL", channels=2, dst_dtype="uint32")
    add(src_dtype="uint8", slices="RIA", src_type="segmentation", dst_type="segmentation",
        dst_enc="compressed_segmentation", method="majority")
    add(src_dtype="uint16", slices="SPL", src_sh="s110", iso=True, dst_sh="nosh", slice_format="tiff")
    add(src_dtype="uint8", slices="PIR", shape=[6, 6, 40], voxel=[1.0, 1.0, 4.0], repeat=True)
    # 14. SEVERAL chunk_sizes per scale (allowed by the format; convert-chunks writes every
    #     chunking of the destination info): the source is re-tiled by hand, the destination
    #     info lists the same chunkings (later ones smaller / non-cubic than the first)
    mc2 = dict(shape=[24, 20, 18], voxel=[1.0, 1.0, 1.0], tgt=8)
    add(src_dtype="uint16", rechunk="cs4", dst_cs="cs4", **mc2)
    add(src_dtype="uint8", rechunk="cs4", copy="copy", **mc2)
    add(src_dtype="uint8", rechunk="cs4x2x8,4", dst_cs="cs4x2x8,4", dst_dtype="uint16", **mc2)
    add(src_dtype="uint8", rechunk="cs4,2x4x4", dst_cs="cs2x4x4", **mc2)       # subset of the source's chunkings
    add(src_dtype="uint32", rechunk="cs4", dst_cs="cs4", src_type="segmentation", dst_type="segmentation",
        dst_enc="compressed_segmentation", dst_bs="bs4", kind="blobs", method="majority", **mc2)
    add(src_dtype="uint16", rechunk="cs8", dst_cs="cs8", repeat=True,
        shape=[40, 12, 9], voxel=[1.0, 1.0, 1.0], tgt=16)
    # 15. sharded destinations read back by a reader written from the format text as well
    #     (oracle:ConvertSpecReaderDiffers; evaluated for every sharded destination of <= 450
    #     chunks): chunk grids that are not powers of two with bit triples that leave a minishard
    #     in the middle of a shard unused
    add(src_dtype="uint8", dst_sh="s110", iso=True, shape=[20, 20, 20], voxel=[1.0, 1.0, 1.0], tgt=4,
        triple=[3, 3, 3], shard_enc="raw")
    add(src_dtype="uint16", dst_sh="s110", iso=True, shape=[20, 12, 20], voxel=[1.0, 1.0, 1.0], tgt=4,
        triple=[2, 2, 1], shard_enc="gzip", dst_dtype="uint32")
    add(src_dtype="uint8", src_sh="s110", copy="copy", iso=True, shape=[20, 20, 12], voxel=[1.0, 1.0, 1.0],
        tgt=4, triple=[3, 3, 3], shard_enc="gzip")
    add(src_dtype="uint8", dst_sh="s110", iso=True, shape=[12, 20, 20], voxel=[1.0, 1.0, 1.0], tgt=4,
        triple=[2, 3, 2], shard_enc="raw", shard_index_enc="gzip")
    # 16. REMOTE sharded multi-scale sources whose scales use the same shard numbers with the same
    #     chunk identifiers (all chunks full size), and a remote plain multi-scale source
    rs = dict(src_sh="s110", iso=True, remote=True, shape=[16, 16, 16], voxel=[1.0, 1.0, 1.0], tgt=4,
              triple=[1, 3, 2])
    add(src_dtype="uint8", copy="copy", shard_enc="raw", **rs)
    add(src_dtype="uint16", dst_sh="nosh", shard_enc="gzip", **rs)
    add(src_dtype="uint8", dst_dtype="uint32", **dict(rs, triple=[0, 2, 3], shape=[32, 16, 16]))
    add(src_dtype="uint8", remote=True, shape=[16, 16, 16], voxel=[1.0, 1.0, 1.0], tgt=4, dst_dtype="uint16")
    # 17. ENVIRONMENT "obstructed destination": the path of one chunk file / one shard file of the
    #     destination (or the last scale's directory) is occupied; exit 0 => everything readable,
    #     a non-zero status is fine
    add(src_dtype="uint8", dst_sh="s110", iso=True, obstruct="first")
    add(src_dtype="uint16", dst_sh="s110", iso=True, obstruct="first", shard_enc="gzip", triple=[0, 2, 0],
        dst_dtype="uint32")
    add(src_dtype="uint8", obstruct="first")
    add(src_dtype="uint8", obstruct="first", dst_type="segmentation", dst_enc="compressed_segmentation",
        src_type="segmentation", method="stride")
    add(src_dtype="uint8", dst_sh="s110", iso=True, obstruct="last")
    add(src_dtype="uint16", obstruct="last")
    # 18. sharded destinations whose scales carry DIFFERENT sharding parameters and encodings
    #     (judged by the package reader and by the format reader, each scale under its own spec)
    ps = dict(dst_sh="s110", iso=True, voxel=[1.0, 1.0, 1.0], tgt=4)
    add(src_dtype="uint8", shape=[20, 20, 20],
        per_scale=[[[3, 3, 3], "raw", "raw"], [[1, 1, 0], "gzip", "gzip"], [[0, 0, 0], "raw", "gzip"]], **ps)
    add(src_dtype="uint16", shape=[20, 12, 16], dst_dtype="uint32",
        per_scale=[[[0, 1, 0], "gzip", "raw"], [[2, 2, 1], "raw", "raw"], [[1, 0, 2], "gzip", "gzip"]], **ps)
    add(src_dtype="uint8", shape=[16, 16, 16],
        per_scale=[[[1, 1, 0], "raw", "raw"], [[1, 1, 0], "gzip", "gzip"]], **ps)      # only the encodings differ
    add(src_dtype="uint8", shape=[24, 8, 8], src_sh="s110", triple=[1, 1, 0],
        per_scale=[[[1, 2, 1], "gzip", "gzip"], [[0, 0, 0], "raw", "raw"], [[2, 0, 0], "raw", "gzip"]], **ps)
    # 19. the function API scripts.convert_chunks.convert_chunks(src, dst, copy_info=True) called
    #     several times in ONE interpreter (default options), both orders of an unsharded and a
    #     sharded source; each conversion judged as usual
    for n, order in enumerate((("nosh", "s110"), ("s110", "nosh"), ("s110", "s110"))):
        for sh in order:
            add(src_dtype=["uint8", "uint16", "uint8"][n], src_sh=sh, copy="copy", iso=True, link="inproc%d" % n)
    # 20. sources with ENTIRELY zero chunks (chunk-aligned background slab, all-zero volume): every
    #     chunk of the destination must exist and decode to the source voxels all the same
    add(src_dtype="uint8", zero="slab")
    add(src_dtype="uint16", zero="slab", dst_dtype="uint32", copy="keep", repeat=True)
    add(src_dtype="uint8", zero="slab", copy="copy")
    add(src_dtype="uint8", zero="slab", dst_sh="s110", iso=True)
    add(src_dtype="uint32", zero="slab", src_type="segmentation", dst_type="segmentation",
        dst_enc="compressed_segmentation", kind="labels", method="majority")
    add(src_dtype="uint8", zero="slab", src_sh="s110", iso=True, remote=True, dst_sh="nosh")
    add(src_dtype="uint8", zero="all", stats=True)
    add(src_dtype="uint16", zero="all", dst_sh="s110", iso=True, copy="keep")
    add(src_dtype="uint8", zero="slab", shape=[40, 24, 20], voxel=[1.0, 1.0, 1.0], tgt=8, stats=True)
    # 21. ENVIRONMENT "source fault": one chunk of the source cannot be read while the conversion
    #     runs (transient 503 of the remote server; a removed / truncated chunk file).  "Decodes to
    #     the same voxels as the source" cannot hold then: exit 0 is the violation, non-zero is fine
    add(src_dtype="uint8", remote=True, src_fault="remote503")
    add(src_dtype="uint16", remote=True, src_fault="remote503", copy="copy")
    add(src_dtype="uint8", remote=True, src_fault="remote503", dst_sh="s110", iso=True, dst_dtype="uint16")
    add(src_dtype="uint8", src_fault="remove")
    add(src_dtype="uint16", src_fault="remove", copy="copy")
    add(src_dtype="uint8", src_fault="truncate", dst_sh="s110", iso=True)
    add(src_dtype="uint32", src_fault="truncate", src_type="segmentation", dst_type="segmentation",
        src_enc="compressed_segmentation", dst_enc="raw", kind="labels", method="stride")
    # 22. --copy-info into a destination that already holds a conversion made with ANOTHER info
    #     (encoding / data type / sharding): exit 0 => the destination decodes, by its own info, to
    #     the source; a refusal must leave the earlier destination as it was
    add(src_dtype="uint8", copy="copy", src_type="segmentation", method="majority",
        prior=["segmentation", "compressed_segmentation", "-", "keep"])
    add(src_dtype="uint8", copy="copy", prior=["image", "raw", "uint16", "keep"])
    add(src_dtype="uint16", copy="copy", iso=True, prior=["image", "raw", "-", "s110"])
    add(src_dtype="uint32", copy="copy", src_type="segmentation", src_enc="compressed_segmentation",
        kind="blobs", method="stride", prior=["segmentation", "raw", "uint64", "keep"])
    # 23. destination infos that list MORE scales than the source has (fewer: section 6)
    add(src_dtype="uint8", src_max="two", dst_max="all")
    add(src_dtype="uint16", src_max="one", dst_max="all", dst_sh="s110", iso=True)
    add(src_dtype="uint8", src_max="one", dst_max="two", dst_dtype="uint16")
    # 24. supervoxel / over-segmentation volumes: compressed_segmentation blocks with MORE THAN 256
    #     distinct labels of uneven frequency (16-bit codes), raw -> compressed_segmentation and
    #     back, plain and sharded
    sv = dict(kind="supervoxel", src_type="segmentation", dst_type="segmentation", method="stride",
              shape=[40, 16, 16], voxel=[1.0, 1.0, 1.0], tgt=16)
    add(src_dtype="uint32", dst_enc="compressed_segmentation", **sv)
    add(src_dtype="uint64", dst_enc="compressed_segmentation", dst_sh="s110", **dict(sv, iso=True))
    add(src_dtype="uint32", dst_enc="compressed_segmentation", dst_dtype="uint64", dst_bs="bs16",
        **dict(sv, method="majority"))
    add(src_dtype="uint32", src_enc="compressed_segmentation", dst_enc="raw", **sv)
    add(src_dtype="uint64", src_enc="compressed_segmentation", dst_enc="compressed_segmentation", copy="copy",
        **dict(sv, shape=[24, 24, 17]))
    add(src_dtype="uint32", dst_enc="compressed_segmentation", channels=2, **dict(sv, shape=[32, 16, 9]))
    # 25. compressed_segmentation pyramids whose scales declare DIFFERENT block sizes (hand edit of
    #     the info), on the source and on the destination side; every scale is read back with a
    #     fresh decoder built from ITS OWN scale entry (chunk_encoding.get_encoder(info, scale))
    pb = dict(src_type="segmentation", dst_type="segmentation", kind="blobs", method="majority",
              shape=[40, 18, 17], voxel=[1.0, 1.0, 1.0], tgt=16)
    add(src_dtype="uint32", dst_enc="compressed_segmentation", dst_bs="bs8/4", **pb)
    add(src_dtype="uint64", dst_enc="compressed_segmentation", dst_bs="bs4/16x16x4", dst_sh="s110",
        **dict(pb, iso=True))
    add(src_dtype="uint32", src_enc="compressed_segmentation", src_bs="bs8/4", dst_enc="raw", **pb)
    add(src_dtype="uint32", src_enc="compressed_segmentation", src_bs="bs16/8", dst_enc="compressed_segmentation",
        dst_bs="bs4/8", dst_dtype="uint64", **pb)
    add(src_dtype="uint64", src_enc="compressed_segmentation", src_bs="bs4/8x8x16", copy="copy",
        dst_enc="compressed_segmentation", **pb)
    add(src_dtype="uint32", dst_enc="compressed_segmentation", dst_bs="bs16/4/8", kind="supervoxel",
        src_type="segmentation", dst_type="segmentation", method="stride", shape=[70, 16, 16],
        voxel=[1.0, 1.0, 1.0], tgt=16)
    # 26. float32 sources with FRACTIONAL values into unsigned integer destinations of the same and
    #     of a larger item size: the documented conversion rounds to the nearest integer (x.75 -> x+1,
    #     a tie may go either way) and saturates (negative -> 0)
    fr = dict(src_dtype="float32", fractions=True, method="stride")
    add(dst_dtype="uint32", **fr)
    add(dst_dtype="uint64", **fr)
    add(dst_dtype="uint32", dst_sh="s110", iso=True, **fr)
    add(dst_dtype="uint64", **dict(fr, method="average"))
    add(dst_dtype="uint32", remote=True, **fr)
    return out


def prog_of(rng, k):
    """Program (command list + volume + layouts) of one conversion class."""
    if k["iso"]:
        voxel = [1.0, 1.0, 1.0]
        shape = rng.choice([[rng.randint(257, 290), rng.randint(2, 3), rng.randint(2, 3)],
                            [rng.randint(130, 180), rng.randint(3, 4), rng.randint(2, 3)]])
        if k["tgt"]:
            t = k["tgt"]
            shape = [rng.randint(2 * t + 1, 4 * t), rng.randint(t // 2, t + 3), rng.randint(2, 4)]
    else:
        voxel = rng.choice([[1.0, 2.0, 4.0], [1.0, 4.0, 4.0], [1.0, 2.0, 2.0]])
        shape = [rng.randint(257, 300), rng.randint(2, 4), rng.randint(2, 3)]
        if k["tgt"]:
            t = k["tgt"]
            shape = [rng.randint(2 * t + 1, 4 * t), rng.randint(3, 6), rng.randint(2, 4)]
    if k["shape"]:
        shape, voxel = list(k["shape"]), list(k["voxel"])
    if k["channels"] > 1:
        shape = shape + [k["channels"]]
    seg = k["src_type"] == "segmentation"
    vol = {"shape": shape, "voxel": voxel, "dtype": k["src_dtype"],
           "kind": k["kind"] or ("labels" if seg else rng.choice(["noise", "ramp"])), "perfect": True,
           "quarters": k["quarters"], "offset": k["offset"]}
    lv = pd.n_levels(shape, voxel, k["tgt"] or 64)
    if lv > 3:
        raise tlc.MachineryError("conversion class with more than 3 scales: %r" % (shape,))
    vol["nall"] = lv
    if k["rgb"]:
        vol["rgb"] = True
    if k["fractions"]:
        vol["fractions"] = True
    if k["zero"] == "slab":
        vol["zero_slab"] = 128 if max(shape[:3]) >= 140 else 16
    if k["zero"] == "all":
        vol["allzero"] = True
    if k["slices"]:
        # no --generate-info for slices: hand-written info_fullres.json, sharding by editing the info
        cmds = [C("HandInfo", "A", sh="nosh"),
                C("GenScales", "A", src="A", type=k["src_type"], enc=k["src_enc"], max=k["src_max"])]
        if k["src_sh"] != "nosh":
            cmds.append(C("Edit", "A", sh=k["src_sh"]))
    else:
        cmds = [C("GenInfo", "A", sh=k["src_sh"]),
                C("GenScales", "A", src="A", type=k["src_type"], enc=k["src_enc"], max=k["src_max"])]
    if k["src_bs"] != "-":
        cmds.append(C("Edit", "A", enc=k["src_bs"], sh="keep"))
    cmds += [C("Slices", "A", code=k["slices"]) if k["slices"] else C("Vol", "A"),
             C("Compute", "A", m=k["method"])]
    if k["rechunk"] != "-":
        cmds.append(C("Rechunk", "A", m=k["rechunk"]))
    if k["copy"] == "keep":
        cmds.append(C("GenScales", "B", src="A", type=k["dst_type"], enc=k["dst_enc"], max=k["dst_max"]))
        if k["dst_dtype"] != "-" or k["dst_sh"] != "keep" or k["dst_bs"] != "-" or k["dst_cs"] != "-":
            cmds.append(C("Edit", "B", type=k["dst_dtype"], sh=k["dst_sh"], enc=k["dst_bs"], m=k["dst_cs"]))
    if k["obstruct"]:
        cmds.append(C("Obstruct", "B", m=k["obstruct"]))
    if k["src_fault"] in ("remove", "truncate"):
        cmds.append(C("Damage", "A", m=k["src_fault"]))
    if k["prior"]:
        typ, enc, dt, sh = k["prior"]
        cmds.append(C("GenScales", "B", src="A", type=typ, enc=enc, max="all"))
        if dt != "-" or sh != "keep":
            cmds.append(C("Edit", "B", type=dt, sh=sh))
        cmds.append(C("Convert", "B", src="A", copy="keep"))
    conv = C("Convert", "B", src="A", copy=k["copy"], m="srcfault" if k["src_fault"] == "remote503" else "-")
    cmds.append(conv)
    if k["repeat"]:
        cmds.append(dict(conv))
    if k["stats"]:
        cmds.append(C("Stats", "B"))
    return {"vol": vol, "cmds": cmds,
            "lay": {"A": rng.choice(list(pd.LAYOUTS)), "B": rng.choice(list(pd.LAYOUTS))},
            "explicit": True, "seed": rng.randrange(1 << 30), "tgt": k["tgt"],
            "http": ["A"] if k["remote"] else [],
            "shard_enc": k["shard_enc"] or rng.choice(["gzip", "raw"]),
            "shard_index_enc": k["shard_index_enc"] or k["shard_enc"] or rng.choice(["gzip", "raw"]),
            "shard_triple": k["triple"], "slice_format": k["slice_format"],
            "shard_per_scale": k["per_scale"], "link": k["link"],
            "docs_shflag": rng.random() < 0.5, "klass": k}


def conv_facts(case):
    """Facts about the Convert steps of a recorded trace (accounting only)."""
    out = []
    evs = case["events"]
    for i, ev in enumerate(evs):
        c = ev["cmd"]
        if c["op"] != "Convert":
            continue
        before = evs[i - 1]["snap"] if i else case["init"]
        src, dst = before[c["src"]], ev["snap"][c["d"]]
        sfac = (src["info"]["dtype"], bool(src["scales"]) and src["scales"][0]["sharded"],
                len([s for s in src["scales"] if s["vox"]]))
        dfac = (dst["info"]["dtype"], bool(dst["scales"]) and dst["scales"][0]["sharded"], len(dst["scales"]))
        enc = []
        for sd in (src, dst):
            try:
                enc.append(json.loads(sd["info"]["txt"])["scales"][0]["encoding"])
            except (ValueError, KeyError, IndexError):
                enc.append("-")
        out.append({"exit": ev["exit"], "src": sfac, "dst": dfac, "enc": enc, "copy": c["copy"],
                    "remote": bool(ev.get("remote")), "channels": src["info"]["channels"],
                    "repeat": i > 0 and evs[i - 1]["cmd"] == c})
    return out


def run(ctx):
    ctx.cov["rule"] = RULE
    ctx.assumptions += [
        "the documented type conversion is: identity for a wider / equal type and for float32 targets "
        "(values exactly representable), round to the nearest integer (a tie may go either way) and "
        "clip for integer targets",
        "a conversion that exits with a non-zero status makes no claim about the destination (recorded "
        "as DRIFT design:ExitCode and in nonzero_exit_conversions); the source must still be unchanged",
        "source and destination are read back in-process with fresh accessors of the package under test; "
        "sharded destinations of <= 450 chunks also by the format-level reader (SpecLookup in TLC; the "
        "harness decodes each stored payload with the package's chunk decoder, using its own compressed "
        "Morton code only to know the chunk extent of a stored identifier)",
        "in-process conversions use the default options of the function API; their exit status is 0 when "
        "the call returns and 1 when it raises",
        "datasets with several chunk_sizes per scale are produced by a harness action (Rechunk) that "
        "re-tiles a tool-produced dataset through the package's public PrecomputedIO API",
        "TLC 1.8 evaluates the specification faithfully; the driver only records and re-encodes",
    ]
    # --- M -----------------------------------------------------------------
    if ctx.quick:
        ctx.mc("MC_Pipeline", "MC_Pipeline_quick", workers=16)
    else:
        ctx.mc("MC_Pipeline", "MC_Pipeline", workers=16, coverage=True)
        ctx.mc("MC_Pipeline", "MC_Pipeline_all_quick", workers=16)
    bad = tlc.model_check("MC_Pipeline", "MC_Pipeline_devLayout", workers=8)
    if bad["ok"] or "SuccessMeansComplete" not in bad["invariant_violated"]:
        raise tlc.MachineryError("deviation switch CopyInfoLayout=byOptions did not violate the oracle")
    ctx.notes["switch_MC_Pipeline_devLayout"] = bad["invariant_violated"]

    # --- C->S: conversion classes --------------------------------------------
    classes = conversion_classes(ctx)
    reps = ctx.pick(1, 8)
    progs = []
    for r in range(reps):
        for k in classes:
            p = prog_of(ctx.rng, k)
            # fault-free classes: a conversion the design accepts must succeed (oracle:ConvertFailed) -
            # for the conversions C13 promises: same or wider data type (a tool that refused a
            # narrowing / rounding conversion would not break the property)
            import numpy as np
            widening = k["dst_dtype"] == "-" or np.can_cast(np.dtype(k["src_dtype"]), np.dtype(k["dst_dtype"]), "safe")
            p["mustops"] = ["Convert"] if widening else []
            if p["link"] is not None:
                p["link"] = "%s/%d" % (p["link"], r)      # one interpreter per pair and repetition
            progs.append(p)
    # --- S->C: exported programs ending in a successful Convert ---------------
    if not ctx.quick:
        from . import c19
        recs = ctx.export("Gen_Pipeline", "Gen_Pipeline", workers=1)
        behs = [json.loads(r[1]) for r in recs]
        conv = [b for b in behs if b["op"] == "Convert" and b["ex"] == 0]
        conv.sort(key=lambda b: json.dumps(b["prog"]))
        by = {}
        for b in conv:
            by.setdefault((b["cls"], b["rep"]), []).append(b)
        picked = []
        for key in sorted(by):
            ctx.rng.shuffle(by[key])
            picked += by[key][:40]
        ctx.notes["exported_convert_programs"] = {"available": len(conv), "run": len(picked)}
        for t, b in enumerate(picked):
            p = c19.make_prog(ctx.rng, b, turn=t)
            p["vol"].pop("rgb", None)
            progs.append(p)
    res = pc.run_and_judge(ctx, progs, workers=16, chunk=130, label="convert")
    nonzero = {}
    nconv = 0
    for p, case, (st, clause, pos) in res:
        for f in conv_facts(case):
            nconv += 1
            ctx.count()
            if f["exit"] != 0:
                key = "%s %s->%s %s" % (f["copy"], f["src"], f["dst"], "remote" if f["remote"] else "local")
                nonzero[key] = nonzero.get(key, 0) + 1
                continue
            differs = (f["src"][0] != f["dst"][0] or f["src"][1] != f["dst"][1] or f["enc"][0] != f["enc"][1]
                       or p["lay"]["A"] != p["lay"]["B"] or f["remote"] or f["repeat"])
            if f["src"][2] >= 1 and differs:
                ctx.nontrivial(json.dumps([f["src"], f["dst"], f["enc"], f["copy"], f["remote"],
                                           f["repeat"], f["channels"], p["lay"]["A"], p["lay"]["B"]]))
    ctx.notes["conversions"] = nconv
    ctx.notes["programs_run"] = len(res)
    ctx.notes["nonzero_exit_conversions"] = nonzero
    ctx.notes["verdicts"] = {}
    for _, _, (st, clause, _) in res:
        ctx.notes["verdicts"][clause] = ctx.notes["verdicts"].get(clause, 0) + 1
    for p, case, v in res[:3]:
        ctx.sample({"cmds": [pd.cmd_str(c) for c in p["cmds"]], "vol": p["vol"], "lay": p["lay"],
                    "exits": [e["exit"] for e in case["events"]], "verdict": list(v)})


def replay(ctx, path):
    return pc.replay_prog(ctx, path)
