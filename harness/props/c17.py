"""C17 - mesh files follow the formats Neuroglancer reads and survive a round trip.

M    : MC_Mesh - the reader automaton (Count -> Vertices -> Triangles ->
       Bounds) produces the outcome of the format oracle ReadOutcome on every
       structurally enumerated input (every exit reachable, ASSUME);
       Write(v, t) has the specified layout and reads back; ModelTransform
       keeps orientation under the 48 signed permutations, shears and singular
       maps.  Deviation switches (bound "gt", short header "structError", flip
       "never") must each FAIL (non-vacuity).
S->C : every case enumerated by TLC (Gen_Mesh: reader inputs for every
       automaton exit, round-trip meshes as float32 bit patterns, winding
       instances) is executed on the REAL read_precomputed_mesh /
       save_mesh_as_precomputed / affine_transform_mesh.
C->S : seeded meshes (empty, points only, one triangle, fans, tetrahedra,
       boxes, octahedra, subdivided / perturbed / relabelled / united / opened)
       x integer matrices (det > 0, < 0, = 0) through save -> file -> read,
       affine_transform_mesh, the mesh-to-precomputed tool on GIfTI files
       written with nibabel (in-process and as real sub-processes), the VTK
       writer with 0-3 attribute sets, link-mesh-fragments on CSV tables, and
       random / mutated byte strings to the reader.
       Unit changes: the affine cases are repeated with matrix and translation
       multiplied by 10^-3, 10^-6, 10^3, 10^6 (mirrors, rotations, shears of
       both determinant signs combined with a micrometre/nanometre <->
       millimetre change: |det| down to 1e-18 resp. up to 1e18) - every
       winding instance enumerated by TLC (S->C) and seeded meshes x integer
       matrices (C->S).  The sign of the determinant is decided exactly on the
       integer matrix (Mesh!ScaledWindingClause).
       Special-looking transforms for mesh-to-precomputed --coord-transform
       (real command line, 12- and 16-element forms): pure translations
       (identity linear part, non-zero translation, also written 1.0 / 1.00),
       the identity, signed permutations and diagonal +-1 matrices with a
       translation, quarter turns without translation - judged by
       oracle:Scaling (every vertex at M.v + t, in nanometres) and the
       winding rule.
       Link tables in conflict: one label on several rows (also with different
       zero padding), and link file names that collide with uncompressed files
       already present (a fragment named after its label with
       --no-colon-suffix, a file "<label>:0").  Reading (Mesh.tla I7): earlier
       files keep their bytes whatever happens; a refusal is accepted; a run
       that reports success has written, for every label, one link file that
       lists all fragments of all rows of that label.
Everything observed is re-encoded (harness/mesh_driver.py) and judged by TLC
(Trace_Mesh, oracle layer of Mesh.tla).
"""
import collections
import json
import random
import string

from .. import mesh_driver as md
from .. import tlc

LEVEL = "model_checking"
RULE = ("one case = one observed call of the real code (reader on a byte string; save->file->read; "
        "affine_transform_mesh; one mesh-to-precomputed run; one VTK export; one link-mesh-fragments run). "
        "Non-trivial: reader inputs of >= 1 byte; mesh cases with >= 1 triangle; link tables with >= 1 row. "
        "Distinct = distinct canonical JSON of the inputs (spec) per mode")
EXIT_NAMES = ["", "ShortHeader", "ShortVertices", "TriangleLength", "IndexOutOfRange", "Ok"]


# ---------------------------------------------------------------------------
# case construction: (mode, spec, source) triples; specs are replayable inputs
# ---------------------------------------------------------------------------
def gen_cases(ctx):
    """S->C: cases enumerated by TLC."""
    recs = retry_once(ctx, ctx.export, "Gen_Mesh", ctx.pick("Gen_Mesh_quick", "Gen_Mesh"), workers=8)
    out = []
    exits = collections.Counter()
    for r in recs:
        d = json.loads(r[1])
        if d["kind"] == "read":
            exits[d["exit"]] += 1
            out.append(("read", {"hex": md.dec_bytes(d["b"]).hex()}, "gen"))
        elif d["kind"] == "rt":
            w = [[x[0] + 65536 * x[1] for x in row] for row in d["v"]]
            out.append(("save", {"vfmt": "bits", "w": w, "t": d["t"], "tdtype": "uint32"}, "gen"))
        else:
            out.append(("affine", {"v": d["v"], "ub": 0, "t": d["t"], "M": d["M"], "tr": d["tr"],
                                   "vdtype": "float32", "tdtype": "uint32", "shape": "3x4"}, "gen"))
    out.sort(key=lambda c: json.dumps(c, sort_keys=True))
    ctx.notes["gen_cases"] = len(out)
    ctx.notes["gen_reader_inputs_by_oracle_exit"] = dict(exits)
    return out


SPECIAL_F32 = [0x00000000, 0x80000000, 0x00000001, 0x807FFFFF, 0x7F800000, 0xFF800000, 0x7FC00000,
               0x7FC00001, 0xFFC12345, 0x3F800000, 0x40490FDB, 0x7F7FFFFF, 0x00800000, 0x4B800000]


def save_spec(ctx):
    rng = ctx.rng
    kind, v, t = md.random_mesh(rng, bound=16, max_tris=400)
    spec = {"t": t, "kind": kind, "via": "gzip" if rng.random() < 0.15 else "bytesio",
            "order": "F" if rng.random() < 0.25 else "C"}
    n = len(v)
    spec["tdtype"] = rng.choice(["uint32", "uint32", "uint16"] + (["uint8"] if n <= 255 else []))
    if rng.random() < 0.5:
        spec["vfmt"] = "bits"
        spec["w"] = [[rng.choice(SPECIAL_F32) if rng.random() < 0.3 else rng.getrandbits(32)
                      for _ in range(3)] for _ in range(n)]
    else:
        k = rng.choice([1, 1, 7, 1000, 100000])
        spec["vfmt"] = "int"
        spec["vdtype"] = rng.choice(["float32", "float64", "float64", "int32", "int64"])
        spec["ub"] = rng.choice([0, 0, 1, 3]) if spec["vdtype"].startswith("float") else 0
        spec["q"] = [[k * x for x in p] for p in v]
    return spec


def bytes_spec(ctx):
    """random and structured-then-damaged byte strings for the reader"""
    rng = ctx.rng
    style = rng.random()
    if style < 0.2:
        buf = bytes(rng.getrandbits(8) for _ in range(rng.randint(0, 64)))
    else:
        n = rng.choice([0, 1, 1, 2, 3, 4, 5])
        m = rng.choice([0, 1, 1, 2, 3])
        idx = [rng.choice([0, max(n - 1, 0), n, n + 1, rng.randint(0, max(n - 1, 0)),
                           rng.randint(0, max(n - 1, 0)), rng.getrandbits(32)]) for _ in range(3 * m)]
        body = md.struct.pack("<I", n) + bytes(rng.getrandbits(8) for _ in range(12 * n)) \
            + md.struct.pack("<%dI" % (3 * m), *idx)
        dmg = rng.random()
        if dmg < 0.35:
            buf = body
        elif dmg < 0.6:
            buf = body[:rng.randint(0, len(body))]
        elif dmg < 0.75:
            buf = body + bytes(rng.getrandbits(8) for _ in range(rng.randint(1, 13)))
        elif dmg < 0.9:
            b = bytearray(body)
            p = rng.randrange(len(b))
            b[p] ^= 1 << rng.randrange(8)
            buf = bytes(b)
        else:
            b = bytearray(body)
            b[0:4] = md.struct.pack("<I", rng.choice([n + 1, max(n - 1, 0), 2 ** 32 - 1, 2 ** 31, 65536, 357913942]))
            buf = bytes(b)
    return {"hex": buf.hex(), "via": "gzip" if rng.random() < 0.1 else "bytesio"}


def affine_spec(ctx, bound=8):
    rng = ctx.rng
    kind, v, t = md.random_mesh(rng, bound=bound, max_tris=128)
    want = rng.choice(["pos", "pos", "neg", "neg", "neg", "zero"])
    return {"v": v, "t": t, "kind": kind, "det": want, "M": md.random_matrix(rng, want),
            "mb": rng.choice([0, 0, 0, 1, 2]),
            "tr": [rng.randint(-20, 20) for _ in range(3)], "ub": rng.choice([0, 0, 1, 2]),
            "vdtype": rng.choice(["float32", "float32", "float64"]),
            "tdtype": rng.choice(["uint32", "uint32", "int32", "int64"]),
            "shape": rng.choice(["3x4", "4x4"]), "mdtype": rng.choice(["float64", "float64", "int"]),
            # how the caller holds the arrays: read-only (as returned by the package's
            # reader) and / or passed through the function once before
            "readonly": rng.random() < 0.3, "twice": rng.random() < 0.3}


UNIT_CHANGES = [-3, -6, 3, 6]


def scaled_affine_spec(rng, sc):
    """affine case with the unit change 10^sc: tiny (or very large) |det| of
    either sign, floating-point sign of the determinant certain (uniform scale
    of a small integer matrix)"""
    kind, v, t = md.random_mesh(rng, bound=8, max_tris=128)
    want = rng.choice(["pos", "pos", "neg", "neg", "neg", "neg", "zero"])
    return {"v": v, "t": t, "kind": kind, "det": want, "M": md.random_matrix(rng, want),
            "mb": rng.choice([0, 0, 0, 1, 2]), "sc": sc,
            "tr": [rng.randint(-20, 20) for _ in range(3)], "ub": rng.choice([0, 0, 1, 2]),
            "vdtype": rng.choice(["float32", "float32", "float64"]),
            "tdtype": rng.choice(["uint32", "uint32", "int32", "int64"]),
            "shape": rng.choice(["3x4", "4x4"]), "mdtype": rng.choice(["float64", "float64", "int"])}


NAME_CHARS = string.ascii_letters + string.digits + "_-."


def rand_name(rng, lo=1, hi=10):
    while True:
        s = "".join(rng.choice(NAME_CHARS) for _ in range(rng.randint(lo, hi)))
        if s.strip(".") and not s.endswith(".gz") and s not in ("info",):
            return s


def tool_spec(ctx, via="inproc"):
    rng = ctx.rng
    kind, v, t = md.random_mesh(rng, bound=8, max_tris=64)
    dirs = ["mesh", "meshes", "m/sub", "fragments"]
    info_mesh = rng.choice(["", "", "mesh", "mesh", "meshes", "m/sub"])
    expect = "ok"
    if info_mesh == "":
        meshdir_arg = rng.choice(["", ""] + dirs)
    else:
        r = rng.random()
        if r < 0.6:
            meshdir_arg = info_mesh
        elif r < 0.8 and info_mesh == "mesh":
            meshdir_arg = ""               # default equals the stored key
        else:
            meshdir_arg = rng.choice([d for d in dirs if d != info_mesh])
            expect = "mismatch"
    xf = None
    if rng.random() < 0.7:
        want = rng.choice(["pos", "neg", "neg", "zero"]) if rng.random() < 0.9 else "zero"
        xf = {"M": md.random_matrix(rng, want), "mb": rng.choice([0, 0, 1, 2]),
              "tr": [rng.randint(-20, 20) for _ in range(3)], "n": rng.choice([12, 16]), "det": want}
    ub = rng.choice([0, 0, 1, 2])
    pdtype = "int32" if ub == 0 and rng.random() < 0.5 else "float32"
    return {"v": v, "t": t, "kind_mesh": kind, "ub": ub, "xf": xf, "pdtype": pdtype,
            "info_mesh": info_mesh, "meshdir_arg": meshdir_arg,
            "name_arg": rand_name(rng) if rng.random() < 0.5 else "",
            "stem": rng.choice(["lh.pial", "mesh1", "a", "white-left", rand_name(rng)]),
            "gzip": rng.random() < 0.6, "kind": "image" if rng.random() < 0.15 else "segmentation",
            "expect": expect, "via": via}


IDENTITY3 = [[1, 0, 0], [0, 1, 0], [0, 0, 1]]


def special_tool_spec(ctx, rng, k, via="inproc"):
    """mesh-to-precomputed through the real command line with 'special-looking'
    --coord-transform values: identity linear part with a non-zero translation
    (pure translation), the identity itself, signed permutations / diagonal +-1
    with a translation, rotations with a zero translation; 12- and 16-element
    argument forms"""
    shim = type("RngOnly", (), {"rng": rng})()          # tool_spec draws from .rng only
    while True:
        spec = tool_spec(shim)
        if spec["expect"] == "ok" and len(spec["v"]) >= 1:
            break
    style = ["translation", "translation", "translation", "identity", "signed_perm", "diag_pm1",
             "rotation_no_translation"][k % 7]

    def nonzero_tr():
        while True:
            tr = [rng.choice([0, 0, 1, -1, 2, 5, -7, 20, rng.randint(-20, 20)]) for _ in range(3)]
            if any(tr):
                return tr

    mb = 0
    if style == "translation":
        M, tr, mb = [list(r) for r in IDENTITY3], nonzero_tr(), rng.choice([0, 0, 1, 2])
        M = [[x << mb for x in r] for r in M]          # the identity, in the unit 2^-mb
    elif style == "identity":
        M, tr = [list(r) for r in IDENTITY3], [0, 0, 0]
    elif style == "signed_perm":
        p = [0, 1, 2]
        rng.shuffle(p)
        M = [[(rng.choice([-1, 1]) if c == p[r] else 0) for c in range(3)] for r in range(3)]
        tr = nonzero_tr()
    elif style == "diag_pm1":
        M = [[(rng.choice([-1, 1]) if c == r else 0) for c in range(3)] for r in range(3)]
        tr = nonzero_tr()
    else:
        a, b = rng.sample(range(3), 2)                 # quarter turn about the third axis
        M = [list(r) for r in IDENTITY3]
        M[a][a], M[b][b], M[a][b], M[b][a] = 0, 0, -1, 1
        tr = [0, 0, 0]
    spec["xf"] = {"M": M, "mb": mb, "tr": tr, "n": (12, 16)[(k // 7) % 2],
                  "det": "pos" if md.det3(*M) > 0 else "neg", "style": style}
    spec["via"] = via
    return spec


def links_spec(ctx, via="inproc"):
    rng = ctx.rng
    nrows = rng.choice([0, 1, 1, 2, 3, 5, 8])
    labels = set()
    while len(labels) < nrows:
        labels.add(rng.choice([0, 1, 2, 10, 255, 2 ** 32, 2 ** 64 - 1, rng.randint(0, 1000),
                               rng.getrandbits(rng.randint(1, 64))]))
    labels = list(labels)
    rng.shuffle(labels)
    pool = sorted({rand_name(rng, 2, 8) for _ in range(6)})
    odd = ["frag 1", "a,b", "x'y"]
    rows, existing, used = [], [], set()
    for lab in labels:
        k = rng.choice([0, 1, 1, 2, 3, 4])
        fr = [rng.choice(pool + (odd if rng.random() < 0.2 else [])) for _ in range(k)]
        rows.append([lab, fr])
    link_names = {str(l) for l in labels} | {str(l) + ":0" for l in labels}
    for name in pool + odd:
        if rng.random() < 0.5 and name not in link_names and name not in used:
            used.add(name)
            existing.append([name, rng.random() < 0.4])
    return {"rows": rows, "pad": [rng.choice([0, 0, 0, 3, 5]) for _ in rows],
            "no_colon": rng.random() < 0.5, "info_mesh": rng.choice(["mesh", "mesh", "meshes", "m/sub"]),
            "existing": existing, "via": via}


def conflict_links_spec(rng, via="inproc"):
    """link tables that conflict with themselves (one label on several rows,
    also written with different zero padding) or with the dataset (the link
    file of a label carries the name of an UNCOMPRESSED file already present:
    a fragment named after its label next to --no-colon-suffix, a file '<label>:0')"""
    style = rng.choice(["repeat", "repeat", "collide", "collide", "both"])
    nlab = rng.choice([1, 2, 3, 4])
    labels = set()
    while len(labels) < nlab:
        labels.add(rng.choice([0, 1, 5, 7, 10, 255, 2 ** 32, rng.randint(0, 1000)]))
    labels = list(labels)
    pool = sorted({rand_name(rng, 2, 8) for _ in range(5)} | {str(l) for l in labels[:2]})
    rows = [[lab, [rng.choice(pool) for _ in range(rng.choice([1, 1, 2, 3]))]] for lab in labels]
    if style in ("repeat", "both"):
        for _ in range(rng.choice([1, 1, 2])):
            lab = rng.choice(labels)
            rows.insert(rng.randint(0, len(rows)),
                        [lab, [rng.choice(pool) for _ in range(rng.choice([0, 1, 1, 2]))]])
    no_colon = rng.random() < 0.6
    suffix = "" if no_colon else ":0"
    existing, used = [], set()
    if style in ("collide", "both"):
        for lab in rng.sample(labels, rng.randint(1, len(labels))):
            existing.append([str(lab) + suffix, False])
            used.add(str(lab) + suffix)
    link_names = {str(l) + suffix for l in labels}
    for name in pool:
        if rng.random() < 0.5 and name not in used and name not in link_names:
            used.add(name)
            existing.append([name, rng.random() < 0.4])
    return {"rows": rows, "pad": [rng.choice([0, 0, 3]) for _ in rows], "no_colon": no_colon,
            "info_mesh": rng.choice(["mesh", "mesh", "meshes", "m/sub"]), "existing": existing,
            "via": via, "conflict": style}


TITLE_CHARS = string.ascii_letters + string.digits + " .,;:_-+*/()[]{}<>=!?#%&'|~^$@\"\\\t"


def vtk_spec(ctx):
    rng = ctx.rng
    kind, v, t = md.random_mesh(rng, bound=8, max_tris=48)
    n = len(v)
    spec = {"t": t, "kind": kind, "tdtype": rng.choice(["int32", "uint32", "int64"])}
    if rng.random() < 0.7:
        k = rng.choice([1, 1, 13, 1000, 99999])
        spec.update(vfmt="int", q=[[k * x for x in p] for p in v], ub=0,
                    vdtype=rng.choice(["float32", "float64", "int32"]))
    else:
        def finite():
            while True:
                w = rng.getrandbits(32)
                if (w >> 23) & 0xFF != 0xFF:
                    return w
        spec.update(vfmt="bits", w=[[finite() for _ in range(3)] for _ in range(n)])
    na = rng.choice([None, 0, 1, 1, 2, 3])
    if na is None:
        spec["attrs"] = None
    else:
        names = []
        while len(names) < na:
            nm = rand_name(rng, 1, 8)
            if nm not in names:
                names.append(nm)
        spec["attrs"] = [{"name": nm, "k": rng.choice([1, 1, 2, 3, 4]), "seed": rng.getrandbits(30),
                          "kind": rng.choice(["normal", "int", "wide"]), "flat": rng.random() < 0.5,
                          "dtype": rng.choice(["float32", "float64"])} for nm in names]
        for a in spec["attrs"]:
            if a["kind"] == "int":
                a["dtype"] = rng.choice(["int32", "uint8", "int64"])
    r = rng.random()
    if r < 0.3:
        spec["title"] = None
    elif r < 0.4:
        spec["title"] = ""
    else:
        ln = rng.choice([1, 5, 40, 200, 210, 230, 254, 255, 256, 300])
        spec["title"] = "".join(rng.choice(TITLE_CHARS) for _ in range(ln))
    return spec


# ---------------------------------------------------------------------------
def drive(work, mode, spec, serial):
    if mode == "read":
        return md.run_read(spec)
    if mode == "save":
        return md.run_save(spec)
    if mode == "affine":
        return md.run_affine(spec)
    if mode == "tool":
        return md.run_tool(work, spec, serial)
    if mode == "vtk":
        return md.run_vtk(spec)
    if mode == "links":
        return md.run_links(work, spec, serial)
    raise tlc.MachineryError("unknown mode " + mode)


def is_nontrivial(mode, spec):
    if mode == "read":
        return len(spec["hex"]) >= 2
    if mode == "links":
        return len(spec["rows"]) >= 1
    return len(spec["t"]) >= 1


def sig_of(mode, spec, source, case, clause, pos):
    sig = {"clause": clause, "mode": mode, "source": source}
    if mode == "read":
        sig.update(md.input_facts(bytes.fromhex(spec["hex"])))
        sig["oracle_exit"] = EXIT_NAMES[pos] if 0 <= pos < len(EXIT_NAMES) else ""
        sig["outcome"] = case["res"]["st"]
        sig["exc"] = case["res"]["cls"]
    elif mode == "save":
        sig.update(vfmt=spec["vfmt"], vdtype=spec.get("vdtype", "float32"), tdtype=spec.get("tdtype"),
                   nv=len(spec.get("w", spec.get("q", []))), nt=len(spec["t"]),
                   save=case["saved"]["cls"], read=case["res"]["st"], read_exc=case["res"]["cls"],
                   oracle_exit=EXIT_NAMES[pos] if 0 <= pos < len(EXIT_NAMES) else "")
    elif mode == "affine":
        sig.update(det_sign=(md.det3(*spec["M"]) > 0) - (md.det3(*spec["M"]) < 0), nv=len(spec["v"]),
                   nt=len(spec["t"]), kind=spec.get("kind", "gen"), exc=case["res"]["cls"],
                   unit_change_exp10=spec.get("sc", 0))
    elif mode == "tool":
        xf = spec.get("xf")
        sig.update(expect=spec["expect"], hasxf=bool(xf), xf_style=(xf or {}).get("style", ""),
                   xf_form=(xf or {}).get("n", 0),
                   det_sign=((md.det3(*xf["M"]) > 0) - (md.det3(*xf["M"]) < 0)) if xf else 1,
                   gzip=spec.get("gzip", True), via=spec.get("via"), rc=case["rc"], exc=case["exc"],
                   info_mesh=spec["info_mesh"], meshdir_arg=spec["meshdir_arg"], nt=len(spec["t"]))
    elif mode == "vtk":
        sig.update(nv=len(spec.get("w", spec.get("q", []))), nt=len(spec["t"]),
                   nattrs=-1 if spec.get("attrs") is None else len(spec["attrs"]),
                   title_len=-1 if spec.get("title") is None else len(spec["title"]),
                   exc=case["saved"]["cls"])
    elif mode == "links":
        sig.update(no_colon=spec["no_colon"], nrows=len(spec["rows"]), rc=case["rc"], exc=case["exc"],
                   via=spec.get("via"), conflict=spec.get("conflict", ""))
    return sig


def retry_once(ctx, fn, *a, **kw):
    """A JVM that dies silently under load (no TLC 'Error:' text, no verdict) is
    started once more; a second failure, or any failure that TLC explains, stays
    a machinery failure.  Verdicts only ever come from completed TLC runs."""
    try:
        return fn(*a, **kw)
    except tlc.MachineryError as e:
        msg = str(e)
        if "Error" in msg or "violated" in msg or "verdicts for" in msg:
            raise
        ctx.notes["tlc_silent_failures_retried"] = ctx.notes.get("tlc_silent_failures_retried", 0) + 1
        return fn(*a, **kw)


def run_mc(ctx):
    retry_once(ctx, ctx.mc, "MC_Mesh", ctx.pick("MC_Mesh_quick", "MC_Mesh"), workers=16,
               coverage=not ctx.quick)
    # the model must be able to tell each known / plausible deviation from the oracle
    for cfg, inv in (("MC_Mesh_gt", "ReaderMeetsOracle"), ("MC_Mesh_structerr", "ReaderMeetsOracle"),
                     ("MC_Mesh_noflip", "WindingModel")):
        bad = retry_once(ctx, tlc.model_check, "MC_Mesh", cfg, workers=8)
        if bad["ok"] or inv not in bad["invariant_violated"]:
            raise tlc.MachineryError("deviation switch %s did not violate %s (vacuous model)" % (cfg, inv))
        ctx.notes["switch_%s_violates" % cfg] = bad["invariant_violated"]


def run(ctx):
    ctx.cov["rule"] = RULE
    ctx.assumptions += [
        "TLC 1.8 evaluates the oracle faithfully; harness/mesh_driver.py only re-encodes (16-bit halves, "
        "small integers in a per-case unit 2^-ub, token lists, directory listings)",
        "geometry cases use integer (dyadic) coordinates and integer matrices so that IEEE arithmetic is "
        "exact; near-zero determinants whose floating-point sign is uncertain are not decided (det = 0 "
        "only: no crash, vertices moved); a determinant that is tiny only through a uniform unit change "
        "10^-3 / 10^-6 of a small integer matrix IS decided (its sign is that of the integer matrix, and "
        "its floating-point sign is certain); under such a down-scaling the products are rounded, "
        "'vertices moved accordingly' then means within 1e-9 result units of the exact position",
        "stored files may be gzip-compressed as <name>.gz (documented layout); link tables have one row "
        "per label except in the 'random-conflict' cases (repeated labels, link names colliding with "
        "uncompressed files already present: refusal accepted, earlier files untouched, success lists "
        "every fragment of every row; collisions with gzip-compressed files of the same logical name are "
        "not generated: the layout itself is ambiguous there); --mesh-dir absent while the info holds a non-default key is not judged",
        "VTK array entries must be decimal numbers (finite inputs only); oracle:VtkMesh only on integer "
        "vertices",
    ]
    run_mc(ctx)
    work = ctx.scratch("verif_mesh_")

    todo = gen_cases(ctx)
    n = ctx.pick
    for _ in range(n(500, 6000)):
        todo.append(("save", save_spec(ctx), "random"))
    for _ in range(n(1500, 40000)):
        todo.append(("read", bytes_spec(ctx), "random"))
    for _ in range(n(700, 12000)):
        todo.append(("affine", affine_spec(ctx), "random"))
    for _ in range(n(140, 1500)):
        todo.append(("tool", tool_spec(ctx), "random"))
    for _ in range(n(4, 30)):
        todo.append(("tool", tool_spec(ctx, via="subproc"), "random"))
    for _ in range(n(250, 3000)):
        todo.append(("vtk", vtk_spec(ctx), "random"))
    for _ in range(n(100, 1200)):
        todo.append(("links", links_spec(ctx), "random"))
    for _ in range(n(3, 16)):
        todo.append(("links", links_spec(ctx, via="subproc"), "random"))
    # unit changes (own generator: the cases above stay the same for a given VERIF_SEED)
    rng2 = random.Random(ctx.seed * 1000003 + 17 + 7919)
    gen_aff = [spec for (mode, spec, source) in todo if mode == "affine" and source == "gen"]
    for k, spec in enumerate(gen_aff):
        for sc in (UNIT_CHANGES if not ctx.quick else [UNIT_CHANGES[k % 4]]):
            todo.append(("affine", dict(spec, sc=sc, mb=0, vdtype=("float32", "float64")[k % 2]), "gen-scaled"))
    for k in range(n(240, 6000)):
        todo.append(("affine", scaled_affine_spec(rng2, UNIT_CHANGES[k % 4]), "random-scaled"))
    # special-looking --coord-transform values through the real command line
    rng4 = random.Random(ctx.seed * 1000003 + 17 + 3 * 7919)
    for k in range(n(70, 1400)):
        todo.append(("tool", special_tool_spec(ctx, rng4, k), "random-special-transform"))
    for k in range(n(2, 14)):
        todo.append(("tool", special_tool_spec(ctx, rng4, 7 * k, via="subproc"), "random-special-transform"))
    # link tables in conflict with themselves / with files already present
    rng3 = random.Random(ctx.seed * 1000003 + 17 + 2 * 7919)
    for _ in range(n(80, 1500)):
        todo.append(("links", conflict_links_spec(rng3), "random-conflict"))
    for _ in range(n(2, 10)):
        todo.append(("links", conflict_links_spec(rng3, via="subproc"), "random-conflict"))

    cases = []
    for serial, (mode, spec, source) in enumerate(todo):
        cases.append(drive(work, mode, spec, serial))
    ctx.cleanup()

    verdicts = {}
    chunk = ctx.pick(6000, 6000)
    for base in range(0, len(cases), chunk):
        part = cases[base:base + chunk]
        for k, c in enumerate(part):
            c["tid"] = base + k + 1
        verdicts.update(retry_once(ctx, ctx.judge, "Trace_Mesh", part, workers=8))
    by_mode = collections.Counter()
    exits = collections.Counter()
    volume_clause = collections.Counter()
    for (mode, spec, source), case in zip(todo, cases):
        ctx.count()
        by_mode[mode + "/" + source] += 1
        if is_nontrivial(mode, spec):
            ctx.nontrivial(mode + ":" + json.dumps(spec, sort_keys=True))
        st, clause, pos = verdicts[case["tid"]]
        if mode == "read":
            exits["%s->%s" % (EXIT_NAMES[pos], case["res"]["st"])] += 1
        if mode == "affine":
            volume_clause[pos] += 1
        if st != "ok":
            if clause.startswith("machinery:"):
                ctx.undecided("Trace_Mesh could not judge a case: %s %s" % (clause, mode))
                continue
            ctx.violation(clause, sig_of(mode, spec, source, case, clause, pos),
                          {"mode": mode, "spec": spec, "source": source,
                           "observed": {k: case[k] for k in ("res", "saved", "rc", "exc", "newfiles", "info",
                                                             "after", "lines") if k in case}})
    ctx.notes["cases_by_mode"] = dict(by_mode)
    ctx.notes["reader_oracle_exit_vs_real_outcome"] = dict(exits)
    ctx.notes["affine_cases_signed_volume_clause"] = {"applied (closed, volume # 0, det # 0)": volume_clause[1],
                                                      "not applicable": volume_clause[0]}
    shown = set()
    for (mode, spec, source), case in zip(todo, cases):
        if mode in ("affine", "tool", "links") and mode not in shown and is_nontrivial(mode, spec):
            shown.add(mode)
            ctx.sample({"mode": mode, "spec": spec, "verdict": verdicts[case["tid"]][1]})


def replay(ctx, path):
    with open(path) as f:
        rp = json.load(f)
    d = rp["detail"]
    work = ctx.scratch("verif_mesh_")
    case = drive(work, d["mode"], d["spec"], 0)
    v = ctx.judge("Trace_Mesh", [case])
    print("replay verdict:", v[1])
    if "res" in case:
        print("observed:", json.dumps({k: case["res"][k] for k in ("st", "cls")}))
    ctx.cleanup()
    return 0 if v[1][0] == "ok" else 1
