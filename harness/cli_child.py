"""Child process of harness/cli_fault.py: run one command-line tool of the package
under the I/O interposer, INCLUDING the interpreter's exit phase (atexit handlers
run with the interposer still installed - the sharded accessor flushes there).

usage: cli_child.py <root>[|<extra root>...] <plan json|null> <report path> <module> [tool args...]
"""
import atexit
import json
import os
import runpy
import sys

sys.path.insert(0, os.path.dirname(os.path.dirname(os.path.abspath(__file__))))
from harness.faults import Crash, Interposer  # noqa: E402

root, plan, report, module = sys.argv[1:5]
argv = sys.argv[5:]
root, *extra = root.split("|")          # "<dataset root>|<TMPDIR>": both are enumerated
ip = Interposer(root, json.loads(plan) if plan != "null" else None, extra_roots=extra)


def dump():
    with open(report, "w") as f:
        json.dump({"calls": ip.calls, "fired": ip.fired, "crashed": ip.crashed}, f)


atexit.register(dump)          # registered first: runs last, after the tool's own handlers
ip.__enter__()
sys.argv = [module] + argv
try:
    runpy.run_module(module, run_name="__main__")
except Crash:
    dump()
    os._exit(137)              # a killed process runs no exit handlers
