"""Drive the real chunk codecs (raw, compressed_segmentation, jpeg) and RECORD
what they do.  Nothing here judges: arrays and byte strings are re-encoded
into the forms CSeg.tla / RawJpeg.tla read (16-bit halves, byte lists), the
outcome of a call is stored as array / exception class / "hang"."""
import io
import signal
import warnings

import numpy as np

HANG_SECONDS = 5.0


class _Hang(BaseException):
    """raised by the alarm; BaseException so that no `except Exception` in the
    code under test swallows it"""


def _on_alarm(signum, frame):
    raise _Hang()


def with_alarm(fn, seconds=HANG_SECONDS):
    """Run fn() under a wall-clock alarm.  Returns ("ok", value) |
    ("exc", exception) | ("hang", None)."""
    old = signal.signal(signal.SIGALRM, _on_alarm)
    signal.setitimer(signal.ITIMER_REAL, seconds)
    try:
        try:
            v = fn()
            signal.setitimer(signal.ITIMER_REAL, 0)
            return "ok", v
        except _Hang:
            return "hang", None
        except Exception as e:          # recorded, judged by TLC
            signal.setitimer(signal.ITIMER_REAL, 0)
            return "exc", e
    finally:
        signal.setitimer(signal.ITIMER_REAL, 0)
        signal.signal(signal.SIGALRM, old)


def exc_class(e):
    """Documented format error -> "InvalidFormatError" (also for subclasses);
    anything else -> its qualified class name (struct.error, OSError, ...)."""
    from neuroglancer_scripts.chunk_encoding import InvalidFormatError
    if isinstance(e, InvalidFormatError):
        return "InvalidFormatError"
    t = type(e)
    if t.__module__ in ("builtins", "exceptions"):
        return t.__name__
    return t.__module__ + "." + t.__name__


def clean_msg(e):
    import re
    return re.sub(r"[^A-Za-z0-9 _.,:()=-]", "?", str(e))[:120]


# ---------------------------------------------------------------- re-encoders
def buf_halves(buf):
    """bytes -> {"n": byte length, "h": 16-bit little-endian halves}; an odd
    trailing byte is zero-extended."""
    buf = bytes(buf)
    n = len(buf)
    if n % 2:
        buf += b"\0"
    return {"n": n, "h": np.frombuffer(buf, dtype="<u2").tolist()}


def halves_bytes(rec):
    """inverse of buf_halves (used for buffers that TLC produced)"""
    b = np.asarray(rec["h"], dtype="<u2").tobytes()
    return b[:rec["n"]]


def arr_halves(a):
    """array -> flat halves of its little-endian bytes in C order"""
    a = np.ascontiguousarray(a)
    a = a.astype(a.dtype.newbyteorder("<"), copy=False)
    b = a.tobytes()
    if len(b) % 2:
        b += b"\0"
    return np.frombuffer(b, dtype="<u2").tolist()


def arr_bytes(a):
    a = np.ascontiguousarray(a)
    a = a.astype(a.dtype.newbyteorder("<"), copy=False)
    return list(a.tobytes())


def dec_record(st, v, as_bytes=False):
    """Outcome of a decode call in the uniform form of Trace_CSeg."""
    if st == "hang":
        return {"st": "hang", "cls": "", "shape": [], "dtype": "", "a": []}
    if st == "exc":
        return {"st": "exc", "cls": exc_class(v), "shape": [], "dtype": "", "a": [],
                "msg": clean_msg(v)}
    if not isinstance(v, np.ndarray):
        return {"st": "ok", "cls": "", "shape": [], "dtype": type(v).__name__, "a": []}
    return {"st": "ok", "cls": "", "shape": [int(s) for s in v.shape],
            "dtype": v.dtype.name if v.dtype.byteorder in "<=|" else v.dtype.str,
            "a": arr_bytes(v) if as_bytes else arr_halves(v)}


# ------------------------------------------------------ compressed_segmentation
def cseg_cfg(C, shape_xyz, block, dtype):
    X, Y, Z = shape_xyz
    return {"C": int(C), "X": int(X), "Y": int(Y), "Z": int(Z),
            "bx": int(block[0]), "by": int(block[1]), "bz": int(block[2]),
            "wpl": 1 if np.dtype(dtype).itemsize == 4 else 2}


def cseg_encoder(dtype, C, block):
    from neuroglancer_scripts import chunk_encoding as ce
    return ce.CompressedSegmentationEncoder(str(np.dtype(dtype).name), C, list(block))


PRESENTATIONS = ["C", "C", "be", "F", "xyzc-view", "strided", "readonly", "be-F"]


def present(arr, how):
    """The same label array as the caller may legally hold it: another byte order
    or memory layout (values and shape unchanged)."""
    a = arr
    if how.startswith("be"):
        a = a.astype(a.dtype.newbyteorder(">"))
    if how.endswith("F"):
        a = np.asfortranarray(a)
    elif how == "xyzc-view":
        a = np.ascontiguousarray(a.transpose(3, 2, 1, 0)).transpose(3, 2, 1, 0)
    elif how == "strided":
        big = np.zeros(tuple(2 * n for n in a.shape), dtype=a.dtype)
        v = big[::2, ::2, ::2, ::2]
        v[...] = a
        a = v
    elif how == "readonly":
        a = a.copy()
        a.setflags(write=False)
    return a


def record_cseg_encode(arr, block, how="C"):
    """C02 case: arr is a (C, Z, Y, X) uint32/uint64 array; `how` = the byte order /
    memory layout in which it is handed to the encoder (see present())."""
    C, Z, Y, X = arr.shape
    dtype = arr.dtype.name
    enc = cseg_encoder(dtype, C, block)
    cfg = cseg_cfg(C, (X, Y, Z), block, dtype)
    case = {"mode": "C02", "cfg": cfg, "dtype": dtype, "arr": arr_halves(arr)}
    given = present(arr, how)
    st, v = with_alarm(lambda: enc.encode(given))
    if st != "ok":
        case["enc"] = {"st": "exc" if st == "exc" else "hang",
                       "cls": exc_class(v) if st == "exc" else "hang", "n": 0, "h": [],
                       "msg": clean_msg(v)}
        case["dec"] = {"st": "skip", "cls": "", "shape": [], "dtype": "", "a": []}
        return case, None
    raw = bytes(v)
    case["enc"] = dict(st="ok", cls="", **buf_halves(raw))
    st2, v2 = with_alarm(lambda: enc.decode(raw, (X, Y, Z)))
    case["dec"] = dec_record(st2, v2)
    return case, raw


def record_cseg_decode(buf, C, shape_xyz, block, dtype, warm=()):
    """C10 case for the compressed_segmentation decoder.  warm: (bytes, shape) pairs decoded
    first with the SAME encoder object (their results are not judged)."""
    enc = cseg_encoder(dtype, C, block)
    for wbuf, wshape in warm:
        with_alarm(lambda: enc.decode(bytes(wbuf), tuple(wshape)))
    st, v = with_alarm(lambda: enc.decode(bytes(buf), tuple(shape_xyz)))
    return {"mode": "C10cseg", "cfg": cseg_cfg(C, shape_xyz, block, dtype),
            "dtype": str(np.dtype(dtype).name), "buf": buf_halves(buf),
            "dec": dec_record(st, v)}


def record_cseg_dataset(scales, dtype, C, order):
    """C02 cases from a multi-step history on ONE PrecomputedIO object (one
    encoder per scale lives in it): scales = [(key, size_xyz, chunk_xyz, block,
    {coords: arr})]; every chunk is written through write_chunk, then every
    chunk is read through read_chunk in `order`; the arrays that were RETURNED
    are kept and only recorded after the last call (what a caller that holds
    them sees).  The stored bytes are judged under the block size that the info
    announces for the scale."""
    from neuroglancer_scripts import accessor as acc_mod
    from neuroglancer_scripts import precomputed_io

    class Mem(acc_mod.Accessor):
        can_read = can_write = True

        def __init__(self):
            self.files, self.chunks = {}, {}

        def file_exists(self, rel):
            return rel in self.files

        def fetch_file(self, rel):
            if rel not in self.files:
                raise acc_mod.DataAccessError("no " + rel)
            return self.files[rel]

        def store_file(self, rel, buf, mime_type="application/octet-stream", overwrite=False):
            self.files[rel] = bytes(buf)

        def fetch_chunk(self, key, cc):
            if (key, tuple(cc)) not in self.chunks:
                raise acc_mod.DataAccessError("no chunk")
            return self.chunks[(key, tuple(cc))]

        def store_chunk(self, buf, key, cc, mime_type="application/octet-stream", overwrite=False):
            self.chunks[(key, tuple(cc))] = bytes(buf)

    info = {"type": "segmentation", "data_type": str(np.dtype(dtype).name), "num_channels": int(C),
            "scales": [{"key": key, "size": list(size), "chunk_sizes": [list(chunk)],
                        "resolution": [float(2 ** k)] * 3, "voxel_offset": [0, 0, 0],
                        "encoding": "compressed_segmentation",
                        "compressed_segmentation_block_size": list(block)}
                       for k, (key, size, chunk, block, _) in enumerate(scales)]}
    mem = Mem()
    st0, pio = with_alarm(lambda: precomputed_io.get_IO_for_new_dataset(info, mem))
    cases = []
    if st0 != "ok":
        raise RuntimeError("harness: the dataset could not be created: %r" % (pio,))
    wrote = {}
    for key, size, chunk, block, arrs in scales:
        for cc, arr in arrs.items():
            wrote[(key, cc)] = with_alarm(lambda: pio.write_chunk(arr, key, cc))
    got = {}
    for key, cc in order:
        got[(key, cc)] = with_alarm(lambda: pio.read_chunk(key, cc))
    for key, size, chunk, block, arrs in scales:
        for cc, arr in arrs.items():
            X, Y, Z = cc[1] - cc[0], cc[3] - cc[2], cc[5] - cc[4]
            case = {"mode": "C02", "cfg": cseg_cfg(C, (X, Y, Z), block, dtype),
                    "dtype": str(np.dtype(dtype).name), "arr": arr_halves(arr)}
            st, v = wrote[(key, cc)]
            if st != "ok" or (key, tuple(cc)) not in mem.chunks:
                case["enc"] = {"st": "exc" if st != "hang" else "hang",
                               "cls": exc_class(v) if st == "exc" else ("hang" if st == "hang" else "NotStored"),
                               "n": 0, "h": [], "msg": clean_msg(v) if st == "exc" else ""}
                case["dec"] = {"st": "skip", "cls": "", "shape": [], "dtype": "", "a": []}
            else:
                case["enc"] = dict(st="ok", cls="", **buf_halves(mem.chunks[(key, tuple(cc))]))
                st2, v2 = got[(key, cc)]
                case["dec"] = dec_record(st2, v2)      # late: after every other call
            cases.append((arr, list(block), case))
    return cases


# ------------------------------------------------------------------------- raw
def record_raw_decode(buf, C, shape_xyz, dtype, warm=()):
    from neuroglancer_scripts import chunk_encoding as ce
    enc = ce.RawChunkEncoder(dtype, C)
    for wbuf, wshape in warm:
        with_alarm(lambda: enc.decode(bytes(wbuf), tuple(wshape)))
    X, Y, Z = shape_xyz
    st, v = with_alarm(lambda: enc.decode(bytes(buf), (X, Y, Z)))
    return {"mode": "C10raw",
            "cfg": {"C": C, "X": X, "Y": Y, "Z": Z, "isz": int(np.dtype(dtype).itemsize)},
            "dtype": str(np.dtype(dtype).name),
            "buf": {"n": len(buf), "b": list(bytes(buf))},
            "dec": dec_record(st, v, as_bytes=True)}


# ------------------------------------------------------------------------ jpeg
def pil_facts(buf):
    """What PIL itself reports for the bytes (environment facts of the JPEG
    wrapper automaton): open, format, mode, size, load, pixels."""
    import PIL.Image
    facts = {"open": "err", "format": "", "mode": "", "w": 0, "h": 0, "bands": 0,
             "load": "err", "loadcls": "", "pix": []}

    def probe():
        with warnings.catch_warnings():
            warnings.simplefilter("ignore")
            try:
                img = PIL.Image.open(io.BytesIO(bytes(buf)))
            except Exception as e:
                facts["opencls"] = exc_class(e)
                return
            facts["open"] = "ok"
            facts["format"] = str(img.format or "")
            facts["mode"] = str(img.mode)
            facts["w"], facts["h"] = int(img.size[0]), int(img.size[1])
            facts["bands"] = len(img.getbands())
            try:
                img.load()
                pix = img.tobytes()
            except Exception as e:
                facts["loadcls"] = exc_class(e)
                return
            facts["load"] = "ok"
            if len(pix) <= 4096:
                facts["pix"] = list(pix)

    st, v = with_alarm(probe)
    if st == "hang":
        facts["loadcls"] = "hang"
    elif st == "exc":
        facts["loadcls"] = exc_class(v)
    return facts


def record_jpeg_decode(buf, C, shape_xyz):
    from neuroglancer_scripts import chunk_encoding as ce
    enc = ce.JpegChunkEncoder("uint8", C)
    X, Y, Z = shape_xyz

    def call():
        with warnings.catch_warnings():
            warnings.simplefilter("ignore")
            return enc.decode(bytes(buf), (X, Y, Z))

    st, v = with_alarm(call)
    return {"mode": "C10jpeg", "cfg": {"C": C, "X": X, "Y": Y, "Z": Z},
            "dtype": "uint8", "n": len(buf), "pil": pil_facts(buf),
            "dec": dec_record(st, v, as_bytes=True)}
