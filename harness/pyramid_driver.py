"""Drive the real pyramid computation (dyadic_pyramid.compute_dyadic_scales /
compute_dyadic_downscaling) and RECORD what it wrote.  No judging here.

* np.empty inside neuroglancer_scripts.dyadic_pyramid is poisoned by replacing
  the module attribute `np` with a proxy (run-time, no source change): every
  buffer the assembly allocates is pre-filled with a byte pattern, so that a
  voxel that is never written differs between two runs with two patterns.
* the global reference is the implementation's own downscaler CLASS
  (constructed directly, not through get_downscaler - the selection function
  is part of what is checked) applied to the whole previous level as one array
  (the property's definition).
* the pyramid step is entered either through the library
  (get_downscaler(method, info, options) + compute_dyadic_scales) or through the
  command-line entry point scripts.compute_scales.main(argv) in this process
  (--downscaling-method / --outside-value / --flat / --no-gzip), method "auto"
  included.
* function-API path: ONE downscaler object per (method, outside value, info
  type) is obtained from get_downscaler and RE-USED for every pyramid of the
  run (shared_downscaler), so that pyramids of different data types, channel
  counts and sizes share an object, as a long-lived caller would; the
  reference is built from the class, freshly, for every job.
* all-in-one path: scripts.volume_to_precomputed_pyramid.main(argv) on a NIfTI
  file written with nibabel (identity affine); the tool converts the volume,
  generates the scales (fixed target chunk 64) and computes the pyramid; the
  FINAL info and every level are read back.
* volumes (make_volume): unique / random values, label images whose channels
  share label sets (multi-channel compressed_segmentation), uint64 values
  above 2^53 (averaging in float64 is inexact there: the level must still not
  depend on how the scale is cut into chunks).
* source faults: right before the step that reads scale k, one chunk of scale
  k is removed ("missing"), gets a bad gzip magic number ("badgzip") or loses
  its last byte ("truncated", raw encoding without gzip); for sharded storage
  one chunk of the first scale is never written.  The intact content of scale
  k is recorded before the damage.
* provenance traces use recording reader / writer objects (public parameters
  of compute_dyadic_downscaling) on coordinate-coded volumes.
"""
import atexit
import contextlib
import io
import json
import os
import shutil
import tempfile

import numpy as np

SHARDING = {"@type": "neuroglancer_uint64_sharded_v1", "minishard_bits": 1, "shard_bits": 1,
            "preshift_bits": 1, "hash": "identity", "minishard_index_encoding": "raw",
            "data_encoding": "raw"}


class PoisonNP:
    """stands for the numpy module inside dyadic_pyramid; `empty` is filled"""

    def __init__(self, pattern):
        self._pattern = pattern
        self.empties = 0

    def __getattr__(self, name):
        return getattr(np, name)

    def empty(self, shape, dtype=float, **kw):
        a = np.empty(shape, dtype=dtype, **kw)
        a.view(np.uint8).reshape(-1)[:] = self._pattern
        self.empties += 1
        return a


@contextlib.contextmanager
def poisoned(pattern):
    from neuroglancer_scripts import dyadic_pyramid
    proxy = PoisonNP(pattern)
    saved = dyadic_pyramid.np
    dyadic_pyramid.np = proxy
    try:
        yield proxy
    finally:
        dyadic_pyramid.np = saved


@contextlib.contextmanager
def quiet():
    with contextlib.redirect_stdout(io.StringIO()), contextlib.redirect_stderr(io.StringIO()):
        yield


def make_info(scales, dtype, channels, encoding="raw", sharded=False, typ=None):
    """scales: list of dicts(key, size, chunk)"""
    out = []
    for k, s in enumerate(scales):
        sc = {"key": s["key"], "size": list(s["size"]), "chunk_sizes": [list(s["chunk"])],
              "resolution": s.get("resolution", [2 ** k, 2 ** k, 2 ** k]),
              "voxel_offset": [0, 0, 0], "encoding": encoding}
        if encoding == "compressed_segmentation":
            sc["compressed_segmentation_block_size"] = [8, 8, 8]
        if sharded:
            sc["sharding"] = dict(SHARDING)
        out.append(sc)
    return {"type": typ or ("segmentation" if encoding == "compressed_segmentation" else "image"),
            "data_type": dtype, "num_channels": channels, "scales": out}


def chunk_grid(size, chunk):
    """all chunk coordinate tuples (xmin, xmax, ymin, ymax, zmin, zmax)"""
    out = []
    for x in range(0, size[0], chunk[0]):
        for y in range(0, size[1], chunk[1]):
            for z in range(0, size[2], chunk[2]):
                out.append((x, min(x + chunk[0], size[0]), y, min(y + chunk[1], size[1]),
                            z, min(z + chunk[2], size[2])))
    return out


def make_volume(size, dtype, channels, rng, kind):
    """(C, Z, Y, X) array.  kind 'unique': pairwise distinct values (per channel
    offset); 'random': seeded random values (float32: multiples of 1/1 so that
    means of 8 are exact); 'labels': a label image - few labels (small ones and
    labels at the top of the type's range) in large uniform regions cut by
    random planes, every further channel being the first one again, a mirror
    image of it, or a fresh field over the SAME labels, so that blocks of
    different channels hold the same label sets; 'big' (uint64): values from
    2^53 up to the top of the range (not representable in float64)."""
    n = size[0] * size[1] * size[2]
    dt = np.dtype(dtype)
    if kind == "labels":
        mx = int(np.iinfo(dt).max)
        pool = [0, 1, 2, 7, 255, mx, mx - 1, mx // 2 + 1]
        nlab = int(rng.integers(1, 5))
        labels = [pool[int(i)] for i in rng.choice(len(pool), size=nlab, replace=False)]

        def field():
            f = np.zeros((size[2], size[1], size[0]), dtype=np.int64)
            for _ in range(int(rng.integers(0, 4))):      # cut by planes: large uniform regions
                ax = int(rng.integers(0, 3))
                cut = int(rng.integers(0, f.shape[ax] + 1))
                sl = [slice(None)] * 3
                sl[ax] = slice(cut, None)
                f[tuple(sl)] += 1
            return f % nlab
        first = field()
        chans = [first]
        for _c in range(1, channels):
            how = int(rng.integers(0, 4))
            if how <= 1:
                chans.append(first)
            elif how == 2:
                chans.append(np.flip(first, axis=int(rng.integers(0, 3))))
            else:
                chans.append(field())
        lut = np.array(labels, dtype=dt)
        return np.stack([lut[c] for c in chans]).astype(dt)
    if kind == "big":
        assert dt == np.uint64
        shape = (channels, size[2], size[1], size[0])
        e = rng.integers(53, 64, size=shape).astype(np.uint64)
        low = rng.integers(0, 2 ** 63, size=shape, dtype=np.uint64)
        vol = (np.uint64(1) << e) | (low & ((np.uint64(1) << e) - np.uint64(1)))
        top = rng.random(shape) < 0.1                     # the very top of the range
        vol[top] = np.uint64(2 ** 64 - 1) - (low[top] & np.uint64(4095))
        return vol
    if kind == "unique":
        base = rng.permutation(n * channels) + 1
        if dt == np.uint8:
            base = base % 251
        elif dt == np.uint16:
            base = base % 65521
        vol = base.reshape(channels, size[2], size[1], size[0])
    else:
        hi = {"uint8": 256, "uint16": 60000, "uint32": 1 << 30, "uint64": 1 << 30,
              "float32": 1 << 16}[dt.name]
        vol = rng.integers(0, hi, size=(channels, size[2], size[1], size[0]))
        if rng.random() < 0.35:
            # empty (all-zero) margins at the far end of one or more axes: whole border
            # chunks of zeros are ordinary data and must be downscaled like any other
            for ax, n_ax in ((3, size[0]), (2, size[1]), (1, size[2])):
                if n_ax > 1 and rng.random() < 0.6:
                    m = int(rng.integers(1, max(2, n_ax // 2 + 1)))
                    sl = [slice(None)] * 4
                    sl[ax] = slice(n_ax - m, None)
                    vol[tuple(sl)] = 0
    return vol.astype(dt)


def open_accessor(path, storage):
    from neuroglancer_scripts import file_accessor, sharded_file_accessor
    if storage == "sharded":
        acc = sharded_file_accessor.ShardedFileAccessor(path)
        atexit.unregister(acc.close)
        return acc
    return file_accessor.FileAccessor(path, flat=(storage == "flat"),
                                      gzip=(storage == "gzip"))


def write_level0(path, info, storage, vol, skip=None):
    from neuroglancer_scripts import precomputed_io
    acc = open_accessor(path, storage)
    pio = precomputed_io.get_IO_for_new_dataset(json.loads(json.dumps(info)), acc)
    s0 = info["scales"][0]
    for c in chunk_grid(s0["size"], s0["chunk_sizes"][0]):
        if skip is not None and tuple(c) == tuple(skip):
            continue            # source fault "missing": this chunk is never written
        pio.write_chunk(np.ascontiguousarray(vol[:, c[4]:c[5], c[2]:c[3], c[0]:c[1]]),
                        s0["key"], c)
    if storage == "sharded":
        acc.close()


def read_level(pio, info, k):
    """assemble scale k from its chunks; returns (array, missing chunk list)"""
    sc = info["scales"][k]
    size = sc["size"]
    dt = np.dtype(info["data_type"])
    arr = np.zeros((info["num_channels"], size[2], size[1], size[0]), dtype=dt)
    missing = []
    for c in chunk_grid(size, sc["chunk_sizes"][0]):
        try:
            ch = pio.read_chunk(sc["key"], c)
            arr[:, c[4]:c[5], c[2]:c[3], c[0]:c[1]] = ch
        except Exception as e:  # recorded
            missing.append([list(c), type(e).__name__])
    return arr, missing


def chunk_file(d, storage, key, c):
    """path of a chunk file as the FileAccessor configurations used here lay it out"""
    if storage == "flat":
        p = os.path.join(d, key, "%d-%d_%d-%d_%d-%d" % tuple(c))
    else:
        p = os.path.join(d, key, "%d-%d" % (c[0], c[1]), "%d-%d" % (c[2], c[3]), "%d-%d" % (c[4], c[5]))
    return p + (".gz" if storage == "gzip" else "")


def fault_chunk(info, fault):
    sc = info["scales"][fault["level"]]
    grid = chunk_grid(sc["size"], sc["chunk_sizes"][0])
    return grid[fault["pick"] % len(grid)]


def apply_fault(d, storage, info, fault):
    """damage one chunk FILE of scale fault['level'] (file storages)"""
    key = info["scales"][fault["level"]]["key"]
    path = chunk_file(d, storage, key, fault_chunk(info, fault))
    if fault["kind"] == "missing":
        os.unlink(path)
    elif fault["kind"] == "badgzip":
        with open(path, "r+b") as f:
            f.write(b"\0\0")
    elif fault["kind"] == "truncated":
        with open(path, "r+b") as f:
            f.truncate(os.path.getsize(path) - 1)
    else:
        raise ValueError(fault["kind"])


def cli_argv(workdir, storage, method, outside_value, explicit_auto):
    argv = ["compute-scales"]
    if method != "auto" or explicit_auto:
        argv += ["--downscaling-method", method]
    if outside_value is not None:
        argv += ["--outside-value", str(outside_value)]
    if storage == "flat":
        argv += ["--flat"]
    if storage in ("deep", "flat"):
        argv += ["--no-gzip"]
    return argv + [workdir]


_SHARED = {}
_SHARED_SEEN = {}


def shared_downscaler(method, info, outside_value):
    """one downscaler object per (method, outside value, info type) for the
    whole run; also returns the data types of the pyramids the object served
    before (order of first use) - the object's history, needed for a replay"""
    from neuroglancer_scripts import downscaling
    key = (method, outside_value, info.get("type") if method == "auto" else None)
    if key not in _SHARED:
        opts = {"outside_value": outside_value} if outside_value is not None else {}
        _SHARED[key] = downscaling.get_downscaler(method, info, opts)
        _SHARED_SEEN[key] = []
    prior = list(_SHARED_SEEN[key])
    if info["data_type"] not in _SHARED_SEEN[key]:
        _SHARED_SEEN[key].append(info["data_type"])
    return _SHARED[key], prior


def run_cli(argv, tool="compute_scales"):
    """scripts.<tool>.main(argv) in this process; the accessor the tool
    creates must not stay registered with atexit (its directory is removed),
    the logging configuration of the tool is undone.  Returns main's return
    value (the process exit status: None / 0 = success)."""
    import atexit
    import importlib
    import logging
    compute_scales = importlib.import_module("neuroglancer_scripts.scripts." + tool)
    registered = []
    real_register = atexit.register

    def recording_register(fn, *a, **kw):
        registered.append(fn)
        return real_register(fn, *a, **kw)

    root = logging.getLogger()
    handlers, level = list(root.handlers), root.level
    atexit.register = recording_register
    try:
        return compute_scales.main(argv)
    finally:
        atexit.register = real_register
        for fn in registered:
            atexit.unregister(fn)
        for h in list(root.handlers):
            if h not in handlers:
                root.removeHandler(h)
        root.setLevel(level)


def run_pyramid(workdir, info, storage, vol, method, pattern, outside_value=None,
                via="lib", fault=None, explicit_auto=False):
    """write level 0, run the REAL pyramid step (library: get_downscaler +
    compute_dyadic_scales; cli: scripts.compute_scales.main) with np.empty
    poisoned, read every level back through a fresh accessor.
    fault = dict(level, kind, pick): see the module header.
    Returns dict(raised, levels=[array...], missing=[...], empties, intact)."""
    from neuroglancer_scripts import downscaling, dyadic_pyramid, precomputed_io
    d = tempfile.mkdtemp(prefix="pyr_", dir=workdir)
    old_tmp = tempfile.tempdir
    tempfile.tempdir = workdir
    res = {"raised": "", "msg": "", "levels": [], "missing": [], "empties": 0, "started": [],
           "intact": None, "fault_applied": False}
    real_step = dyadic_pyramid.compute_dyadic_downscaling
    at_write = fault is not None and storage == "sharded"

    def logged_step(info_, source_scale_index, *a, **kw):
        # public boundary: which transition is being computed (recorded only)
        res["started"].append(int(source_scale_index))
        if fault is not None and not at_write and not res["fault_applied"] \
                and int(source_scale_index) == fault["level"]:
            pio_f = precomputed_io.get_IO_for_existing_dataset(open_accessor(d, storage))
            try:
                res["intact"], _ = read_level(pio_f, info, fault["level"])
                apply_fault(d, storage, info, fault)
                res["fault_applied"] = True
            except Exception as e:      # harness problem: the case is dropped, never judged
                res["fault_error"] = "%s: %s" % (type(e).__name__, e)
                res["fault_applied"] = True
        return real_step(info_, source_scale_index, *a, **kw)

    try:
        with quiet():
            try:
                write_level0(d, info, storage, vol,
                             skip=fault_chunk(info, fault) if at_write else None)
                if at_write:
                    res["intact"] = vol
                    res["fault_applied"] = True
            except Exception as e:      # the dataset could not even be set up
                res["setup_error"] = type(e).__name__
                return res
            with poisoned(pattern) as proxy:
                dyadic_pyramid.compute_dyadic_downscaling = logged_step
                acc = None
                try:
                    if via == "cli":
                        rc = run_cli(cli_argv(d, storage, method, outside_value, explicit_auto))
                        if rc:
                            res["raised"] = "exit:%s" % rc
                    else:
                        acc = open_accessor(d, storage)
                        pio = precomputed_io.get_IO_for_existing_dataset(acc)
                        ds, res["shared_prior"] = shared_downscaler(method, pio.info, outside_value)
                        dyadic_pyramid.compute_dyadic_scales(pio, ds)
                except Exception as e:  # recorded, judged by TLC
                    res["raised"] = type(e).__name__
                    res["msg"] = str(e)[:120]
                except SystemExit as e:
                    res["raised"] = "SystemExit:%s" % (e.code,)
                finally:
                    dyadic_pyramid.compute_dyadic_downscaling = real_step
            res["empties"] = proxy.empties
            if storage == "sharded" and acc is not None:
                try:
                    acc.close()
                except Exception as e:
                    res["raised"] = res["raised"] or ("close:" + type(e).__name__)
            acc2 = open_accessor(d, storage)
            pio2 = precomputed_io.get_IO_for_existing_dataset(acc2)
            for k in range(len(info["scales"])):
                arr, missing = read_level(pio2, info, k)
                res["levels"].append(arr)
                res["missing"].append(missing)
    finally:
        tempfile.tempdir = old_tmp
        shutil.rmtree(d, ignore_errors=True)
    return res


def run_all_in_one(workdir, vol, pattern, dataset_type=None, encoding=None, storage="gzip",
                   method="auto", outside_value=None, explicit_auto=False):
    """the all-in-one tool scripts.volume_to_precomputed_pyramid.main(argv) on a
    NIfTI file holding vol (1, Z, Y, X), np.empty of the pyramid module
    poisoned; returns what run_pyramid returns plus the FINAL info."""
    import nibabel
    from neuroglancer_scripts import dyadic_pyramid, precomputed_io
    d = tempfile.mkdtemp(prefix="v2pp_", dir=workdir)
    old_tmp = tempfile.tempdir
    tempfile.tempdir = workdir
    res = {"raised": "", "msg": "", "levels": [], "missing": [], "empties": 0, "started": [],
           "intact": None, "info": None}
    real_step = dyadic_pyramid.compute_dyadic_downscaling

    def logged_step(info_, source_scale_index, *a, **kw):
        res["started"].append(int(source_scale_index))
        return real_step(info_, source_scale_index, *a, **kw)

    try:
        with quiet():
            nii = os.path.join(d, "in.nii")
            xyz = np.ascontiguousarray(np.transpose(vol[0], (2, 1, 0)))
            nibabel.save(nibabel.Nifti1Image(xyz, np.eye(4), dtype=xyz.dtype), nii)
            out = os.path.join(d, "out")
            argv = ["volume-to-precomputed-pyramid"]
            if method != "auto" or explicit_auto:
                argv += ["--downscaling-method", method]
            if outside_value is not None:
                argv += ["--outside-value", str(outside_value)]
            if dataset_type is not None:
                argv += ["--type", dataset_type]
            if encoding is not None:
                argv += ["--encoding", encoding]
            if storage == "flat":
                argv += ["--flat"]
            if storage in ("deep", "flat"):
                argv += ["--no-gzip"]
            argv += [nii, out]
            res["argv"] = argv[1:-2]
            with poisoned(pattern) as proxy:
                dyadic_pyramid.compute_dyadic_downscaling = logged_step
                try:
                    rc = run_cli(argv, "volume_to_precomputed_pyramid")
                    if rc:
                        res["raised"] = "exit:%s" % rc
                except Exception as e:  # recorded, judged by TLC
                    res["raised"] = type(e).__name__
                    res["msg"] = str(e)[:120]
                except SystemExit as e:
                    res["raised"] = "SystemExit:%s" % (e.code,)
                finally:
                    dyadic_pyramid.compute_dyadic_downscaling = real_step
            res["empties"] = proxy.empties
            try:
                pio2 = precomputed_io.get_IO_for_existing_dataset(open_accessor(out, storage))
            except Exception as e:
                res["setup_error"] = "no info: " + type(e).__name__
                return res
            res["info"] = json.loads(json.dumps(pio2.info))
            for k in range(len(pio2.info["scales"])):
                arr, missing = read_level(pio2, pio2.info, k)
                res["levels"].append(arr)
                res["missing"].append(missing)
    finally:
        tempfile.tempdir = old_tmp
        shutil.rmtree(d, ignore_errors=True)
    return res


def pair_factors(info, k):
    """the factors the property's 'downscaled once' refers to: 1 where the two
    sizes are equal, else 2 (how the pair is related, read off the info)"""
    a, b = info["scales"][k]["size"], info["scales"][k + 1]["size"]
    return [1 if x == y else 2 for x, y in zip(a, b)]


def reference_downscaler(name, outside_value=None):
    """the implementation's documented downscaler classes, constructed
    directly (get_downscaler and the command line are what is being checked)"""
    from neuroglancer_scripts import downscaling
    if name == "average":
        return downscaling.AveragingDownscaler(outside_value)
    if name == "majority":
        return downscaling.MajorityDownscaler()
    if name == "stride":
        return downscaling.StridingDownscaler()
    raise ValueError(name)


def ratio_factors(info, k):
    """for size pairs outside the 1 / 2 relation: the smallest factor f per axis
    with ceil(old / f) = new (None when there is none)"""
    a, b = info["scales"][k]["size"], info["scales"][k + 1]["size"]
    out = []
    for x, y in zip(a, b):
        fs = [f for f in range(1, x + 1) if -(-x // f) == y]
        if not fs:
            return None
        out.append(fs[0])
    return out


def global_reference(prev, info, k, method, outside_value=None, factors=None):
    """the implementation's own downscaler applied to the WHOLE previous level"""
    ds = reference_downscaler(method, outside_value)
    return np.asarray(ds.downscale(prev, factors or pair_factors(info, k)))


def flat_ints(arr, scale=1):
    """flat list of integers for TLC.  64-bit values do not survive TLC's JSON
    reader (32-bit integers): every uint64 element travels as THREE integers
    (bits 0-29, 30-59, 60-63) - a lossless structural re-encoding, two
    sequences are equal iff the arrays are."""
    a = np.asarray(arr)
    if a.dtype.kind == "f":
        a = np.rint(a.astype(np.float64) * scale)
    if a.dtype == np.uint64:
        out = []
        for v in a.reshape(-1).tolist():
            out += [v & 0x3FFFFFFF, (v >> 30) & 0x3FFFFFFF, v >> 60]
        return out
    return [int(v) for v in a.reshape(-1)]


# ---------------------------------------------------------------- provenance --
class RecordingIO:
    """reader and writer object for compute_dyadic_downscaling: serves chunks of
    a coordinate-coded volume (voxel value = 1 + x + X*(y + Y*z)), logs every
    read, keeps every written chunk."""

    def __init__(self, info, k):
        self.info = info
        old = info["scales"][k]
        self.old_key = old["key"]
        self.new_key = info["scales"][k + 1]["key"]
        X, Y, Z = old["size"]
        self.old_size = (X, Y, Z)
        self.vol = (1 + np.arange(X * Y * Z, dtype=np.int64)).reshape(1, Z, Y, X).astype(
            np.dtype(info["data_type"]))
        self.events = []

    def scale_is_lossy(self, key):
        return False

    def read_chunk(self, key, c):
        X, Y, Z = self.old_size
        ok = (key == self.old_key and 0 <= c[0] < c[1] <= X and 0 <= c[2] < c[3] <= Y
              and 0 <= c[4] < c[5] <= Z)
        self.events.append({"op": "read", "key": key, "c": [int(v) for v in c], "ok": bool(ok),
                            "prov": []})
        if not ok:
            from neuroglancer_scripts.accessor import DataAccessError
            raise DataAccessError("no such chunk %s %s" % (key, list(c)))
        return np.array(self.vol[:, c[4]:c[5], c[2]:c[3], c[0]:c[1]])

    def write_chunk(self, chunk, key, c):
        X, Y, Z = self.old_size
        a = np.asarray(chunk)
        prov = []
        shape_ok = a.shape == (1, c[5] - c[4], c[3] - c[2], c[1] - c[0])
        for v in a.reshape(-1):
            v = int(v) - 1
            if 0 <= v < X * Y * Z:
                prov.append([v % X, (v // X) % Y, v // (X * Y)])
            else:
                prov.append([-1, -1, -1])      # not a value of the old level
        self.events.append({"op": "write", "key": key, "c": [int(v) for v in c],
                            "ok": bool(shape_ok), "prov": prov})


def run_provenance(info, k, pattern=0x5A):
    """one real compute_dyadic_downscaling between scales k and k+1 with the
    striding downscaler on a coordinate-coded volume; returns the trace"""
    from neuroglancer_scripts import downscaling, dyadic_pyramid
    rio = RecordingIO(info, k)
    raised = ""
    with quiet(), poisoned(pattern):
        try:
            dyadic_pyramid.compute_dyadic_downscaling(
                info, k, downscaling.StridingDownscaler(), rio, rio)
        except Exception as e:  # recorded
            raised = type(e).__name__
    return {"events": rio.events, "raised": raised}
