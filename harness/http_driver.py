"""Build real datasets, serve them on the loopback server, fetch through the
real HTTP accessors under scripted server behaviour; record only."""
import atexit
import contextlib
import io
import json
import os
import shutil
import tempfile

from . import shard_driver as sd
from .http_server import Server


def build_sharded(workdir, cfg, stored, salt, legacy=False, cs=4):
    """Real sharded dataset written by the real writer. Returns (dir, sizes)."""
    grid = cfg["grid"]
    sizes = [g * cs - (1 if g > 1 else 0) for g in grid]
    rec = sd.run_session(workdir, cfg, stored, strategy="in memory", salt=salt, fetch_all=False,
                         parse=True, cs=cs, sizes=sizes)
    d = rec["dir"]
    if legacy:
        H = 16 * (1 << cfg["mb"])
        sdir = os.path.join(d, sd.KEY)
        for n in os.listdir(sdir):
            if n.endswith(".shard"):
                p = os.path.join(sdir, n)
                raw = open(p, "rb").read()
                with open(p[:-6] + ".index", "wb") as f:
                    f.write(raw[:H])
                with open(p[:-6] + ".data", "wb") as f:
                    f.write(raw[H:])
                os.unlink(p)
    return d, sizes, rec


def build_multiscale(workdir, cfgs, stored_lists, salt, cs=4):
    """One sharded dataset with SEVERAL scales (keys s0, s1, ...), each written by
    the real writer with its own grid / bit triple.  Returns (dir, [sizes per scale])."""
    base, all_sizes = None, []
    for k, (cfg, stored) in enumerate(zip(cfgs, stored_lists)):
        d, sizes, rec = build_sharded(workdir, cfg, stored, salt + k, cs=cs)
        all_sizes.append(sizes)
        if base is None:
            base = d
            continue
        with open(os.path.join(d, "info")) as f:
            sc = json.load(f)["scales"][0]
        sc["key"] = "s%d" % k
        sc["resolution"] = [2 ** k] * 3
        with open(os.path.join(base, "info")) as f:
            info = json.load(f)
        info["scales"].append(sc)
        with open(os.path.join(base, "info"), "w") as f:
            json.dump(info, f)
        shutil.move(os.path.join(d, sd.KEY), os.path.join(base, "s%d" % k))
        shutil.rmtree(d, ignore_errors=True)
    return base, all_sizes


def build_plain(workdir, layout, gz, grid, salt, cs=4):
    """Plain dataset written by the real FileAccessor (flat or deep, gzip or not)."""
    from neuroglancer_scripts import file_accessor as fa
    d = tempfile.mkdtemp(prefix="pl_", dir=workdir)
    sizes = [g * cs - (1 if g > 1 else 0) for g in grid]
    info = sd.make_info(grid, cs, 0, 0, 0, "raw", sizes)
    for s in info["scales"]:
        del s["sharding"]
    acc = fa.FileAccessor(d, flat=(layout == "flat"), gzip=gz)
    acc.store_file("info", json.dumps(info).encode(), mime_type="application/json")
    stored = []
    for pos in sd.all_pos(grid):
        acc.store_chunk(sd.payload_for(pos, salt, maxlen=40), sd.KEY, sd.coords_of(pos, cs, sizes))
        stored.append(pos)
    return d, sizes, stored


def local_read(d, target, coords, key=None):
    from neuroglancer_scripts import accessor
    with contextlib.redirect_stdout(io.StringIO()):
        try:
            acc = accessor.get_accessor_for_url(d)
        except Exception as e:      # recorded: the local reference itself cannot be opened
            return {"st": "exc", "data": [], "cls": type(e).__name__}
        try:
            if target == "info":
                b = acc.fetch_file("info")
            else:
                b = acc.fetch_chunk(key or sd.KEY, coords)
            return {"st": "ok", "data": list(b)}
        except Exception as e:
            return {"st": "exc", "data": [], "cls": type(e).__name__}
        finally:
            if hasattr(acc, "close"):
                atexit.unregister(acc.close)


def http_fetch(server, url, target, coords, sched):
    """One fetch through a FRESH accessor built by get_accessor_for_url."""
    from neuroglancer_scripts import accessor
    script = {i: b for i, b in enumerate(sched) if b != "Normal"}
    server.arm(script)
    acc_class = "none"
    try:
        acc = accessor.get_accessor_for_url(url)
        acc_class = type(acc).__name__
        if target == "info":
            b = acc.fetch_file("info")
        else:
            b = acc.fetch_chunk(sd.KEY, coords)
        res = {"st": "ok", "data": list(b), "cls": ""}
    except Exception as e:
        res = {"st": "exc", "data": [], "cls": type(e).__name__}
    log = server.log()
    reqs = [{"m": e["m"], "rng": bool(e["range"]), "applied": e["applied"], "path": e["path"],
             "status": e["status"]} for e in log]
    info_faulted = any(e["applied"] != "Normal" and e["path"].endswith("/info") for e in log)
    return res, reqs, acc_class, info_faulted


def http_session(server, url, steps):
    """Several fetches through ONE accessor object (state kept between them).
    steps: list of (target, coords, script) - script: {request index: behaviour}
    or {"all": behaviour}; the accessor is constructed under the first script.
    Returns one (res, reqs, acc_class, info_faulted) per step."""
    from neuroglancer_scripts import accessor
    out = []
    acc = None
    acc_class = "none"
    for k, step in enumerate(steps):
        target, coords, script = step[:3]
        key = step[3] if len(step) > 3 else sd.KEY
        server.arm(script)
        try:
            if acc is None:
                acc = accessor.get_accessor_for_url(url)
                acc_class = type(acc).__name__
            if target == "info":
                b = acc.fetch_file("info")
            else:
                b = acc.fetch_chunk(key, coords)
            res = {"st": "ok", "data": list(b), "cls": ""}
        except Exception as e:
            res = {"st": "exc", "data": [], "cls": type(e).__name__}
        log = server.log()
        reqs = [{"m": e["m"], "rng": bool(e["range"]), "applied": e["applied"], "path": e["path"],
                 "status": e["status"]} for e in log]
        info_faulted = any(e["applied"] != "Normal" and e["path"].endswith("/info") for e in log)
        out.append((res, reqs, acc_class, info_faulted))
    return out
