"""Fault / crash enumeration against the real accessors (records only).

A scenario = setup (earlier, fault-free stores) + one operation under test.
dry run -> list of I/O calls; then one injected run per (call index, error) and
per crash point; afterwards a FRESH accessor + PrecomputedIO reads everything."""
import atexit
import contextlib
import io
import json
import os
import shutil
import tempfile

import numpy as np

from .faults import Crash, Interposer, ERRORS_FOR

CS = 2


def _info(dtype, encoding, sharding=None, nscales=2, cs=CS):
    scales = []
    for k in range(nscales):
        s = {"key": "s%d" % (k + 1), "size": [2 * cs, 2 * cs, cs], "chunk_sizes": [[cs, cs, cs]],
             "resolution": [2 ** k] * 3, "voxel_offset": [0, 0, 0], "encoding": encoding}
        if encoding == "compressed_segmentation":
            s["compressed_segmentation_block_size"] = [2, 2, 2]
        if sharding:
            s["sharding"] = dict(sharding)
        scales.append(s)
    return {"type": "image", "data_type": dtype, "num_channels": 1, "scales": scales}


COORDS = [(0, 2, 0, 2, 0, 2), (2, 4, 0, 2, 0, 2), (0, 2, 2, 4, 0, 2), (2, 4, 2, 4, 0, 2)]


def arr(seed, dtype, cs=CS):
    rng = np.random.default_rng(seed)
    return rng.integers(0, 200, size=(1, cs, cs, cs)).astype(dtype)


def blist(a):
    return list(np.ascontiguousarray(a).tobytes())


class Scenario:
    """name, accessor kind/options, encoding; setup(); op(); targets; others"""

    def __init__(self, name, kind, encoding="raw", dtype="uint8", flat=False, gzip=True,
                 op="store_new", strategy="in memory", enc="raw", bits=(0, 1, 1), order=(3, 0, 2), cs=CS):
        self.name, self.kind, self.encoding, self.dtype = name, kind, encoding, dtype
        self.bits, self.order = tuple(bits), tuple(order)     # (preshift, minishard, shard) bits; store order
        self.flat, self.gzip, self.opname, self.strategy, self.enc = flat, gzip, op, strategy, enc
        if encoding == "compressed_segmentation":
            self.dtype = "uint32"
        self.cs = cs          # chunk edge (the lossy codec needs chunks larger than its header)
        self.coords = [tuple(v * cs // CS for v in c) for c in COORDS]

    def canon(self, a):
        """what a reader is expected to decode for the written array: the array itself,
        or (lossy jpeg) the decoding of the complete encoded chunk"""
        if self.encoding != "jpeg":
            return a
        from neuroglancer_scripts import chunk_encoding as ce
        enc = ce.JpegChunkEncoder("uint8", 1)
        return enc.decode(enc.encode(a), (a.shape[3], a.shape[2], a.shape[1]))

    def accessor(self, base, write=True):
        from neuroglancer_scripts import file_accessor as fa
        from neuroglancer_scripts import sharded_file_accessor as sfa
        if self.kind == "file":
            return fa.FileAccessor(base, flat=self.flat, gzip=self.gzip)
        a = sfa.ShardedFileAccessor(base, strategy=self.strategy)
        atexit.unregister(a.close)
        return a

    def sharding(self):
        if self.kind != "sharded":
            return None
        return {"@type": "neuroglancer_uint64_sharded_v1", "minishard_bits": self.bits[1],
                "shard_bits": self.bits[2],
                "preshift_bits": self.bits[0], "hash": "identity", "minishard_index_encoding": self.enc,
                "data_encoding": self.enc}

    def setup(self, sandbox):
        from neuroglancer_scripts import precomputed_io as pio
        base = os.path.join(sandbox, "ds")
        os.makedirs(base)
        info = _info(self.dtype, self.encoding, self.sharding(), cs=self.cs)
        acc = self.accessor(base)
        w = pio.get_IO_for_new_dataset(info, acc)
        self.expected = {}
        # earlier session: scale s1 fully written; for the file accessor also A, B of s2
        for i, c in enumerate(self.coords):
            a = arr(100 + i, self.dtype, self.cs)
            w.write_chunk(a, "s1", c)
            self.expected[("s1", c)] = self.canon(a)
        pre2 = self.coords[:2] if self.kind == "file" else []
        for i, c in enumerate(pre2):
            a = arr(200 + i, self.dtype, self.cs)
            w.write_chunk(a, "s2", c)
            self.expected[("s2", c)] = self.canon(a)
        if self.kind == "sharded":
            acc.close()
        self.base = base
        self.info = info
        self.meta_target = None
        try:
            self.meta_old = self.accessor(base).fetch_file("info")      # what the directory holds before the operation
        except Exception:
            self.meta_old = None
        return base

    def run_op(self):
        """The operation under test; returns (optype, ret, expRet, targets)."""
        from neuroglancer_scripts import precomputed_io as pio
        self.last_acc = None
        self.accepted = []
        self.targets = []
        acc = self.accessor(self.base)
        self.last_acc = acc
        op = self.opname
        if op in ("store_new", "store_overwrite"):
            w = pio.get_IO_for_existing_dataset(acc)
            if self.kind == "file":
                c = self.coords[2] if op == "store_new" else self.coords[0]
                cs = [c]
            else:
                cs = [self.coords[i] for i in self.order]       # out of identifier order
            self.targets = []
            raw_arrays = []
            for i, c in enumerate(cs):
                a = arr(300 + i, self.dtype, self.cs)
                old = self.expected.get(("s2", c))
                raw_arrays.append(a)
                self.targets.append((("s2", c), self.canon(a), old))
            self.accepted = []
            for ((k, c), _a, old), a in zip(self.targets, raw_arrays):
                w.write_chunk(a, k, c)
                self.accepted.append((k, c))
            if self.kind == "sharded":
                acc.close()
            return "store", None, None
        if op == "store_meta":
            # a metadata file as the TARGET of the store (read back as bytes and parsed)
            new = json.dumps(self.info, sort_keys=True).encode() + b"  "
            self.meta_target = ("info", new, self.meta_old)
            self.targets = []
            acc.store_file("info", new, mime_type="application/json", overwrite=True)
            return "store", None, None
        if op == "store_info":
            new = json.dumps(self.info, sort_keys=True).encode() + b" "
            self.targets = []
            acc.store_file("info", new, mime_type="application/json", overwrite=True)
            return "exists", [1], [1]          # judged through others (info must stay readable) only
        r = pio.get_IO_for_existing_dataset(acc)
        self.targets = []
        if op == "fetch":
            c = self.coords[1]
            a = r.read_chunk("s1", c)
            return "fetch", blist(a), blist(self.expected[("s1", c)])
        if op == "fetch_info":
            b = acc.fetch_file("info")
            return "fetch", [1] if json.loads(b) == self.info else [0], [1]
        if op == "exists":
            e = acc.file_exists("info")
            return "exists", [1 if e else 0], [1]
        raise ValueError(op)

    def readback(self):
        """Fresh accessor + PrecomputedIO: every chunk that matters."""
        from neuroglancer_scripts import precomputed_io as pio
        out_t, out_o = [], []
        try:
            acc = self.accessor(self.base)
            if self.opname in ("store_info", "store_meta"):
                # the info file is the TARGET of this operation: read the chunks
                # with the known info so that "others" does not depend on it
                if self.kind == "sharded":
                    acc.info = self.info      # the sharded accessor reads its parameters from the info file too
                r = pio.PrecomputedIO(self.info, acc)
            else:
                r = pio.get_IO_for_existing_dataset(acc)
        except Exception:
            r = None
        tkeys = set()
        if self.opname == "store_meta" and getattr(self, "meta_target", None):
            name, new, old = self.meta_target
            ent = {"new": list(new), "hasold": old is not None, "old": list(old) if old is not None else []}
            try:
                raw = self.accessor(self.base).fetch_file(name)
                json.loads(raw)                 # a reader parses it: a torn file is detectably invalid
                ent.update(st="ok", data=list(raw), cls="", ast="ok", adata=list(raw))
            except Exception as e:
                ent.update(st="exc", data=[], cls=type(e).__name__, ast="exc", adata=[])
            out_t.append(ent)
        for (k, c), a, old in getattr(self, "targets", []):
            tkeys.add((k, c))
            ent = {"new": blist(a), "hasold": old is not None, "old": blist(old) if old is not None else []}
            ent.update(self._read(r, k, c))
            # accessor level (meaningful for raw-encoded chunks: stored bytes = array bytes)
            try:
                ab = self.accessor(self.base).fetch_chunk(k, c)
                ent.update(ast="ok", adata=list(ab))
            except Exception as e:
                ent.update(ast="exc", adata=[], acls=type(e).__name__)
            out_t.append(ent)
        for (k, c), a in self.expected.items():
            if (k, c) in tkeys:
                continue
            ent = {"exp": blist(a)}
            ent.update(self._read(r, k, c))
            out_o.append(ent)
        return out_t, out_o

    @staticmethod
    def _read(r, k, c):
        if r is None:
            return {"st": "exc", "data": [], "cls": "open"}
        try:
            a = r.read_chunk(k, c)
            return {"st": "ok", "data": blist(a), "cls": ""}
        except Exception as e:
            return {"st": "exc", "data": [], "cls": type(e).__name__}


def run_once(workdir, scen, plan):
    from neuroglancer_scripts.accessor import DataAccessError
    sandbox = tempfile.mkdtemp(prefix="fi_", dir=workdir)
    old_tmp = tempfile.tempdir
    tempfile.tempdir = sandbox
    try:
        with contextlib.redirect_stdout(io.StringIO()):
            scen.setup(sandbox)
            outcome = {"st": "returned", "cls": "", "osErr": False, "dataAccess": False}
            optype, ret, exp_ret = "store", None, None
            ip = Interposer(sandbox, plan)
            try:
                with ip:
                    optype, ret, exp_ret = scen.run_op()
            except Crash:
                outcome["st"] = "crashed"
            except Exception as e:
                outcome.update(st="raised", cls=type(e).__name__, osErr=isinstance(e, OSError),
                               dataAccess=isinstance(e, DataAccessError))
            retry = ""
            if (outcome["st"] == "raised" and scen.kind == "sharded" and scen.opname in ("store_new", "store_overwrite")
                    and getattr(scen, "last_acc", None) is not None):
                # the accessor registered close() with atexit: the interpreter will call it
                # again at exit (and callers may retry). A close() that RETURNS claims success.
                try:
                    scen.last_acc.close()
                    retry = "returned"
                    outcome = {"st": "returned", "cls": "", "osErr": False, "dataAccess": False}
                    # the claim of a returning close() covers the chunks whose
                    # store call had returned normally
                    acc_ok = set(getattr(scen, "accepted", []))
                    scen.targets = [t for t in getattr(scen, "targets", []) if t[0] in acc_ok]
                except Exception as e2:
                    retry = "raised:" + type(e2).__name__
            if outcome["st"] != "returned":
                optype = {"store_new": "store", "store_overwrite": "store", "store_info": "exists", "store_meta": "store",
                          "fetch": "fetch", "fetch_info": "fetch", "exists": "exists"}[scen.opname]
            targets, others = scen.readback()
        case = {"mode": plan["mode"] if plan else "none", "fired": bool(ip.fired) if plan else False,
                "optype": optype, "outcome": {k: outcome[k] for k in ("st", "osErr", "dataAccess")},
                "ret": {"has": ret is not None, "data": ret or []}, "expRet": exp_ret or [],
                "targets": [{k: t[k] for k in ("st", "data", "new", "hasold", "old", "ast", "adata")} for t in targets],
                "gzlayer": bool(scen.kind == "file" and scen.gzip and scen.encoding == "raw"),
                "failkind": (ip.calls[plan["k"]][0] if plan and plan["k"] < len(ip.calls) else ""),
                "others": [{k: o[k] for k in ("st", "data", "exp")} for o in others]}
        meta = {"scenario": scen.name, "plan": plan, "calls": ip.calls, "exc": outcome["cls"], "retry_close": retry,
                "target_read": [t["cls"] or t["st"] for t in targets]}
        return case, meta
    finally:
        tempfile.tempdir = old_tmp
        shutil.rmtree(sandbox, ignore_errors=True)


def plans_for(calls, crash=True):
    plans = []
    for k, (kind, rel) in enumerate(calls):
        for err in ERRORS_FOR.get(kind, ["EIO"]):
            plans.append({"k": k, "mode": "fail", "err": err})
        if crash:
            plans.append({"k": k, "mode": "crash", "err": ""})
            if kind == "write":
                plans.append({"k": k, "mode": "torn", "err": ""})
        if kind == "write":
            plans.append({"k": k, "mode": "short", "err": "ENOSPC"})
    return plans
