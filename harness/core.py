"""Context shared by all property checks: tiers, seeds, scratch space, verdict
collection, known-findings matching, evidence writing, exit codes."""
import hashlib
import json
import os
import random
import shutil
import sys
import tempfile
import time

from . import tlc

ROOT = os.path.dirname(os.path.dirname(os.path.abspath(__file__)))
EVIDENCE_DIR = os.environ.get("VERIF_EVIDENCE_DIR") or os.path.join(ROOT, "evidence")
REPLAY_DIR = os.path.join(EVIDENCE_DIR, "replays")
FINDINGS_FILE = os.path.join(ROOT, "known_findings.json")
REPO = os.environ.get("VERIF_REPO", "/repo")


def assert_repo_binding():
    """The checks must exercise the working tree of the repository under test."""
    src = os.path.join(REPO, "src")
    if REPO != "/repo":
        sys.path.insert(0, src)
        os.environ["PYTHONPATH"] = src + os.pathsep + os.environ.get("PYTHONPATH", "")
    import neuroglancer_scripts
    f = os.path.realpath(neuroglancer_scripts.__file__)
    if not f.startswith(os.path.realpath(src) + os.sep):
        print("MACHINERY: neuroglancer_scripts imported from %s, not from %s" % (f, src))
        sys.exit(2)


def _match_where(where, sig):
    for k, cond in where.items():
        v = sig.get(k)
        if isinstance(cond, dict):
            if "in" in cond and v not in cond["in"]:
                return False
            if "ge" in cond and not (v is not None and v >= cond["ge"]):
                return False
            if "le" in cond and not (v is not None and v <= cond["le"]):
                return False
            if "ne" in cond and v == cond["ne"]:
                return False
            if "contains" in cond and not (v is not None and cond["contains"] in v):
                return False
        else:
            if v != cond:
                return False
    return True


def emit(line):
    """Verdict lines go to the process's ORIGINAL stdout: a stray redirect of
    sys.stdout inside a driver must never swallow a VIOLATION line."""
    sys.__stdout__.write(line + "\n")
    sys.__stdout__.flush()


class Ctx:
    def __init__(self, prop, tier, seed, level="model_checking"):
        self.prop = prop
        self.tier = tier
        self.seed = seed
        self.level = level
        self.rng = random.Random(seed * 1000003 + int(prop[1:]))
        self.t0 = time.time()
        self._scratch = []
        # every temporary file of this check (ours, the library's leaked
        # TemporaryDirectory()s, sub-processes') lives under one root that is
        # removed at the end
        self._tmproot = tempfile.mkdtemp(prefix="verif_%s_" % prop)
        os.environ["TMPDIR"] = self._tmproot
        tempfile.tempdir = self._tmproot
        self.violations = []      # (clause, sig, detail)
        self.known_hits = {}      # finding id -> count
        self.drift = []
        self.cov = {
            "states": 0, "transitions": 0, "traces_validated_against_impl": 0,
            "evaluations": 0, "distinct_nontrivial": 0, "rule": "", "samples": [],
            "mc_runs": [], "judge_runs": [], "exhaustive": False,
        }
        self._distinct = set()
        self.assumptions = []
        self.notes = {}
        with open(FINDINGS_FILE) as f:
            self.findings = [x for x in json.load(f)["findings"]
                             if x["property"] == prop]

    # -- small helpers ----------------------------------------------------
    @property
    def quick(self):
        return self.tier == "quick"

    def pick(self, quick, thorough):
        return quick if self.tier == "quick" else thorough

    def scratch(self, prefix="verif_"):
        d = tempfile.mkdtemp(prefix=prefix)
        self._scratch.append(d)
        return d

    def cleanup(self):
        for d in self._scratch:
            shutil.rmtree(d, ignore_errors=True)
        self._scratch = []
        if os.path.isdir(self._tmproot):
            for name in os.listdir(self._tmproot):
                shutil.rmtree(os.path.join(self._tmproot, name), ignore_errors=True)

    def np_rng(self, salt=0):
        import numpy as np
        return np.random.default_rng([self.seed, int(self.prop[1:]), salt])

    # -- TLC --------------------------------------------------------------
    def mc(self, module, cfg=None, expect_ok=True, **kw):
        """Model-check a bounded instance of the specification (use M)."""
        kw.setdefault("workers", 8)
        r = tlc.model_check(module, cfg, **kw)
        self.cov["states"] += r.get("distinct", 0)
        self.cov["transitions"] += r.get("generated", 0)
        entry = {"module": module, "cfg": cfg or module, "distinct": r.get("distinct", 0),
                 "generated": r.get("generated", 0), "depth": r.get("depth"),
                 "wall_s": round(r["wall_s"], 2), "ok": r["ok"],
                 "violated": r["invariant_violated"] + r["property_violated"]}
        if "coverage" in r:
            entry["action_coverage"] = r["coverage"]
        self.cov["mc_runs"].append(entry)
        if expect_ok and not r["ok"]:
            # the *design* admits a bad state: this is a spec-level result that
            # must be explained (deviation switch) - treated as machinery
            # failure unless the caller asked for it.
            raise tlc.MachineryError(
                "model check of %s/%s violated %s\n%s" % (
                    module, cfg, entry["violated"], r["out"][-3000:]))
        return r

    def judge(self, module, cases, count_traces=True, **kw):
        """Have TLC judge cases/traces recorded from the real code (C->S)."""
        kw.setdefault("workers", 8)
        for k, c in enumerate(cases):
            c.setdefault("tid", k + 1)
        verdicts, st = tlc.judge(module, cases, **kw)
        self.cov["states"] += st["states"]
        self.cov["transitions"] += st["transitions"]
        if count_traces:
            self.cov["traces_validated_against_impl"] += len(cases)
        for d in st.get("drift", []):
            self.note_drift(str(d[1]), {"module": module, "tid": d[0], "pos": d[2:]})
        self.cov["judge_runs"].append({"module": module, "cases": len(cases),
                                       "states": st["states"],
                                       "wall_s": round(st["wall_s"], 2)})
        return verdicts

    def export(self, module, cfg=None, **kw):
        recs, r = tlc.export(module, cfg, **kw)
        self.cov["states"] += r.get("distinct", 0)
        self.cov["transitions"] += r.get("generated", 0)
        self.cov["mc_runs"].append({"module": module, "cfg": cfg or module,
                                    "distinct": r.get("distinct", 0),
                                    "generated": r.get("generated", 0),
                                    "exported": len(recs),
                                    "wall_s": round(r["wall_s"], 2)})
        return recs

    # -- accounting -------------------------------------------------------
    def count(self, n=1):
        self.cov["evaluations"] += n

    def nontrivial(self, key):
        """Register a case as non-trivial under the property's rule; `key`
        identifies distinct cases."""
        self._distinct.add(key if isinstance(key, (str, int, tuple)) else json.dumps(key, sort_keys=True))

    def sample(self, obj, limit=3):
        if len(self.cov["samples"]) < limit:
            self.cov["samples"].append(obj)

    # -- verdicts ---------------------------------------------------------
    def violation(self, clause, sig, detail):
        """An oracle-layer clause failed on what the real code did.
        sig: small dict of structural facts used for known-finding matching.
        detail: everything needed to replay (json-serialisable)."""
        for f in self.findings:
            if f["status"] != "known":
                continue
            if f["clause"] == clause and _match_where(f.get("where", {}), sig):
                self.known_hits[f["id"]] = self.known_hits.get(f["id"], 0) + 1
                return "known"
        self.violations.append((clause, sig, detail))
        return "new"

    def undecided(self, msg):
        """The trace specification could not decide a case (machinery).  Deferred: the run ends as a
        machinery failure only if no decidable case of the same run violates the oracle."""
        if not hasattr(self, "_undecided"):
            self._undecided = []
        self._undecided.append(str(msg)[:2000])

    def note_drift(self, clause, detail):
        if len(self.drift) < 50:
            self.drift.append({"clause": clause, "detail": detail})

    # -- finish -----------------------------------------------------------
    def finish(self):
        und = getattr(self, "_undecided", [])
        if und and not self.violations:
            raise tlc.MachineryError("%d case(s) could not be judged; first: %s" % (len(und), und[0]))
        if und:
            self.notes["undecidable_cases"] = len(und)
        os.chdir("/")
        self.cleanup()
        shutil.rmtree(self._tmproot, ignore_errors=True)
        wall = time.time() - self.t0
        cov = self.cov
        cov["distinct_nontrivial"] = len(self._distinct)
        cov["drift"] = self.drift
        cov["known_findings_hit"] = self.known_hits
        cov.update(self.notes)
        # one VIOLATION line per distinct failing clause (first five)
        by_clause = {}
        for clause, sig, detail in self.violations:
            by_clause.setdefault(clause, []).append((sig, detail))
        lines = []
        os.makedirs(REPLAY_DIR, exist_ok=True)
        for clause, items in list(by_clause.items())[:5]:
            sig, detail = items[0]
            blob = json.dumps({"property": self.prop, "clause": clause, "sig": sig,
                               "detail": detail, "count": len(items), "seed": self.seed,
                               "tier": self.tier}, indent=1, default=str)
            h = hashlib.sha1(blob.encode()).hexdigest()[:12]
            d = os.path.join(REPLAY_DIR, self.prop)
            os.makedirs(d, exist_ok=True)
            path = os.path.join(d, "%s_%s.json" % (clause.replace(":", "_").replace("/", "_"), h))
            with open(path, "w") as f:
                f.write(blob)
            lines.append("VIOLATION property=%s replay=%s" % (self.prop, path))
            emit("  clause=%s cases=%d first=%s" % (clause, len(items), json.dumps(sig, default=str)[:300]))
        cov["violating_clauses"] = {c: len(i) for c, i in by_clause.items()}
        for f in self.findings:
            if f["status"] == "known" and f["id"] in self.known_hits:
                emit("KNOWN-FINDING: property=%s %s [%s; %d case(s) this run]" % (
                    self.prop, f["description"], f["id"], self.known_hits[f["id"]]))
        for d in self.drift[:10]:
            emit("DRIFT property=%s %s %s" % (self.prop, d["clause"], json.dumps(d["detail"], default=str)[:200]))
        ev = {
            "property_id": self.prop, "tier": self.tier, "seed": self.seed,
            "level": self.level, "coverage": cov, "assumptions": self.assumptions,
            "wall_s": round(wall, 2), "violations": len(self.violations),
        }
        os.makedirs(EVIDENCE_DIR, exist_ok=True)
        with open(os.path.join(EVIDENCE_DIR, self.prop + ".json"), "w") as f:
            json.dump(ev, f, indent=1, default=str)
        for l in lines:
            emit(l)
        emit("%s %s tier=%s seed=%d: evaluations=%d distinct_nontrivial=%d states=%d traces=%d violations=%d known=%d wall=%.1fs" % (
            "FAIL" if lines else "PASS", self.prop, self.tier, self.seed, cov["evaluations"],
            cov["distinct_nontrivial"], cov["states"], cov["traces_validated_against_impl"],
            len(self.violations), sum(self.known_hits.values()), wall))
        return 1 if lines else 0
