"""Drive the real mesh code (neuroglancer_scripts.mesh, mesh-to-precomputed,
link-mesh-fragments) and RECORD what it did, re-encoded for Mesh.tla.

Nothing here judges.  Every run_* function takes a json-able `spec` (inputs
only, enough to replay) and returns the case dict handed to Trace_Mesh.

Encodings (see the header of spec/Mesh.tla):
  bytes          {"len": L, "hs": [16-bit little-endian halves, zero padded]}
  uint32/float32 [lo16, hi16]
  geometry       small integers in a per-case unit 2^-ub
  unit change    affine cases may carry a decimal scale 10^sc (sc in -6..6,
                 spec["sc"]): matrix and translation are multiplied by it, the
                 result is recorded in the unit 10^sc * 2^-(ub+mb); the case
                 hands the scale to TLC as the exact rational [num, den]
"""
import contextlib
import csv
import fractions
import gzip
import hashlib
import io
import json
import logging
import os
import re
import struct
import subprocess
import sys
import warnings

import numpy as np

EMPTY_BYTES = {"len": 0, "hs": []}


# --------------------------------------------------------------------------
# pure re-encoders
# --------------------------------------------------------------------------
def enc_bytes(buf):
    buf = bytes(buf)
    pad = buf + (b"\0" if len(buf) % 2 else b"")
    return {"len": len(buf), "hs": list(struct.unpack("<%dH" % (len(pad) // 2), pad))}


def dec_bytes(b):
    raw = struct.pack("<%dH" % len(b["hs"]), *b["hs"])
    return raw[:b["len"]]


def word(n):
    n = int(n)
    return [n & 0xFFFF, (n >> 16) & 0xFFFF]


def words_rows(arr_u32):
    """(k, 3) uint32 array -> [[ [lo,hi] x3 ] x k]"""
    return [[word(x) for x in row] for row in arr_u32.tolist()]


def rows_as_u32(a, kind):
    """What the reader returned, as uint32 bit patterns; a wrong shape is
    recorded as an empty list plus shape note (TLC then sees a mismatch)."""
    a = np.asarray(a)
    if a.ndim != 2 or a.shape[1] != 3:
        return None
    if kind == "f":
        return np.ascontiguousarray(a, dtype="<f4").view("<u4")
    return np.ascontiguousarray(a).astype("<u4")


def exc_name(e):
    t = type(e)
    mod = t.__module__
    return t.__name__ if mod in ("builtins", "__main__") else mod.split(".")[-1] + "." + t.__name__


@contextlib.contextmanager
def silenced():
    """Tool / library chatter off (logging, warnings, progress prints)."""
    prev = logging.root.manager.disable
    logging.disable(logging.CRITICAL)
    try:
        with warnings.catch_warnings():
            warnings.simplefilter("ignore")
            with contextlib.redirect_stdout(io.StringIO()), contextlib.redirect_stderr(io.StringIO()):
                yield
    finally:
        logging.disable(prev)


def _mesh_module():
    import neuroglancer_scripts.mesh as m
    return m


# --------------------------------------------------------------------------
# reader
# --------------------------------------------------------------------------
def read_result(buf, via="bytesio"):
    m = _mesh_module()
    if via == "gzip":
        f = gzip.GzipFile(fileobj=io.BytesIO(gzip.compress(bytes(buf), 1)), mode="rb")
    else:
        f = io.BytesIO(bytes(buf))
    try:
        with silenced():
            v, t = m.read_precomputed_mesh(f)
    except m.InvalidMeshDataError:
        return {"st": "mesh_error", "cls": "InvalidMeshDataError", "v": [], "t": []}
    except Exception as e:      # recorded, judged by TLC (oracle:ForbiddenException)
        return {"st": "exc", "cls": exc_name(e), "v": [], "t": []}
    vv, tt = rows_as_u32(v, "f"), rows_as_u32(t, "u")
    if vv is None or tt is None:
        # not (k, 3) arrays: recorded as a value no well-formed mesh has
        return {"st": "ok", "cls": "badshape", "v": [], "t": [[[65535, 65535]] * 3]}
    return {"st": "ok", "cls": "", "v": words_rows(vv), "t": words_rows(tt)}


def run_read(spec):
    """spec: {"hex": bytes as hex, "via": "bytesio"|"gzip"}"""
    buf = bytes.fromhex(spec["hex"])
    return {"mode": "read", "b": enc_bytes(buf), "res": read_result(buf, spec.get("via", "bytesio"))}


def input_facts(buf):
    """Structural facts about a reader input, used only in the `sig` of a
    violation (known-finding matching), never for a verdict."""
    facts = {"len": len(buf)}
    if len(buf) >= 4:
        n = struct.unpack_from("<I", buf)[0]
        facts["count"] = n
        rest = len(buf) - 4 - 12 * n
        if rest > 0 and rest % 12 == 0:
            idx = struct.unpack_from("<%dI" % (rest // 4), buf, 4 + 12 * n)
            facts["max_index_minus_n"] = max(idx) - n
    return facts


# --------------------------------------------------------------------------
# writer -> file -> reader
# --------------------------------------------------------------------------
def _vertex_array(spec):
    if spec["vfmt"] == "bits":
        a = np.array(spec["w"], dtype="<u4").reshape(-1, 3).view("<f4")
    else:
        q = np.array(spec["q"], dtype=np.int64).reshape(-1, 3)
        dt = np.dtype(spec.get("vdtype", "float32"))
        if dt.kind == "f":
            a = (q.astype(np.float64) / float(1 << spec.get("ub", 0))).astype(dt)
        else:
            a = q.astype(dt)
    if spec.get("order") == "F":
        a = np.asfortranarray(a)
    return a


def _triangle_array(spec, default="uint32"):
    t = np.array(spec["t"], dtype=np.int64).reshape(-1, 3).astype(spec.get("tdtype", default))
    if spec.get("order") == "F":
        t = np.asfortranarray(t)
    return t


def run_save(spec):
    """spec: {"vfmt": "bits", "w": [[u32 x3]..]} | {"vfmt": "int", "q": [[int x3]..], "ub", "vdtype"},
    "t": [[a,b,c]..], "tdtype", "order", "via"}"""
    m = _mesh_module()
    v = _vertex_array(spec)
    t = _triangle_array(spec)
    out = io.BytesIO()
    try:
        with silenced():
            m.save_mesh_as_precomputed(out, v, t)
        saved = {"st": "ok", "cls": ""}
    except Exception as e:
        saved = {"st": "exc", "cls": exc_name(e)}
    buf = out.getvalue()
    if spec["vfmt"] == "bits":
        vin = {"fmt": "bits", "w": [[word(x) for x in row] for row in spec["w"]], "q": [], "ub": 0}
    else:
        vin = {"fmt": "int", "w": [], "q": spec["q"], "ub": spec.get("ub", 0)}
    res = read_result(buf, spec.get("via", "bytesio")) if saved["st"] == "ok" else \
        {"st": "exc", "cls": "notrun", "v": [], "t": []}
    return {"mode": "save", "vin": vin, "t": spec["t"], "saved": saved,
            "b": enc_bytes(buf) if len(buf) < 60000 else EMPTY_BYTES, "res": res}


# --------------------------------------------------------------------------
# affine_transform_mesh
# --------------------------------------------------------------------------
def _matrix(spec):
    """M holds integers in unit 2^-mb, tr integers in unit 2^-(ub+mb); both are
    multiplied by the unit change 10^sc (each entry = the binary64 number
    nearest to the exact rational)"""
    munit = 1 << spec.get("mb", 0)
    unit = 1 << (spec.get("ub", 0) + spec.get("mb", 0))
    sc = fractions.Fraction(10) ** spec.get("sc", 0)
    rows = [[float(fractions.Fraction(x, munit) * sc) for x in spec["M"][r]]
            + [float(fractions.Fraction(spec["tr"][r], unit) * sc)] for r in range(3)]
    if spec.get("shape", "3x4") == "4x4":
        rows.append([0.0, 0.0, 0.0, 1.0])
    mat = np.array(rows, dtype=np.float64)
    if spec.get("mdtype") == "int" and spec.get("ub", 0) == 0 and spec.get("mb", 0) == 0 \
            and spec.get("sc", 0) >= 0:
        mat = mat.astype(np.int64)
    return mat


def ints_exact(a, unit):
    """float array -> (list of ints in units, all values exactly integral?)"""
    a = np.asarray(a, dtype=np.float64) * unit
    if a.ndim != 2 or a.shape[1] != 3:
        return [], False
    ok = bool(np.all(np.isfinite(a)) and np.all(np.abs(a) < 2 ** 30))
    if not ok:
        return [[0, 0, 0]] * a.shape[0], False
    r = np.rint(a)
    return r.astype(np.int64).tolist(), bool(np.all(r == a))


def ints_scaled(a, unit, sc):
    """the same for results carrying the decimal unit change 10^sc.
    sc > 0: 10^sc and all products are exact in binary64 -> exactly integral.
    sc < 0: 10^sc is not a binary fraction, every product is rounded (relative
    error <= 1e-15): `exact` = every coordinate within 1e-9 of a whole number
    of result units."""
    a = np.asarray(a, dtype=np.float64) * unit
    if a.ndim != 2 or a.shape[1] != 3:
        return [], False
    a = a / 10.0 ** sc if sc > 0 else a * 10.0 ** (-sc)
    ok = bool(np.all(np.isfinite(a)) and np.all(np.abs(a) < 2 ** 30))
    if not ok:
        return [[0, 0, 0]] * a.shape[0], False
    r = np.rint(a)
    near = bool(np.all(r == a)) if sc > 0 else bool(np.all(np.abs(r - a) <= 1e-9))
    return r.astype(np.int64).tolist(), near


def scale_q(sc):
    """10^sc as [num, den]"""
    return [10 ** sc, 1] if sc >= 0 else [1, 10 ** (-sc)]


def run_affine(spec):
    """spec: {"v": ints (unit 2^-ub), "ub", "t", "M": 3x3 ints (unit 2^-mb), "mb",
    "tr": ints (unit 2^-(ub+mb), the unit of the result), "vdtype", "tdtype",
    "shape": "3x4"|"4x4", "mdtype", "sc": decimal exponent of a unit change
    applied to M and tr (default 0)}"""
    m = _mesh_module()
    sc = spec.get("sc", 0)
    unit = float(1 << spec.get("ub", 0))
    runit = float(1 << (spec.get("ub", 0) + spec.get("mb", 0)))
    v = (np.array(spec["v"], dtype=np.float64).reshape(-1, 3) / unit).astype(spec.get("vdtype", "float32"))
    t = _triangle_array(spec)
    # the arrays as a caller may hold them: read-only (what the package's own mesh
    # reader returns), and / or already passed through the function once before
    if spec.get("readonly"):
        v.setflags(write=False)
        t.setflags(write=False)
    try:
        with silenced():
            if spec.get("twice"):
                m.affine_transform_mesh(v, t, _matrix(spec))
            v2, t2 = m.affine_transform_mesh(v, t, _matrix(spec))
        vi, exact = ints_exact(v2, runit) if sc == 0 else ints_scaled(v2, runit, sc)
        t2 = np.asarray(t2)
        ti = t2.astype(np.int64).tolist() if t2.ndim == 2 and t2.shape[1] == 3 else [[-1, -1, -1]]
        res = {"st": "ok", "cls": "", "v": vi, "t": ti, "exact": exact}
    except Exception as e:
        res = {"st": "exc", "cls": exc_name(e), "v": [], "t": [], "exact": False}
    return {"mode": "affine", "v": spec["v"], "t": spec["t"], "M": spec["M"], "tr": spec["tr"],
            "sc": scale_q(sc), "res": res}


# --------------------------------------------------------------------------
# command line tools
# --------------------------------------------------------------------------
def base_info(kind="segmentation", mesh=""):
    info = {"type": kind, "data_type": "uint8" if kind == "image" else "uint32", "num_channels": 1,
            "scales": [{"key": "1mm", "size": [4, 4, 4], "resolution": [1000000, 1000000, 1000000],
                        "voxel_offset": [0, 0, 0], "chunk_sizes": [[4, 4, 4]], "encoding": "raw"}]}
    if mesh:
        info["mesh"] = mesh
    return info


def snapshot(root):
    """{relative path: sha1 of the raw file bytes}"""
    out = {}
    for dp, _, fns in os.walk(root):
        for fn in fns:
            p = os.path.join(dp, fn)
            with open(p, "rb") as f:
                out[os.path.relpath(p, root)] = hashlib.sha1(f.read()).hexdigest()
    return out


def logical(path):
    """(name without .gz, is gzip)  - interpretation I4"""
    return (path[:-3], True) if path.endswith(".gz") else (path, False)


def file_bytes(path):
    with open(path, "rb") as f:
        raw = f.read()
    if path.endswith(".gz"):
        try:
            return gzip.decompress(raw)
        except Exception:
            return None
    return raw


def read_info(root):
    """("mesh" value or "", [[key, canonical JSON of value]] of the other keys)"""
    try:
        with open(os.path.join(root, "info")) as f:
            info = json.load(f)
        rest = [[k, json.dumps(info[k], sort_keys=True)] for k in sorted(info) if k != "mesh"]
        m = info.get("mesh", "")
        return (m if isinstance(m, str) else "?"), rest
    except Exception as e:
        return "?", [["unreadable", exc_name(e)]]


def run_cli(module, argv, via):
    """Run `python -m neuroglancer_scripts.scripts.<module>` in-process
    (main(argv)) or as a real sub-process. Returns (rc, exception class)."""
    if via == "subproc":
        p = subprocess.run([sys.executable, "-m", "neuroglancer_scripts.scripts." + module] + argv,
                           env=dict(os.environ), capture_output=True, text=True, timeout=120)
        exc = ""
        if p.returncode != 0:
            mm = re.findall(r"^(\w[\w.]*(?:Error|Exception|Exit))\b", p.stderr, re.M)
            exc = mm[-1] if mm and "Traceback" in p.stderr else ""
        return p.returncode, exc
    import importlib
    mod = importlib.import_module("neuroglancer_scripts.scripts." + module)
    try:
        with silenced():
            rc = mod.main([module] + argv)
        return int(rc or 0), ""
    except SystemExit as e:
        code = e.code if isinstance(e.code, int) else (0 if e.code is None else 1)
        return code, ""
    except Exception as e:
        return -1, exc_name(e)


def fmt_unit(q, ub):
    """q / 2^ub as an exact decimal string (dyadic numbers print exactly)"""
    return ("%.10f" % (q / float(1 << ub))).rstrip("0").rstrip(".") if ub else str(int(q))


def run_tool(workdir, spec, serial):
    """mesh-to-precomputed on a GIfTI file written with nibabel.
    spec: {"v", "ub", "t", "xf": None | {"M", "mb", "tr", "n": 12|16}, "info_mesh", "meshdir_arg",
    "name_arg", "stem", "gzip", "kind", "expect", "via"}"""
    import nibabel
    from nibabel.gifti import GiftiDataArray, GiftiImage
    root = os.path.join(workdir, "tool%06d" % serial)
    os.makedirs(root)
    with open(os.path.join(root, "info"), "w") as f:
        json.dump(base_info(spec.get("kind", "segmentation"), spec["info_mesh"]), f)
    ub = spec.get("ub", 0)
    v = (np.array(spec["v"], dtype=np.float64).reshape(-1, 3) / float(1 << ub)).astype(np.float32)
    pcode = "NIFTI_TYPE_FLOAT32"
    if spec.get("pdtype") == "int32" and ub == 0:
        # a point set stored with an integer data type (legal GIfTI): whole millimetres
        v = np.array(spec["v"], dtype=np.int64).reshape(-1, 3).astype(np.int32)
        pcode = "NIFTI_TYPE_INT32"
    t = np.array(spec["t"], dtype=np.int64).reshape(-1, 3).astype(np.int32)
    gii = os.path.join(workdir, "in%06d" % serial)
    os.makedirs(gii)
    gii = os.path.join(gii, spec["stem"] + ".gii")
    with silenced():
        nibabel.save(GiftiImage(darrays=[
            GiftiDataArray(v, intent="NIFTI_INTENT_POINTSET", datatype=pcode),
            GiftiDataArray(t, intent="NIFTI_INTENT_TRIANGLE", datatype="NIFTI_TYPE_INT32")]), gii)
    argv = [gii, root]
    if spec["meshdir_arg"]:
        argv.append("--mesh-dir=" + spec["meshdir_arg"])
    if spec["name_arg"]:
        argv.append("--mesh-name=" + spec["name_arg"])
    if not spec.get("gzip", True):
        argv.append("--no-gzip")
    xf = spec.get("xf")
    mb = xf.get("mb", 0) if xf else 0
    if xf:
        cells = []
        for r in range(3):
            cells += [fmt_unit(x, mb) for x in xf["M"][r]] + [fmt_unit(xf["tr"][r], ub + mb)]
        if xf.get("n", 12) == 16:
            cells += ["0", "0", "0", "1"]
        argv.append("--coord-transform=" + ",".join(cells))
    mesh_before, rest_before = read_info(root)
    before = snapshot(root)
    rc, exc = run_cli("mesh_to_precomputed", argv, spec.get("via", "inproc"))
    after = snapshot(root)
    mesh_after, rest_after = read_info(root)
    new = sorted(p for p in after if p not in before)
    changed = sorted(p for p in before if p != "info" and after.get(p) != before[p])
    newfiles = [logical(p)[0] for p in new] + ["changed:" + p for p in changed]
    b = EMPTY_BYTES
    if len(new) == 1:
        raw = file_bytes(os.path.join(root, new[0]))
        if raw is not None and len(raw) < 60000:
            b = enc_bytes(raw)
    return {"mode": "tool", "v": spec["v"], "ub": ub + mb, "t": spec["t"], "hasxf": bool(xf),
            "M": xf["M"] if xf else [], "tr": xf["tr"] if xf else [],
            "rc": rc, "exc": exc, "expect": spec.get("expect", "ok"),
            "args": {"meshdir": spec["meshdir_arg"], "name": spec["name_arg"] or spec["stem"]},
            "info": {"mesh_before": mesh_before, "mesh_after": mesh_after,
                     "rest_before": rest_before, "rest_after": rest_after},
            "newfiles": newfiles, "b": b, "gz": [logical(p)[1] for p in new]}


def run_links(workdir, spec, serial):
    """link-mesh-fragments on a CSV table.
    spec: {"rows": [[label int, [fragment names]]], "pad": [zero-pad width per row], "no_colon": bool,
    "info_mesh": str, "existing": [[name, gz bool]], "via"}"""
    root = os.path.join(workdir, "links%06d" % serial)
    mdir = os.path.join(root, *spec["info_mesh"].split("/"))
    os.makedirs(mdir)
    with open(os.path.join(root, "info"), "w") as f:
        json.dump(base_info("segmentation", spec["info_mesh"]), f)
    for name, gz in spec.get("existing", []):
        payload = hashlib.sha256(name.encode()).digest()
        if gz:
            with open(os.path.join(mdir, name + ".gz"), "wb") as f:
                f.write(gzip.compress(payload, 1))
        else:
            with open(os.path.join(mdir, name), "wb") as f:
                f.write(payload)
    table = os.path.join(workdir, "links%06d.csv" % serial)
    with open(table, "w", newline="") as f:
        wr = csv.writer(f)
        for (label, frags), pad in zip(spec["rows"], spec.get("pad") or [0] * len(spec["rows"])):
            wr.writerow([str(int(label)).zfill(pad)] + list(frags))
    argv = [table, root] + (["--no-colon-suffix"] if spec["no_colon"] else [])

    def rel(p):
        r = os.path.relpath(os.path.join(root, p), mdir)
        return logical(r)[0]

    before = snapshot(root)
    rc, exc = run_cli("link_mesh_fragments", argv, spec.get("via", "inproc"))
    after = snapshot(root)
    aft = []
    for p in sorted(after):
        e = {"path": rel(p), "hash": after[p], "st": "other", "frags": []}
        if p not in before:
            raw = file_bytes(os.path.join(root, p))
            try:
                obj = json.loads(raw.decode("utf-8"))
                if isinstance(obj, dict):
                    fr = obj.get("fragments")
                    if isinstance(fr, list) and all(isinstance(x, str) for x in fr):
                        e["st"] = "json"
                        e["frags"] = fr
            except Exception:
                pass
        aft.append(e)
    return {"mode": "links", "rows": [[str(int(l)), list(fr)] for l, fr in spec["rows"]],
            "suffix": "" if spec["no_colon"] else ":0",
            "before": [[rel(p), before[p]] for p in sorted(before)], "after": aft,
            "rc": rc, "exc": exc}


# --------------------------------------------------------------------------
# VTK
# --------------------------------------------------------------------------
def attr_values(a, n):
    rng = np.random.default_rng(a["seed"])
    k = a["k"]
    kind = a.get("kind", "normal")
    if kind == "int":
        vals = rng.integers(-1000, 1000, size=(n, k)).astype(a.get("dtype", "int32"))
    elif kind == "wide":
        vals = (rng.standard_normal((n, k)) * 10.0 ** rng.integers(-30, 30, size=(n, k))).astype(
            a.get("dtype", "float32"))
    else:
        vals = rng.standard_normal((n, k)).astype(a.get("dtype", "float32"))
    if k == 1 and a.get("flat", True):
        vals = vals[:, 0]
    return vals


def run_vtk(spec):
    """spec: {"vfmt": "int"|"bits", "q"/"w", "ub", "vdtype", "t", "tdtype",
    "attrs": [{"name", "k", "seed", "kind", "dtype", "flat"}] | None, "title": str | None}"""
    m = _mesh_module()
    v = _vertex_array(spec)
    t = _triangle_array(spec, default="int32")
    n = v.shape[0]
    attrs = spec.get("attrs")
    va = None if attrs is None else [{"name": a["name"], "values": attr_values(a, n)} for a in attrs]
    out = io.StringIO()
    kw = {}
    if spec.get("title") is not None:
        kw["title"] = spec["title"]
    try:
        with silenced():
            m.save_mesh_as_neuroglancer_vtk(out, v, t, vertex_attributes=va, **kw)
        saved = {"st": "ok", "cls": ""}
    except Exception as e:
        saved = {"st": "exc", "cls": exc_name(e)}
    raws = out.getvalue().split("\n")
    lines = [[tok for tok in re.split(r"[ \t]+", ln) if tok != ""] for ln in raws]
    iv = spec["vfmt"] == "int" and spec.get("ub", 0) == 0
    return {"mode": "vtk", "saved": saved, "lines": lines,
            "raws": [r if i == 1 else "" for i, r in enumerate(raws)],
            "iv": iv, "v": spec["q"] if iv else [], "t": spec["t"],
            "attrs": [[a["name"], a["k"]] for a in (attrs or [])]}


# --------------------------------------------------------------------------
# input meshes (integer coordinates)
# --------------------------------------------------------------------------
TETRA_FACES = [[0, 2, 1], [0, 1, 3], [0, 3, 2], [1, 2, 3]]


def det3(a, b, c):
    return (a[0] * (b[1] * c[2] - b[2] * c[1]) - a[1] * (b[0] * c[2] - b[2] * c[0])
            + a[2] * (b[0] * c[1] - b[1] * c[0]))


def tetra(rng, r=2):
    while True:
        v = [[rng.randint(-r, r) for _ in range(3)] for _ in range(4)]
        e = [[v[k][d] - v[0][d] for d in range(3)] for k in (1, 2, 3)]
        if det3(*e) != 0:
            return v, [list(f) for f in TETRA_FACES]


def box(rng, r=2):
    o = [rng.randint(-r, 0) for _ in range(3)]
    s = [rng.randint(1, r) for _ in range(3)]
    v = [[o[0] + s[0] * (i & 1), o[1] + s[1] * ((i >> 1) & 1), o[2] + s[2] * ((i >> 2) & 1)] for i in range(8)]
    quads = [[0, 2, 3, 1], [4, 5, 7, 6], [0, 1, 5, 4], [2, 6, 7, 3], [0, 4, 6, 2], [1, 3, 7, 5]]
    t = []
    for a, b, c, d in quads:
        t += [[a, b, c], [a, c, d]]
    return v, t


def octa(rng, r=2):
    a = [rng.randint(1, r) for _ in range(3)]
    c = [rng.randint(-1, 1) for _ in range(3)]
    v = [[c[0] + a[0], c[1], c[2]], [c[0] - a[0], c[1], c[2]], [c[0], c[1] + a[1], c[2]],
         [c[0], c[1] - a[1], c[2]], [c[0], c[1], c[2] + a[2]], [c[0], c[1], c[2] - a[2]]]
    t = [[0, 2, 4], [2, 1, 4], [1, 3, 4], [3, 0, 4], [2, 0, 5], [1, 2, 5], [3, 1, 5], [0, 3, 5]]
    return v, t


def subdivide(v, t):
    """1 -> 4 split with shared edge midpoints; coordinates are doubled."""
    nv = [[2 * x for x in p] for p in v]
    mid = {}

    def m(a, b):
        k = (min(a, b), max(a, b))
        if k not in mid:
            mid[k] = len(nv)
            nv.append([v[a][d] + v[b][d] for d in range(3)])
        return mid[k]

    nt = []
    for a, b, c in t:
        ab, bc, ca = m(a, b), m(b, c), m(c, a)
        nt += [[a, ab, ca], [ab, b, bc], [ca, bc, c], [ab, bc, ca]]
    return nv, nt


def relabel(rng, v, t, reverse=False):
    n = len(v)
    perm = list(range(n))
    rng.shuffle(perm)                      # old index -> new index
    nv = [None] * n
    for old, new in enumerate(perm):
        nv[new] = list(v[old])
    nt = []
    for tri in t:
        tri = [perm[x] for x in tri]
        k = rng.randrange(3)
        tri = tri[k:] + tri[:k]
        if reverse:
            tri = tri[::-1]
        nt.append(tri)
    rng.shuffle(nt)
    return nv, nt


def union(v1, t1, v2, t2, shift):
    v = [list(p) for p in v1] + [[p[d] + shift[d] for d in range(3)] for p in v2]
    t = [list(x) for x in t1] + [[x + len(v1) for x in tri] for tri in t2]
    return v, t


def random_mesh(rng, bound=8, max_tris=128):
    """(kind, v, t) with |coordinate| <= bound."""
    for _ in range(100):
        kind = rng.choice(["empty", "points", "tri", "fan", "tetra", "tetra", "box", "octa",
                           "sub", "sub", "sub2", "union", "open", "extra"])
        if kind == "empty":
            v, t = [], []
        elif kind == "points":
            v, t = [[rng.randint(-bound, bound) for _ in range(3)] for _ in range(rng.randint(1, 4))], []
        elif kind == "tri":
            v, t = [[rng.randint(-bound, bound) for _ in range(3)] for _ in range(3)], [[0, 1, 2]]
        elif kind == "fan":
            k = rng.randint(3, 6)
            v = [[rng.randint(-bound, bound) for _ in range(3)] for _ in range(k + 1)]
            t = [[0, i, i + 1] for i in range(1, k)]
        else:
            base = rng.choice([tetra, box, octa])
            v, t = base(rng, rng.choice([1, 2, 2, 3]))
            if kind in ("sub", "sub2"):
                v, t = subdivide(v, t)
                if kind == "sub2":
                    v, t = subdivide(v, t)
                if rng.random() < 0.5:      # move vertices, topology unchanged
                    v = [[x + rng.randint(-1, 1) for x in p] for p in v]
            elif kind == "union":
                v2, t2 = rng.choice([tetra, box, octa])(rng, 2)
                v, t = union(v, t, v2, t2, [rng.randint(-3, 3) for _ in range(3)])
            elif kind == "open":
                t = t[:-1]
            elif kind == "extra":
                v = v + [[rng.randint(-bound, bound) for _ in range(3)] for _ in range(rng.randint(1, 3))]
            v, t = relabel(rng, v, t, reverse=rng.random() < 0.3)
        if len(t) <= max_tris and all(abs(x) <= bound for p in v for x in p):
            return kind, v, t
    return "tetra", [[0, 0, 0], [1, 0, 0], [0, 1, 0], [0, 0, 1]], [list(f) for f in TETRA_FACES]


def random_matrix(rng, want):
    """3x3 integer matrix, entries in -2..2, det sign as wanted ('pos'|'neg'|'zero')."""
    for _ in range(1000):
        style = rng.choice(["perm", "diag", "any", "any", "shear"])
        if style == "perm":
            p = [0, 1, 2]
            rng.shuffle(p)
            M = [[(rng.choice([-1, 1]) if c == p[r] else 0) for c in range(3)] for r in range(3)]
        elif style == "diag":
            M = [[(rng.choice([-2, -1, 1, 2]) if c == r else 0) for c in range(3)] for r in range(3)]
        elif style == "shear":
            M = [[1 if c == r else 0 for c in range(3)] for r in range(3)]
            r, c = rng.sample(range(3), 2)
            M[r][c] = rng.choice([-2, -1, 1, 2])
            if rng.random() < 0.5:
                k = rng.randrange(3)
                M[k] = [-x for x in M[k]]
        else:
            M = [[rng.randint(-2, 2) for _ in range(3)] for _ in range(3)]
        if want == "zero" and style != "any":
            k, j = rng.sample(range(3), 2)
            M[k] = [rng.choice([0, 1, -1, 2]) * x for x in M[j]]
        d = det3(*M)
        if (want == "pos" and d > 0) or (want == "neg" and d < 0) or (want == "zero" and d == 0):
            return M
    return {"pos": [[1, 0, 0], [0, 1, 0], [0, 0, 1]], "neg": [[-1, 0, 0], [0, 1, 0], [0, 0, 1]],
            "zero": [[0, 0, 0], [0, 0, 0], [0, 0, 0]]}[want]
