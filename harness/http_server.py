"""Loopback static server implementing exactly the environment model of
spec/HttpRead.tla (docs/serving-data.rst): flat chunk URL -> flat file or, by
the rewrite rule, the deep-layout file; name.gz answers name with
Content-Encoding: gzip (gzip_static); Range + HEAD support; per-request
scripted behaviour (Normal | NotFound | ServerError | ErrorPageFit | ShortRange | LongRange |
IgnoreRange | Drop)."""
import os
import re
import socket
import threading
from http.server import BaseHTTPRequestHandler, ThreadingHTTPServer

FLAT = re.compile(r"^(.*)/([0-9]+-[0-9]+)_([0-9]+-[0-9]+)_([0-9]+-[0-9]+)$")


class Handler(BaseHTTPRequestHandler):
    protocol_version = "HTTP/1.1"
    wbufsize = 1 << 16          # headers and body leave in one segment (no Nagle stall)
    disable_nagle_algorithm = True

    def log_message(self, *a):
        pass

    def do_GET(self):
        self._serve("GET")

    def do_HEAD(self):
        self._serve("HEAD")

    def _resolve(self, path):
        """-> (file path, content_encoding or None) or (None, None)"""
        root = self.server.root
        rel = path.lstrip("/")
        if ".." in rel.split("/"):
            return None, None
        cand = os.path.join(root, rel)
        if os.path.isfile(cand):
            return cand, None
        if os.path.isfile(cand + ".gz"):
            return cand + ".gz", "gzip"
        m = FLAT.match("/" + rel)
        if m:
            deep = os.path.join(root, (m.group(1) + "/" + m.group(2) + "/" + m.group(3) + "/" + m.group(4)).lstrip("/"))
            if os.path.isfile(deep):
                return deep, None
            if os.path.isfile(deep + ".gz"):
                return deep + ".gz", "gzip"
        return None, None

    def _serve(self, method):
        srv = self.server
        with srv.lock:
            idx = srv.counter
            srv.counter += 1
        beh = "Normal"
        if isinstance(srv.script, dict):
            beh = srv.script.get(idx) or srv.script.get("all") or "Normal"
        path = self.path.split("?")[0]
        rng = self.headers.get("Range")
        if path in getattr(srv, "deny", ()):
            # a resource that exists but cannot be read by the server (Dispatch.tla: readable = FALSE)
            srv.log.append({"i": idx, "m": method, "path": path, "range": rng or "", "beh": "Deny",
                            "applied": "Deny", "status": 500})
            self._reply(500, b"" if method == "HEAD" else b"<html><body>error page 500</body></html>", {}, method)
            return
        entry = {"i": idx, "m": method, "path": path, "range": rng or "", "beh": beh, "applied": "Normal",
                 "status": 0}
        srv.log.append(entry)
        if beh == "Drop":
            entry["applied"] = "Drop"
            try:
                self.connection.shutdown(socket.SHUT_RDWR)
            except OSError:
                pass
            self.close_connection = True
            return
        if beh == "ErrorPageFit":
            # a gateway's canned error page whose length happens to equal the length the
            # client asked for (ranged GET) or the length of the resource (plain GET)
            entry["applied"] = beh
            m = re.match(r"bytes=(\d+)-(\d+)$", rng or "")
            if m:
                n = int(m.group(2)) - int(m.group(1)) + 1
            else:
                fp0, _enc0 = self._resolve(path)
                n = os.path.getsize(fp0) if fp0 else 64
            page = (b"<html><body>503 Service Unavailable</body></html>\n" * (n // 40 + 1))[:max(n, 0)]
            self._reply(503, b"" if method == "HEAD" else page, {}, method)
            entry["status"] = 503
            return
        if beh in ("NotFound", "ServerError", "Forbidden") or beh.startswith("Status"):
            entry["applied"] = beh
            code = {"NotFound": 404, "ServerError": 500, "Forbidden": 403}.get(beh) or int(beh[6:])
            self._reply(code, b"" if method == "HEAD" else b"<html><body>error page %d</body></html>" % code, {}, method)
            entry["status"] = code
            return
        fp, enc = self._resolve(path)
        if fp is None:
            self._reply(404, b"not found", {}, method)
            entry["status"] = 404
            return
        with open(fp, "rb") as f:
            data = f.read()
        hdrs = {"Accept-Ranges": "bytes"}
        if enc:
            hdrs["Content-Encoding"] = enc
        if rng and method == "GET":
            m = re.match(r"bytes=(\d+)-(\d+)$", rng)
            if not m:
                self._reply(416, b"", {}, method)
                entry["status"] = 416
                return
            a, b = int(m.group(1)), int(m.group(2))
            if beh == "IgnoreRange":
                entry["applied"] = beh
                self._reply(200, data, hdrs, method)
                entry["status"] = 200
                return
            if a >= len(data) or b < a:
                hdrs["Content-Range"] = "bytes */%d" % len(data)
                self._reply(416, b"", hdrs, method)
                entry["status"] = 416
                return
            body = data[a:b + 1]
            if beh == "ShortRange":
                entry["applied"] = beh
                body = body[:-1]
            elif beh == "LongRange":
                entry["applied"] = beh
                body = body + (data[b + 1:b + 2] or b"\0")
            hdrs["Content-Range"] = "bytes %d-%d/%d" % (a, a + len(body) - 1, len(data))
            if beh == "TruncBody" and len(body) > 1:
                entry["applied"] = beh
                self._reply(206, body, hdrs, method, cut=len(body) // 2)
                entry["status"] = 206
                return
            self._reply(206, body, hdrs, method)
            entry["status"] = 206
            return
        if beh == "TruncBody" and method == "GET" and len(data) > 1:
            entry["applied"] = beh
            self._reply(200, data, hdrs, method, cut=len(data) // 2)
            entry["status"] = 200
            return
        self._reply(200, data, hdrs, method)
        entry["status"] = 200

    def _reply(self, code, body, hdrs, method, cut=None):
        self.send_response(code)
        for k, v in hdrs.items():
            self.send_header(k, v)
        self.send_header("Content-Length", str(len(body)))
        self.end_headers()
        if method != "HEAD":
            self.wfile.write(body if cut is None else body[:cut])
        self.wfile.flush()
        if cut is not None:        # connection lost in the middle of the body
            try:
                self.connection.shutdown(socket.SHUT_RDWR)
            except OSError:
                pass
            self.close_connection = True


class Server:
    def __init__(self, root):
        self.httpd = ThreadingHTTPServer(("127.0.0.1", 0), Handler)
        self.httpd.daemon_threads = True
        self.httpd.root = root
        self.httpd.lock = threading.Lock()
        self.httpd.counter = 0
        self.httpd.script = {}
        self.httpd.log = []
        self.port = self.httpd.server_address[1]
        self.thread = threading.Thread(target=self.httpd.serve_forever, kwargs={"poll_interval": 0.05},
                                       daemon=True)
        self.thread.start()

    def url(self, sub=""):
        return "http://127.0.0.1:%d/%s" % (self.port, sub)

    def arm(self, script):
        """script: dict request-index -> behaviour (indices count from 0 after arming)"""
        with self.httpd.lock:
            self.httpd.counter = 0
            self.httpd.script = dict(script)
            self.httpd.log = []

    def log(self):
        return list(self.httpd.log)

    def set_root(self, root):
        self.httpd.root = root

    def set_deny(self, paths):
        self.httpd.deny = set(paths)

    def stop(self):
        self.httpd.shutdown()
        self.httpd.server_close()
