"""Run SANY / TLC with fixed JVM flags and parse what comes back.

Three entry points:

* ``model_check``  - use (M): explore a bounded MC_* instance, return states /
  transitions / invariant violations / coverage.
* ``judge``        - use (C->S) and the verdict half of (S->C): hand TLC an
  ndjson file of cases or traces recorded from the real code; a Trace_* module
  deserialises it (``IOEnv.TRACE_FILE``), evaluates the oracle layer and prints
  one ``<<"VERDICT", tid, status, clause, pos>>`` record per case.
* ``export``       - use (S->C): run a Gen_* module that prints
  ``<<"BEH", json>>`` records (behaviours / input points enumerated by TLC).

Exit-code policy is the caller's; this module raises ``MachineryError`` for
anything that is not a verdict (parse errors, TLC crashes, missing verdicts).
"""
import json
import os
import re
import shutil
import subprocess
import tempfile
import time

JAR = "/opt/veriftools/tla/tla2tools.jar"
CM = "/opt/veriftools/tla/CommunityModules-deps.jar"
SPEC_DIR = os.path.join(os.path.dirname(os.path.dirname(os.path.abspath(__file__))), "spec")


class MachineryError(Exception):
    pass


def _java(heap="6g"):
    return ["java", "-Xmx" + heap, "-Xss64m", "-XX:+UseSerialGC",
            "-cp", JAR + ":" + CM + ":" + SPEC_DIR + ":" + os.path.join(SPEC_DIR, "lib")]


def _scratch():
    return tempfile.mkdtemp(prefix="verif_tlc_")


_STATS = re.compile(r"(\d+) states generated, (\d+) distinct states found")
_INIT = re.compile(r"Finished computing initial states: (\d+) distinct state")
_DEPTH = re.compile(r"The depth of the complete state graph search is (\d+)")


def run_tlc(module, cfg=None, workers=8, env=None, extra=(), timeout=3600,
            heap="6g", deadlock=False, simulate=None, coverage=False):
    """Run TLC on spec/<module>.tla with spec/<cfg>.cfg. Returns dict."""
    meta = _scratch()
    cfgpath = os.path.join(SPEC_DIR, (cfg or module) + ".cfg")
    jv = _java(heap)
    jv.insert(1, "-Djava.io.tmpdir=" + meta)      # TLC leaves an empty tlc-* directory per run there
    cmd = jv + ["tlc2.TLC", "-workers", str(workers), "-metadir", meta,
                         "-noGenerateSpecTE", "-config", cfgpath]
    if not deadlock:
        cmd += ["-deadlock"]
    if coverage:
        cmd += ["-coverage", "1"]
    if simulate:
        cmd += ["-simulate", simulate]
    cmd += list(extra)
    cmd += [os.path.join(SPEC_DIR, module + ".tla")]
    e = dict(os.environ)
    e.update(env or {})
    t0 = time.time()
    try:
        p = subprocess.run(cmd, cwd=SPEC_DIR, env=e, capture_output=True,
                           text=True, timeout=timeout)
        out = p.stdout + p.stderr
        rc = p.returncode
    except subprocess.TimeoutExpired as ex:
        out = (ex.stdout or b"").decode("utf-8", "replace") if isinstance(ex.stdout, bytes) else (ex.stdout or "")
        rc = -9
    finally:
        shutil.rmtree(meta, ignore_errors=True)
    res = {"rc": rc, "out": out, "wall_s": time.time() - t0, "cmd": " ".join(cmd)}
    m = None
    for m in _STATS.finditer(out):
        pass
    if m:
        res["generated"] = int(m.group(1))
        res["distinct"] = int(m.group(2))
    mi = _INIT.search(out)
    if mi:
        res["init_states"] = int(mi.group(1))
    md = _DEPTH.search(out)
    if md:
        res["depth"] = int(md.group(1))
    res["invariant_violated"] = re.findall(r"Invariant (\S+) is violated", out)
    res["property_violated"] = re.findall(r"(?:Action|Temporal) propert(?:y|ies) (\S*) ?(?:is|were) violated", out)
    res["errors"] = [l for l in out.splitlines()
                     if l.startswith("Error:") or "Exception" in l and "java." in l]
    res["finished"] = "Model checking completed" in out or "Finished in" in out
    return res


def records(out, tag):
    """All PrintT'd tuples whose first element is the string `tag`.
    Parsed by bracket matching so that wrapped / interleaved output is safe."""
    needle = '<<"%s"' % tag
    res = []
    i = 0
    while True:
        j = out.find(needle, i)
        if j < 0:
            break
        depth = 0
        k = j
        instr = False
        while k < len(out):
            c = out[k]
            if instr:
                if c == "\\":
                    k += 1
                elif c == '"':
                    instr = False
            else:
                if c == '"':
                    instr = True
                elif out.startswith("<<", k):
                    depth += 1
                    k += 1
                elif out.startswith(">>", k):
                    depth -= 1
                    k += 1
                    if depth == 0:
                        break
            k += 1
        res.append(_parse_tuple(out[j:k + 1]))
        i = k + 1
    return res


def _parse_tuple(s):
    """Parse a TLA+ tuple of strings / ints / nested tuples / booleans."""
    pos = [0]

    def ws():
        while pos[0] < len(s) and s[pos[0]] in " \n\r\t":
            pos[0] += 1

    def val():
        ws()
        if s.startswith("<<", pos[0]):
            pos[0] += 2
            items = []
            ws()
            if s.startswith(">>", pos[0]):
                pos[0] += 2
                return items
            while True:
                items.append(val())
                ws()
                if s.startswith(">>", pos[0]):
                    pos[0] += 2
                    return items
                if s[pos[0]] != ",":
                    raise MachineryError("tuple parse error at %d in %r" % (pos[0], s[:200]))
                pos[0] += 1
        if s[pos[0]] == '"':
            k = pos[0] + 1
            buf = []
            while s[k] != '"':
                if s[k] == "\\":
                    k += 1
                    buf.append({"n": "\n", "t": "\t"}.get(s[k], s[k]))
                else:
                    buf.append(s[k])
                k += 1
            pos[0] = k + 1
            return "".join(buf)
        m = re.match(r"-?\d+", s[pos[0]:])
        if m:
            pos[0] += len(m.group(0))
            return int(m.group(0))
        m = re.match(r"TRUE|FALSE", s[pos[0]:])
        if m:
            pos[0] += len(m.group(0))
            return m.group(0) == "TRUE"
        m = re.match(r"[A-Za-z_][A-Za-z_0-9]*", s[pos[0]:])
        if m:
            pos[0] += len(m.group(0))
            return m.group(0)
        raise MachineryError("tuple parse error at %d in %r" % (pos[0], s[:200]))

    return val()


def model_check(module, cfg=None, workers=8, timeout=3600, coverage=False,
                simulate=None, extra=(), env=None, heap="6g"):
    r = run_tlc(module, cfg, workers=workers, timeout=timeout, coverage=coverage,
                simulate=simulate, extra=extra, env=env, heap=heap)
    if r["rc"] == -9:
        raise MachineryError("TLC timed out on %s" % module)
    ok = (r["rc"] == 0 and not r["invariant_violated"] and not r["property_violated"])
    if r["rc"] != 0 and not r["invariant_violated"] and not r["property_violated"]:
        raise MachineryError("TLC failed on %s (rc=%s):\n%s" % (module, r["rc"], r["out"][-3000:]))
    r["ok"] = ok
    if coverage:
        r["coverage"] = parse_coverage(r["out"])
    return r


_COV = re.compile(r"^<(\w+) line (\d+), col (\d+) to line (\d+), col (\d+) of module (\w+)>: (\d+):(\d+)", re.M)


def parse_coverage(out):
    cov = {}
    for m in _COV.finditer(out):
        name = m.group(6) + "." + m.group(1)
        cov[name] = cov.get(name, 0) + int(m.group(8))
    return cov


def judge(module, cases, cfg=None, workers=8, timeout=3600, heap="8g", chunk=None,
          extra_env=None):
    """Write `cases` (list of dicts, each with integer 'tid' 1..N in order) as
    ndjson, run Trace module, return {tid: (status, clause, pos)} plus stats."""
    if not cases:
        return {}, {"states": 0, "transitions": 0, "wall_s": 0.0}
    verdicts = {}
    stats = {"states": 0, "transitions": 0, "wall_s": 0.0, "runs": 0}
    chunk = chunk or len(cases)
    for base in range(0, len(cases), chunk):
        part = cases[base:base + chunk]
        d = _scratch()
        path = os.path.join(d, "cases.ndjson")
        idmap = {}
        with open(path, "w") as f:
            for k, c in enumerate(part):
                c = dict(c)
                idmap[k + 1] = c["tid"]
                c["tid"] = k + 1
                f.write(json.dumps(c, separators=(",", ":")) + "\n")
        try:
            env = {"TRACE_FILE": path}
            env.update(extra_env or {})
            r = run_tlc(module, cfg, workers=workers, env=env,
                        timeout=timeout, heap=heap)
        finally:
            shutil.rmtree(d, ignore_errors=True)
        if r["rc"] != 0:
            raise MachineryError("TLC judge run failed on %s (rc=%s):\n%s"
                                 % (module, r["rc"], r["out"][-4000:]))
        got = {}
        for rec in records(r["out"], "VERDICT"):
            # <<"VERDICT", tid, status, clause, pos>>
            tid = rec[1]
            v = (rec[2], rec[3] if len(rec) > 3 else "", rec[4] if len(rec) > 4 else 0)
            # a trace is accepted if SOME branch accepts it
            if tid not in got or (got[tid][0] != "ok" and v[0] == "ok"):
                got[tid] = v
        if len(got) != len(part):
            missing = [t for t in range(1, len(part) + 1) if t not in got][:5]
            raise MachineryError("judge %s: %d verdicts for %d cases (missing e.g. %s)\n%s"
                                 % (module, len(got), len(part), missing, r["out"][-3000:]))
        for k, v in got.items():
            verdicts[idmap[k]] = v
        for rec in records(r["out"], "DRIFT"):
            # <<"DRIFT", tid, clause, pos>>
            stats.setdefault("drift", []).append((idmap.get(rec[1], rec[1]),) + tuple(rec[2:]))
        stats["states"] += r.get("distinct", 0)
        stats["transitions"] += r.get("generated", 0)
        stats["wall_s"] += r["wall_s"]
        stats["runs"] += 1
    return verdicts, stats


def export(module, cfg=None, tag="BEH", workers=8, timeout=3600, simulate=None,
           extra=(), env=None, heap="6g"):
    r = run_tlc(module, cfg, workers=workers, timeout=timeout, simulate=simulate,
                extra=extra, env=env, heap=heap)
    if r["rc"] != 0 and not simulate:
        raise MachineryError("TLC export failed on %s (rc=%s):\n%s" % (module, r["rc"], r["out"][-3000:]))
    recs = records(r["out"], tag)
    return recs, r


def sany(module):
    cmd = _java("1g") + ["tla2sany.SANY", os.path.join(SPEC_DIR, module + ".tla")]
    p = subprocess.run(cmd, cwd=SPEC_DIR, capture_output=True, text=True)
    ok = p.returncode == 0 and "Semantic errors" not in p.stdout and "error" not in p.stdout.lower().replace("errors:", "")
    return ok, p.stdout + p.stderr


def tlaps_check(module, timeout=600):
    """Run the TLA+ proof system (tlapm) on spec/proofs/<module>.tla in a scratch copy
    (its cache stays out of /verif).  Returns dict(ok, obligations, proved, wall_s,
    tail).  Never raises for an unproved obligation: the caller decides."""
    import re
    import shutil
    import signal
    import subprocess
    import tempfile
    import time
    d = tempfile.mkdtemp(prefix="tlaps_")
    t0 = time.time()
    try:
        shutil.copy(os.path.join(SPEC_DIR, "proofs", module + ".tla"), d)
        # tlapm starts the back-end provers (z3, zenon, isabelle) as grandchildren: own process
        # group, killed as a whole when the proof ends or runs out of time (no orphan provers)
        try:
            proc = subprocess.Popen(["tlapm", module + ".tla"], cwd=d, stdout=subprocess.PIPE,
                                    stderr=subprocess.STDOUT, text=True, start_new_session=True)
        except OSError as e:
            return {"ok": False, "obligations": 0, "proved": 0, "wall_s": time.time() - t0, "tail": repr(e)[:300]}
        try:
            out, _ = proc.communicate(timeout=timeout)
        except subprocess.TimeoutExpired as e:
            return {"ok": False, "obligations": 0, "proved": 0, "wall_s": time.time() - t0, "tail": repr(e)[:300]}
        finally:
            try:
                os.killpg(proc.pid, signal.SIGKILL)
            except OSError:
                pass
            try:
                proc.wait(timeout=10)
            except Exception:
                pass
        m = re.search(r"All (\d+) obligations? proved", out)
        if m:
            n = int(m.group(1))
            return {"ok": True, "obligations": n, "proved": n, "wall_s": time.time() - t0, "tail": ""}
        m = re.search(r"(\d+)/(\d+) obligations failed", out)
        failed, total = (int(m.group(1)), int(m.group(2))) if m else (0, 0)
        return {"ok": False, "obligations": total, "proved": total - failed, "wall_s": time.time() - t0,
                "tail": out[-600:]}
    finally:
        shutil.rmtree(d, ignore_errors=True)
