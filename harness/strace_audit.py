"""Completeness audit of the I/O interposer (harness/faults.py) with strace.

The fault/crash enumeration of C18 is only as complete as the list of I/O calls
the interposer sees.  Here one fault-free run of a command-line scenario
(harness/cli_fault.py) executes under `strace -f -y`: every system call that
touches a path below the enumerated roots (dataset directory and the tool's
TMPDIR) must have a counterpart in the interposer's own call log:
  * open / write / mkdir / unlink / rename: same number of calls per path
    (the interposer hands out unbuffered files: one Python-level call = one
    system call);
  * read / stat: the (kind, path) pair must be known to the interposer (one
    Python-level read may need several system calls: readall).
Not compared: fstat/lstat/readlink/lseek/ioctl/fcntl/mmap (issued inside a
Python-level open/read, or by the interposer's own realpath()), the removal of
emptied temporary directories by the standard library's finalizers (directory
opens, rmdir) and tempfile's writability probe of TMPDIR: no data passes there.
A mismatch is reported (AUDIT line, evidence key enumeration_complete_per_strace =
false) but is neither a verdict nor a failure of what was explored.
"""
import collections
import json
import os
import re
import shutil
import subprocess
import sys
import tempfile

from . import cli_fault as cf

KIND = {"openat": "open", "open": "open", "creat": "open", "read": "read", "pread64": "read", "readv": "read",
        "write": "write", "pwrite64": "write", "writev": "write", "sendfile": "write", "copy_file_range": "write",
        "close": "close", "stat": "stat", "newfstatat": "stat", "statx": "stat", "access": "stat",
        "faccessat": "stat", "faccessat2": "stat", "mkdir": "mkdir", "mkdirat": "mkdir",
        "unlink": "unlink", "unlinkat": "unlink", "rmdir": "unlink", "rename": "rename", "renameat": "rename",
        "renameat2": "rename", "ftruncate": "truncate", "truncate": "truncate", "link": "rename", "linkat": "rename",
        "symlink": "rename", "symlinkat": "rename"}
EXACT = ("open", "write", "mkdir", "unlink", "rename", "truncate")


def available():
    try:
        p = subprocess.run(["strace", "-qq", "-o", os.devnull, "-e", "trace=openat", "true"],
                           capture_output=True, timeout=20)
        return p.returncode == 0
    except Exception:
        return False


def audit(workdir, name):
    """-> dict(scenario, syscalls, interposer_calls, uncovered: [...], count_mismatch: [...])"""
    sandbox = tempfile.mkdtemp(prefix="aud_", dir=workdir)
    try:
        mod, args, root, datasets = cf.setup(name, sandbox)
        report = os.path.join(sandbox, "report.json")
        log = os.path.join(sandbox, "strace.log")
        tmpd = os.path.join(sandbox, "tmp")
        os.makedirs(tmpd, exist_ok=True)
        env = dict(os.environ, PYTHONDONTWRITEBYTECODE="1", TMPDIR=tmpd)
        cmd = ["strace", "-f", "-y", "-qq", "-o", log, "-e", "trace=" + ",".join(sorted(KIND)),
               sys.executable, cf.CHILD, root + "|" + tmpd, "null", report, mod] + args
        p = subprocess.run(cmd, env=env, capture_output=True, text=True, timeout=600)
        if not os.path.exists(report):
            raise RuntimeError("strace audit: the child wrote no report (rc=%s): %s" % (p.returncode, p.stderr[-300:]))
        with open(report) as f:
            calls = json.load(f)["calls"]
        rroot = os.path.realpath(root)
        roots = [rroot, os.path.realpath(tmpd)]
        ev = []
        with open(log, errors="replace") as f:
            for line in f:
                m = re.match(r"^\d+\s+(\w+)\((.*)\)\s+=\s+(-?\d+|\?)", line)
                if not m:
                    continue
                sc, a, ret = m.groups()
                if "AT_SYMLINK_NOFOLLOW" in a or "AT_EMPTY_PATH" in a:
                    continue        # lstat of realpath() / fstat on a descriptor
                if "O_DIRECTORY" in a or "AT_REMOVEDIR" in a or sc == "rmdir":
                    continue        # removal of emptied temporary DIRECTORIES by the standard library's finalizers
                if sc in ("unlinkat", "unlink") and re.search(r'/tmp/[a-z0-9_]{8}"', a):
                    continue        # tempfile's own writability probe of TMPDIR
                if sc in ("openat",) and re.search(r'/tmp/[a-z0-9_]{8}"', a):
                    continue
                paths = re.findall(r"<([^<>]+)>", a) + re.findall(r'"([^"]*)"', a)
                if KIND[sc] == "rename":
                    paths = paths[::-1]     # the interposer logs a rename under its DESTINATION
                for q in paths:
                    if any(q == r or q.startswith(r + "/") for r in roots):
                        if sc in ("write", "close") and re.search(r"/tmp/[a-z0-9_]{8}$", q):
                            break
                        if KIND[sc] == "open" and re.search(r"/tmp[a-z0-9_]{8}$", q):
                            break       # rmtree of a mkdtemp() directory opens the directory itself
                        ev.append((KIND[sc], os.path.relpath(q, rroot), ret))
                        break
        ci = collections.Counter((k, r) for k, r in calls)
        ce = collections.Counter((k, r) for k, r, ret in ev)
        uncovered = sorted("%s %s x%d" % (k, r, n) for (k, r), n in ce.items() if (k, r) not in ci and k != "close")
        mismatch = sorted("%s %s sys=%d interposer=%d" % (k, r, n, ci[(k, r)]) for (k, r), n in ce.items()
                          if (k, r) in ci and k in EXACT and n != ci[(k, r)])
        return {"scenario": name, "rc": p.returncode, "syscalls_on_roots": len(ev), "interposer_calls": len(calls),
                "uncovered": uncovered, "count_mismatch": mismatch}
    finally:
        shutil.rmtree(sandbox, ignore_errors=True)
