"""Drive the real PrecomputedIO over real accessors and codecs; record only."""
import atexit
import contextlib
import io
import os
import shutil
import tempfile

import numpy as np

DTYPES = ["uint8", "uint16", "uint32", "uint64", "float32"]


def build_info(model_info, dtype, channels, encoding, block=None, sharding=None, per_scale=None):
    """per_scale: optional list of (encoding, block) per scale - scales of one
    dataset may use different encodings / block sizes"""
    scales = []
    for k, sc in enumerate(model_info):
        enc_k, block_k = per_scale[k] if per_scale else (encoding, block)
        s = {"key": "s%d" % (k + 1), "size": list(sc["size"]),
             "chunk_sizes": [list(c) for c in sc["chunks"]],
             "resolution": [2 ** k] * 3, "voxel_offset": [0, 0, 0], "encoding": enc_k}
        if enc_k == "compressed_segmentation":
            s["compressed_segmentation_block_size"] = list(block_k or [8, 8, 8])
        if sharding:
            s["sharding"] = dict(sharding)
        scales.append(s)
    return {"type": "image" if encoding != "compressed_segmentation" else "segmentation",
            "data_type": dtype, "num_channels": channels, "scales": scales}


def make_array(rng, shape, dtype, smooth=False, sparse=False):
    shape = tuple(max(1, int(x)) for x in shape)
    n = int(np.prod(shape))
    if smooth:
        base = rng.integers(40, 200)
        z, y, x = np.meshgrid(np.arange(shape[1]), np.arange(shape[2]), np.arange(shape[3]), indexing="ij")
        a = (base + 3 * x + 2 * y + z)[np.newaxis].repeat(shape[0], 0) + np.arange(shape[0])[:, None, None, None] * 5
        return a.astype(dtype)
    if dtype == "float32":
        return rng.standard_normal(n).astype("float32").reshape(shape)
    info = np.iinfo(dtype)
    choice = 3 if sparse else rng.integers(0, 4)
    if choice == 3:
        # sparse: background with a few labelled voxels (short encodings)
        a = np.zeros(n, dtype=np.uint64)
        k = int(rng.integers(0, 3))
        if k:
            a[rng.integers(0, n, size=k)] = rng.integers(1, info.max, size=k, dtype=np.uint64, endpoint=True)
    elif choice == 0:
        a = rng.integers(0, min(info.max, 7) + 1, size=n, dtype=np.uint64)
    elif choice == 1:
        a = rng.integers(0, info.max, size=n, dtype=np.uint64, endpoint=True)
    else:
        a = np.array([info.max, 0, info.max - 1, 1] * (n // 4 + 1), dtype=np.uint64)[:n]
    return a.astype(dtype).reshape(shape)


def relayout(rng, a):
    """Same values, another memory layout (C, Fortran, transposed view of an
    (X,Y,Z,C) array, strided view of a larger buffer)."""
    k = int(rng.integers(0, 5))
    if k == 0:
        return a, "C"
    if k == 1:
        return np.asfortranarray(a), "F"
    if k == 2:
        base = np.ascontiguousarray(a.transpose(3, 2, 1, 0))      # (X,Y,Z,C) C-contiguous
        return base.transpose(3, 2, 1, 0), "xyzc-view"
    if k == 3:
        big = np.zeros(tuple(2 * n for n in a.shape), dtype=a.dtype)
        v = big[::2, ::2, ::2, ::2]
        v[...] = a
        return v, "strided"
    ro = a.copy()
    ro.setflags(write=False)
    return ro, "readonly"


def enc_bytes(a):
    return list(np.ascontiguousarray(a).astype(a.dtype.newbyteorder("<")).tobytes())


def open_accessor(kind, base, write):
    from neuroglancer_scripts import file_accessor as fa
    from neuroglancer_scripts import sharded_file_accessor as sfa
    if kind["acc"] == "file":
        return fa.FileAccessor(base, flat=kind["flat"], gzip=kind["gzip"])
    return sfa.ShardedFileAccessor(base, strategy=kind.get("strategy", "in memory"))


NARROWER = {"uint64": ["uint32", "uint16", "uint8"], "uint32": ["uint16", "uint8"], "uint16": ["uint8"],
            "float32": ["uint8", "uint16"]}


def run_history(workdir, model_info, ops, kind, dtype, channels, encoding, rng,
                block=None, enc_opts=None, per_scale=None, prior=False, narrow=False, sparse=False):
    """per_scale: [(encoding, block)] per scale (mixed encodings in one dataset);
    prior: the directory first holds ANOTHER dataset, opened once through the same
    accessor object, then re-created in place (overwrite_info); re-opens then also
    re-use the same accessor object; narrow: some arrays are passed in a narrower
    type that converts safely to the dataset's."""
    """Replay one behaviour. For sharded accessors the behaviour is normalised
    to write-once-then-close-then-read (what that accessor offers)."""
    from neuroglancer_scripts import precomputed_io as pio
    base = tempfile.mkdtemp(prefix="cs_", dir=workdir)
    old_tmp = tempfile.tempdir
    tempfile.tempdir = workdir
    sharding = None
    if kind["acc"] == "sharded":
        sharding = {"@type": "neuroglancer_uint64_sharded_v1", "minishard_bits": kind["mb"],
                    "shard_bits": kind["sb"], "preshift_bits": kind["pb"], "hash": "identity",
                    "minishard_index_encoding": kind.get("ienc", kind["enc"]), "data_encoding": kind["enc"]}
    info = build_info(model_info, dtype, channels, encoding, block, sharding, per_scale)
    events = []
    accs = []
    held = []
    lossy = [sc["encoding"] == "jpeg" for sc in info["scales"]]

    def mk_acc():
        a = open_accessor(kind, base, True)
        accs.append(a)
        return a

    try:
        with contextlib.redirect_stdout(io.StringIO()):
            acc = mk_acc()
            if prior and kind["acc"] == "file":
                # an earlier dataset with another description in the same place, opened
                # through this very accessor object before being replaced
                pinfo = build_info(model_info[:1], "float32" if dtype != "float32" else "uint16", 1, "raw")
                pw = pio.get_IO_for_new_dataset(pinfo, acc)
                sc0 = model_info[0]
                c0 = [0, min(sc0["chunks"][0][0], sc0["size"][0]), 0, min(sc0["chunks"][0][1], sc0["size"][1]),
                      0, min(sc0["chunks"][0][2], sc0["size"][2])]
                try:
                    pw.write_chunk(make_array(rng, (1, c0[5], c0[3], c0[1]), pinfo["data_type"]), "s1", tuple(c0))
                    pio.get_IO_for_existing_dataset(acc).read_chunk("s1", tuple(c0))
                except Exception as e:      # recorded: an on-grid write / read of the earlier dataset failed
                    events.append({"op": "write", "s": 1, "c": list(c0), "shape": [1, c0[5], c0[3], c0[1]],
                                   "dt": str(np.dtype(dtype).name), "bytes": [], "layout": "C",
                                   "passed_as": pinfo["data_type"],
                                   "res": "assert" if isinstance(e, AssertionError) else "exc",
                                   "cls": type(e).__name__})
                writer = pio.get_IO_for_new_dataset(info, acc, overwrite_info=True, encoder_options=enc_opts or {})
            else:
                writer = pio.get_IO_for_new_dataset(info, acc, encoder_options=enc_opts or {})
            if kind["acc"] == "sharded":
                seen = set()
                wops = []
                for op in ops:
                    if op["op"] == "write" and (op["s"], tuple(op["c"])) not in seen:
                        seen.add((op["s"], tuple(op["c"])))
                        wops.append(op)
                rops = [op for op in ops if op["op"] == "read"]
                seq = wops + [{"op": "reopen"}] + rops
            else:
                seq = list(ops)
            io_obj = writer
            written = []
            for op in seq:
                if op["op"] == "reopen":
                    if kind["acc"] == "sharded":
                        acc.close()
                    if not (prior and kind["acc"] == "file" and rng.random() < 0.6):
                        acc = mk_acc()          # else: a fresh handle on the SAME accessor object
                    io_obj = pio.get_IO_for_existing_dataset(acc, encoder_options=enc_opts or {})
                    events.append({"op": "reopen", "s": 0, "c": [], "res": "ok", "shape": [], "dt": "", "bytes": []})
                    continue
                key = "s%d" % op["s"]
                c = tuple(op["c"])
                if op["op"] == "write":
                    shape = (channels, c[5] - c[4], c[3] - c[2], c[1] - c[0])
                    lossy_k = 1 <= op["s"] <= len(lossy) and lossy[op["s"] - 1]
                    arr = make_array(rng, shape, dtype, smooth=lossy_k, sparse=sparse)
                    as_dataset = arr
                    if narrow and not lossy_k and dtype in NARROWER and rng.random() < 0.4:
                        nd = NARROWER[dtype][int(rng.integers(0, len(NARROWER[dtype])))]
                        arr = (arr % (np.iinfo(nd).max + 1)).astype(nd) if np.dtype(dtype).kind == "u" \
                            else np.clip(np.rint(arr), 0, np.iinfo(nd).max).astype(nd)
                        as_dataset = arr.astype(dtype)          # exact: the narrower type converts safely
                    arr, layout = relayout(rng, arr)
                    ev = {"op": "write", "s": op["s"], "c": list(c), "shape": list(arr.shape),
                          "dt": str(np.dtype(dtype).name), "bytes": enc_bytes(as_dataset), "layout": layout,
                          "passed_as": str(arr.dtype.name)}
                    try:
                        io_obj.write_chunk(arr, key, c)
                        ev["res"] = "ok"
                        if (op["s"], c) not in written:
                            written.append((op["s"], c))
                    except AssertionError:
                        ev["res"] = "assert"
                    except Exception as e:
                        ev["res"] = "exc"
                        ev["cls"] = type(e).__name__
                    events.append(ev)
                else:
                    events.append(read_event(io_obj, op["s"], c, held))
            # final sweep through a FRESH handle: every chunk ever written
            if kind["acc"] == "sharded":
                acc.close()
                acc = mk_acc()
            else:
                # "files on disk as seen by a second accessor instance": the fresh
                # handle is opened with ANOTHER layout/compression configuration
                k2 = int(rng.integers(0, 4))
                acc = open_accessor({"acc": "file", "flat": bool(k2 & 1), "gzip": bool(k2 & 2)}, base, False)
            io_obj = pio.get_IO_for_existing_dataset(acc, encoder_options=enc_opts or {})
            events.append({"op": "reopen", "s": 0, "c": [], "res": "ok", "shape": [], "dt": "", "bytes": []})
            for (s, c) in written:
                events.append(read_event(io_obj, s, c, held))
            # the arrays handed out earlier must still hold what was read
            for ev, arr in held:
                ev["late"] = enc_bytes(arr)
    finally:
        for a in accs:
            if hasattr(a, "close"):
                atexit.unregister(a.close)
        tempfile.tempdir = old_tmp
        shutil.rmtree(base, ignore_errors=True)
    return {"kind": "hist", "info": model_info, "channels": channels, "lossy": lossy,
            "events": events, "size": [], "chunks": [], "items": []}


def read_event(io_obj, s, c, keep=None):
    ev = {"op": "read", "s": s, "c": list(c)}
    try:
        arr = io_obj.read_chunk("s%d" % s, tuple(c))
        ev.update(res="ok", shape=list(arr.shape), dt=str(arr.dtype.name), bytes=enc_bytes(arr))
        if keep is not None:
            keep.append((ev, arr))
    except Exception as e:
        ev.update(res="exc", cls=type(e).__name__, shape=[], dt="", bytes=[])
    return ev


def validate_case(rng, size, chunks, n):
    from neuroglancer_scripts import precomputed_io as pio
    info = {"type": "image", "data_type": "uint8", "num_channels": 1,
            "scales": [{"key": "k", "size": list(size), "chunk_sizes": [list(c) for c in chunks],
                        "resolution": [1, 1, 1], "voxel_offset": [0, 0, 0], "encoding": "raw"}]}
    io_obj = pio.PrecomputedIO(info, None)
    tuples = set()
    cs = chunks[0]
    # structured: all (min,max) pairs on one axis, others valid
    for d in range(3):
        for mn in range(-cs[d] - 1, size[d] + cs[d] + 2):
            for mx in range(-1, size[d] + cs[d] + 2):
                t = [0, min(cs[0], size[0]), 0, min(cs[1], size[1]), 0, min(cs[2], size[2])]
                t[2 * d], t[2 * d + 1] = mn, mx
                tuples.add(tuple(t))
    # every on-grid tuple of every chunk size + random ones
    for c in chunks:
        for x in range(0, size[0], c[0]):
            for y in range(0, size[1], c[1]):
                for z in range(0, size[2], c[2]):
                    tuples.add((x, min(x + c[0], size[0]), y, min(y + c[1], size[1]), z, min(z + c[2], size[2])))
    while len(tuples) < n:
        t = []
        c = chunks[rng.randrange(len(chunks))]
        for d in range(3):
            r = rng.random()
            if r < 0.6:
                mn = rng.randrange(-1, size[d] // c[d] + 2) * c[d]
                mx = min(mn + c[d], size[d]) if rng.random() < 0.8 else mn + c[d]
            else:
                mn = rng.randint(-2, size[d] + 2)
                mx = rng.randint(-2, size[d] + 2)
            t += [mn, mx]
        tuples.add(tuple(t))
    items = []
    for t in sorted(tuples):
        try:
            r = io_obj.validate_chunk_coords("k", t)
            items.append({"c": list(t), "res": "true" if r else "false"})
        except Exception as e:
            items.append({"c": list(t), "res": "exc:" + type(e).__name__})
    return {"kind": "validate", "size": list(size), "chunks": [list(c) for c in chunks], "items": items,
            "info": [], "channels": 1, "lossy": False, "events": []}
