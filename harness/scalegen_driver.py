"""Drive the real scale generator (fill_scales_for_dyadic_pyramid and the
generate-scales-info command) and RECORD what it produced, re-encoded for
ScaleGen.tla.  No judging here: selection helpers (boundary distance, delay
descriptors for signatures) are used to ORDER / SKIP inputs only."""
import contextlib
import io
import json
import logging
import math
import os
from fractions import Fraction

LIMIT = 1 << 31


def res_float(pq, s):
    """nominal resolution p/q * 10^s nm as the nearest double"""
    return float(Fraction(pq[0], pq[1]) * 10 ** s)


def make_fullres_info(inp, dtype="uint8", channels=1, in_type=None, in_enc=None,
                      has_block=False):
    sc = {"size": list(inp["size"]),
          "resolution": [res_float(r, inp["s"]) for r in inp["res"]],
          "voxel_offset": [0, 0, 0]}
    if in_enc:
        sc["encoding"] = in_enc
    if has_block:
        sc["compressed_segmentation_block_size"] = [8, 8, 8]
    info = {"data_type": dtype, "num_channels": channels, "scales": [sc]}
    if in_type:
        info["type"] = in_type
    return info


def exact_ratio(out, base):
    """out / base as an exact rational, re-encoded as [e, a, b] with
    out / base = 2^e * a / b, a and b odd (e may be negative); [0, 0, 0] when
    a or b does not fit 31 bits or the ratio is not positive"""
    try:
        fr = Fraction(out) / Fraction(base)
    except (ValueError, ZeroDivisionError, TypeError, OverflowError):
        return [0, 0, 0]
    if fr <= 0:
        return [0, 0, 0]
    n, d, e = fr.numerator, fr.denominator, 0
    while n % 2 == 0:
        n //= 2
        e += 1
    while d % 2 == 0:
        d //= 2
        e -= 1
    if n >= LIMIT or d >= LIMIT or abs(e) > 2000:
        return [0, 0, 0]
    return [e, n, d]


def _small_int(v):
    return isinstance(v, int) and not isinstance(v, bool) and 0 <= v < LIMIT


def encode_scales(info, base_res):
    """the scales of a real info, as ScaleGen.tla reads them"""
    out = []
    for sc in info["scales"]:
        cs = sc.get("chunk_sizes") or [[0, 0, 0]]
        out.append({
            "key": str(sc.get("key")),
            "size": [v if _small_int(v) else 0 for v in sc["size"]],
            "chunk": [v if _small_int(v) else 0 for v in cs[0]],
            "ratio": [exact_ratio(r, b) for r, b in zip(sc["resolution"], base_res)],
        })
    return out


def _params(in_type, in_enc, arg_type, arg_enc, dtype, has_block, channels, info):
    sc0 = (info or {}).get("scales", [{}])[0] if info else {}
    enc = sc0.get("encoding", "")
    return {"inType": in_type or "", "inEnc": in_enc or "", "argType": arg_type or "",
            "argEnc": arg_enc or "", "dtype": dtype, "hasBlock": bool(has_block),
            "channels": channels,
            "outType": (info or {}).get("type", ""), "outEnc": enc,
            "outDtype": (info or {}).get("data_type", ""),
            "block": ("set" if enc == "compressed_segmentation" and
                      "compressed_segmentation_block_size" in sc0 else
                      "kept" if "compressed_segmentation_block_size" in sc0 else "absent")}


def accepted_by_io(info):
    """fact: PrecomputedIO (get_encoder for every scale) accepts the info"""
    from neuroglancer_scripts import precomputed_io
    try:
        io_obj = precomputed_io.PrecomputedIO(json.loads(json.dumps(info)), None)
    except Exception as e:  # recorded
        return False, type(e).__name__
    # ... and its validator accepts the chunk grid the info describes: first, last and a middle
    # chunk of every scale and chunk size (what the conversion and the pyramid computation write)
    for sc in info["scales"]:
        size = sc["size"]
        for cs in sc["chunk_sizes"]:
            n = [(size[d] - 1) // cs[d] + 1 for d in range(3)]
            for idx in ([0, 0, 0], [n[0] - 1, n[1] - 1, n[2] - 1], [n[0] // 2, n[1] // 2, n[2] // 2],
                        [n[0] - 1, 0, n[2] // 2], [0, n[1] - 1, 0], [0, 0, n[2] - 1]):
                c = []
                for d in range(3):
                    lo = idx[d] * cs[d]
                    c += [lo, min(lo + cs[d], size[d])]
                try:
                    if not io_obj.validate_chunk_coords(sc["key"], tuple(c)):
                        return False, "GridRejected"
                except Exception as e:  # recorded
                    return False, "Grid:" + type(e).__name__
    return True, ""


def run_direct(inp, dtype="uint8", channels=1):
    """fill_scales_for_dyadic_pyramid on a fresh full-resolution info"""
    from neuroglancer_scripts import dyadic_pyramid
    from neuroglancer_scripts.scripts import generate_scales_info as gsi
    info = make_fullres_info(inp, dtype, channels)
    base = list(info["scales"][0]["resolution"])
    rec = {"in": inp, "raised": "", "scales": [], "jsonok": True, "accepted": True,
           "design": True, "via": "function"}
    try:
        gsi.set_info_params(info)
        kw = {"target_chunk_size": 2 ** inp["T"]}
        if inp["maxs"]:
            kw["max_scales"] = inp["maxs"]
        dyadic_pyramid.fill_scales_for_dyadic_pyramid(info, **kw)
        try:
            rec["jsonok"] = json.loads(json.dumps(info)) == info
        except (TypeError, ValueError):
            rec["jsonok"] = False
        rec["scales"] = encode_scales(info, base)
        rec["accepted"], rec["acc_exc"] = accepted_by_io(info)
    except Exception as e:  # recorded, judged by TLC
        rec["raised"] = type(e).__name__
        info = None
    rec["params"] = _params(None, None, None, None, dtype, False, channels, info)
    return rec


def run_cli(workdir, inp, n, in_type=None, in_enc=None, arg_type=None, arg_enc=None,
            dtype="uint8", has_block=False, channels=1):
    """the generate-scales-info command (its main()), info file read back"""
    from neuroglancer_scripts import accessor, precomputed_io
    from neuroglancer_scripts.scripts import generate_scales_info as gsi
    src = os.path.join(workdir, "full_%d.json" % n)
    dest = os.path.join(workdir, "ds_%d" % n)
    info_in = make_fullres_info(inp, dtype, channels, in_type, in_enc, has_block)
    base = list(info_in["scales"][0]["resolution"])
    with open(src, "w") as f:
        json.dump(info_in, f)
    argv = ["generate-scales-info", src, dest, "--target-chunk-size", str(2 ** inp["T"])]
    if inp["maxs"]:
        argv += ["--max-scales", str(inp["maxs"])]
    if arg_type:
        argv += ["--type", arg_type]
    if arg_enc:
        argv += ["--encoding", arg_enc]
    rec = {"in": inp, "raised": "", "scales": [], "jsonok": True, "accepted": True,
           "design": True, "via": "command"}
    info = None
    root = logging.getLogger()
    saved = (list(root.handlers), root.level)
    try:
        with contextlib.redirect_stdout(io.StringIO()), contextlib.redirect_stderr(io.StringIO()):
            try:
                args = gsi.parse_command_line(argv)
                gsi.generate_scales_info(args.fullres_info, args.dest_url,
                                         target_chunk_size=args.target_chunk_size,
                                         dataset_type=args.type, encoding=args.encoding,
                                         max_scales=args.max_scales)
            except Exception as e:
                rec["raised"] = type(e).__name__
            except SystemExit as e:
                rec["raised"] = "SystemExit"
    finally:
        root.handlers[:] = saved[0]
        root.setLevel(saved[1])
    path = os.path.join(dest, "info")
    if os.path.exists(path):
        with open(path) as f:
            text = f.read()
        try:
            info = json.loads(text)
        except ValueError:
            rec["jsonok"] = False
        if info is not None:
            try:
                rec["scales"] = encode_scales(info, base)
            except Exception:
                rec["scales"] = []
            try:
                acc = accessor.get_accessor_for_url(dest)
                precomputed_io.get_IO_for_existing_dataset(acc)
                rec["accepted"] = True
            except Exception as e:
                rec["accepted"], rec["acc_exc"] = False, type(e).__name__
    # a raise AFTER a complete info was written (encoder rejection) is the
    # 'accepted' fact, not a generator failure
    if rec["raised"] and rec["scales"] and rec["raised"] == "InvalidInfoError":
        rec["accepted"], rec["acc_exc"] = False, rec["raised"]
        rec["raised"] = ""
    rec["params"] = _params(in_type, in_enc, arg_type, arg_enc, dtype, has_block, channels, info)
    return rec


# ---------------------------------------------------------------- selection --
def delays_descr(inp):
    """descriptor only (signatures, stratification): round(log2(r / rmin))"""
    fr = [Fraction(p, q) for p, q in inp["res"]]
    m = min(fr)
    return [int(round(math.log2(x / m))) for x in fr]


def near_boundary(inp, levels=34, eps=1e-9):
    """True when float and rational arithmetic could legitimately disagree:
    a delay within eps of a rounding boundary, or a value that the code rounds
    (unit choice: the finest resolution and its double in every candidate
    unit; keys: the minimum resolution of every level in the chosen unit)
    within eps (relative) of x.5 without being computed exactly in floats."""
    from neuroglancer_scripts import dyadic_pyramid
    fr = [Fraction(p, q) for p, q in inp["res"]]
    m = min(fr)
    for x in fr:
        l = math.log2(x / m)
        if abs((l % 1.0) - 0.5) < eps:
            return True
    d = delays_descr(inp)
    factors = {12: 1e-12, 9: 1e-9, 6: 1e-6, 3: 1e-3, 0: 1., -3: 1e3}   # utils.LENGTH_UNITS

    def close(w, fv):
        """w: exact rational value that gets rounded; fv: the double the code
        rounds.  Unambiguous when the double IS the exact value."""
        if Fraction(fv) == w:
            return False
        fracpart = w - math.floor(w)
        dist = abs(float(fracpart) - 0.5)
        return dist < max(eps, 2e-15 * float(w))

    mi = fr.index(m)
    fmin = res_float(inp["res"][mi], inp["s"])
    for u in (12, 9, 6, 3, 0, -3):
        v = m * Fraction(10) ** (inp["s"] - u)
        if close(v, fmin * factors[u]) or close(2 * v, fmin * 2 * factors[u]):
            return True
    try:
        unit = dyadic_pyramid.choose_unit_for_key(fmin)
    except Exception:
        return False
    u = {"km": 12, "m": 9, "mm": 6, "um": 3, "nm": 0, "pm": -3}[unit]
    for L in range(levels):
        cands = [(x * 2 ** max(0, L - dl), res_float(r, inp["s"]) * 2 ** max(0, L - dl))
                 for x, dl, r in zip(fr, d, inp["res"])]
        v, fv = min(cands)
        if close(v * Fraction(10) ** (inp["s"] - u), fv * factors[u]):
            return True
    return False


def ratio_class(inp):
    """structural signature of the resolution triple: ratios to the finest axis"""
    fr = [Fraction(p, q) for p, q in inp["res"]]
    m = min(fr)
    return [str(x / m) for x in fr]


def min_mantissa(inp):
    """finest resolution (in its decimal scale) divided by the power of two below it"""
    m = min(Fraction(p, q) for p, q in inp["res"])
    e = math.floor(math.log2(m))
    return str(m / Fraction(2) ** e)
