"""Drive the real command-line tools as sub-processes and RECORD what they did
(C19, C13, report half of C20).  No judging here: every verdict is taken by
TLC in spec/Trace_Pipeline.tla from the records this module writes.

One *program* = a list of model-level commands (uniform dicts, the records of
spec/Pipeline.tla: op d src type enc max m sh copy) run on two scratch
directories "A" and "B" and one synthetic NIfTI volume.  After every command
the driver snapshots both directories with FRESH accessors:

  fullres / transform   "absent" | "ok" | "bad" (+ sha1 of the bytes)
  info                  st "none" | "ok" | "bad", canonical JSON text, data
                        type, item size, channels
  scales[i]             key, size, chunk size, sharded?, st[] = per chunk of
                        the info's grid "ok" | "absent" (the accessor cannot
                        fetch it) | "unreadable" (fetched but not decodable),
                        vox = index of the decoded WHOLE scale (C, Z, Y, X
                        order, flattened) in the case's interned array table,
                        0 when some chunk is not ok; nstored = number of
                        chunks found on disk by an independent walk (chunk
                        files, or non-empty minishard-index entries of .shard
                        files)
  tree                  sha1 over (relative path, sha1 of bytes) of all files

Values travel exactly: an array is {"den": d, "big": 0|1, "v": [...]}: value =
v / den (den a power of two, reduced), big = 1 when some |value| >= 2^31 (then
v holds decimal strings; only identity / widening comparisons are made on
them).  Equal arrays are interned once (content addressing - re-encoding, not
a decision: TLC dereferences and compares the value lists).
"""
import atexit
import concurrent.futures
import hashlib
import http.server
import json
import os
import re
import shutil
import socketserver
import subprocess
import sys
import threading

import numpy as np

from . import parsers, tlc

FIELDS = ("op", "d", "src", "type", "enc", "max", "m", "sh", "copy", "code")
MODULES = {
    "GenInfo": "volume_to_precomputed",
    "GenScales": "generate_scales_info",
    "Vol": "volume_to_precomputed",
    "Compute": "compute_scales",
    "Convert": "convert_chunks",
    "Stats": "scale_stats",
    "AllInOne": "volume_to_precomputed_pyramid",
    "Slices": "slices_to_precomputed",
    "Mesh": "mesh_to_precomputed",
    "Link": "link_mesh_fragments",
}
MESH_DIRS = ("m1", "m2")
# label tables of link-mesh-fragments (spec/Pipeline.tla TableRows)
TABLES = {"t1": [[1, ["f1"]]], "t2": [[1, ["f1"]], [2, ["f1", "f2"]]]}
_LINK_NAME = re.compile(r"^(\d+):0$")
LAYOUTS = {"deep-gz": [], "deep-plain": ["--no-gzip"], "flat-gz": ["--flat"],
           "flat-plain": ["--flat", "--no-gzip"]}
SHARDING_ARG = {"s110": "1,1,0"}
SHARDING_SPEC = {"s110": {"@type": "neuroglancer_uint64_sharded_v1", "minishard_bits": 1,
                          "shard_bits": 1, "preshift_bits": 0, "hash": "identity"}}
MAX_BYTES = 2_000_000      # Trace_Pipeline's integer arithmetic assumes datasets below this


def cmd(op, d, src="-", type="-", enc="-", max="-", m="-", sh="-", copy="-", code="-"):
    return {"op": op, "d": d, "src": src, "type": type, "enc": enc, "max": max,
            "m": m, "sh": sh, "copy": copy, "code": code}


def parse_cmd(s):
    """'op|d|src|type|enc|max|m|sh|copy|code' (Gen_Pipeline export) -> dict"""
    parts = s.split("|")
    if len(parts) != len(FIELDS):
        raise tlc.MachineryError("bad command string %r" % s)
    return dict(zip(FIELDS, parts))


def cmd_str(c):
    return "|".join(str(c[f]) for f in FIELDS)


# ---------------------------------------------------------------------------
# synthetic volumes
# ---------------------------------------------------------------------------
def n_levels(shape, voxel, target=64):
    """Number of scales generate-scales-info yields without --max-scales for
    this volume class.  Used only as the DESIGN parameter cfg.nall (-> drift
    only) and to keep volume classes within the model's 3 scales, so it is
    simply asked from the generator itself (its correctness is C08's topic)."""
    from neuroglancer_scripts.dyadic_pyramid import fill_scales_for_dyadic_pyramid
    info = {"type": "image", "data_type": "uint8", "num_channels": 1,
            "scales": [{"size": [int(v) for v in shape[:3]], "encoding": "raw",
                        "resolution": [float(v) * 1e6 for v in voxel], "voxel_offset": [0, 0, 0]}]}
    try:
        fill_scales_for_dyadic_pyramid(info, target_chunk_size=target)
        return len(info["scales"])
    except Exception:
        return 1


def make_volume(path, spec, rng):
    """spec: shape (x,y,z[,c]), dtype, voxel (mm), kind 'noise'|'labels'|'ramp',
    rgb (bool), scl [slope, inter] (header value scaling).  Returns the array of
    STORED values (X, Y, Z[, C])."""
    import nibabel
    shape = tuple(spec["shape"])
    dt = np.dtype(spec["dtype"])
    kind = spec.get("kind", "noise")
    hi = spec.get("hi", 200)
    if kind == "labels":
        # blocky label image with a few distinct labels (majority/stride differ)
        base = rng.integers(0, 5, size=tuple((s + 2) // 3 for s in shape[:3]))
        a = np.kron(base, np.ones((3, 3, 3), dtype=np.int64))[:shape[0], :shape[1], :shape[2]]
        flip = rng.random(size=shape[:3]) < 0.15
        a = np.where(flip, rng.integers(0, 7, size=shape[:3]), a) * spec.get("label_step", 1)
        if len(shape) == 4:
            a = np.stack([a + k for k in range(shape[3])], axis=-1)
    elif kind == "blobs":
        # background 0 with a few small label boxes, placed independently per
        # channel: large uniform regions are shared between the channels
        nch = shape[3] if len(shape) == 4 else 1
        chans = []
        for k in range(nch):
            c = np.zeros(shape[:3], dtype=np.int64)
            for _ in range(spec.get("nblobs", 3)):
                lo = [int(rng.integers(0, max(1, s - 2))) for s in shape[:3]]
                ext = [int(rng.integers(1, 5)) for _ in range(3)]
                c[lo[0]:lo[0] + ext[0], lo[1]:lo[1] + ext[1], lo[2]:lo[2] + ext[2]] = \
                    int(rng.integers(1, 6)) * spec.get("label_step", 1)
            chans.append(c)
        a = np.stack(chans, axis=-1) if len(shape) == 4 else chans[0]
    elif kind == "supervoxel":
        # over-segmentation: about 60 % of the voxels carry a label of their own, the rest a few
        # frequent labels - a compressed_segmentation block (8x8x8) holds > 256 distinct labels of
        # uneven frequency (16-bit codes)
        n = int(np.prod(shape[:3]))
        own = rng.random(n) < 0.6
        # the frequent labels lie below, between and above the voxel-own labels, and their
        # frequencies are not ordered like their values
        labels = np.array([3, 1000 + n // 3, 7, 1000 + 2 * n, 1000 + n // 2, 1000 + 3 * n, 1])
        frequent = rng.choice(labels, size=n, p=[0.06, 0.3, 0.2, 0.04, 0.1, 0.25, 0.05])
        a = np.where(own, 2 * np.arange(n) + 1001, frequent).astype(np.int64).reshape(shape[:3])
        if len(shape) == 4:
            a = np.stack([a + 7 * k for k in range(shape[3])], axis=-1)
    elif kind == "ramp":
        idx = np.indices(shape[:3]).sum(axis=0)
        a = (idx * 7 + rng.integers(0, 3, size=shape[:3])) % (hi + 1)
        if len(shape) == 4:
            a = np.stack([(a + 11 * k) % (hi + 1) for k in range(shape[3])], axis=-1)
    else:
        a = rng.integers(0, hi + 1, size=shape)
    if spec.get("zero_slab"):
        # background: a slab of zeros at the start of the longest axis; with a length that is a
        # multiple of the chunk size it contains ENTIRELY zero chunks (at every scale)
        ax = int(np.argmax(shape[:3]))
        sl = [slice(None)] * a.ndim
        sl[ax] = slice(0, int(spec["zero_slab"]))
        a[tuple(sl)] = 0
    if spec.get("allzero"):
        a = a * 0
    if spec.get("offset"):
        # large labels (beyond 2^31 / 2^53): only the non-zero voxels are shifted
        a = np.where(a != 0, a.astype(np.uint64) + np.uint64(spec["offset"]), np.uint64(0))
    if dt.kind == "f":
        a = a.astype(dt)
        if spec.get("quarters"):
            a = a + rng.integers(0, 2, size=a.shape).astype(dt) * dt.type(0.25)
        if spec.get("fractions"):
            # x.0, x.25, x.5 (ties), x.75 and some negative values: rounding to the nearest
            # integer differs from truncation, negatives saturate at 0 for unsigned targets
            a = a + rng.choice(np.array([0.0, 0.25, 0.5, 0.75]), size=a.shape).astype(dt)
            a = np.where(rng.random(a.shape) < 0.1, -a - dt.type(0.25), a).astype(dt)
    else:
        a = a.astype(dt)
    affine = np.diag(list(spec["voxel"]) + [1.0])
    if spec.get("rgb"):
        rgb = np.zeros(shape[:3], dtype=[("R", "u1"), ("G", "u1"), ("B", "u1")])
        for k, ch in enumerate("RGB"):
            rgb[ch] = (a + 40 * k).astype(np.uint8) if a.ndim == 3 else a[..., k].astype(np.uint8)
        img = nibabel.Nifti1Image(rgb, affine)
        a = np.stack([rgb["R"], rgb["G"], rgb["B"]], axis=-1)
    else:
        img = nibabel.Nifti1Image(a, affine, dtype=dt)
    nibabel.save(img, path)
    if spec.get("scl"):
        # header value scaling (scl_slope, scl_inter): the stored values stay `a`; the two
        # float32 fields at byte 112 of the NIfTI-1 header are patched (uncompressed .nii)
        import struct
        with open(path, "r+b") as f:
            f.seek(112)
            f.write(struct.pack("<ff", float(spec["scl"][0]), float(spec["scl"][1])))
    return a


# ---------------------------------------------------------------------------
# slice stacks (slices-to-precomputed)
# ---------------------------------------------------------------------------
# The tool's help text: the three letters give the anatomical direction each
# INPUT axis points to - first letter: along rows of a slice (left to right on
# screen, i.e. the column index), second: along columns (top to bottom, the row
# index), third: increasing slice number; R/L -> X, A/P -> Y, S/I -> Z; the
# output is RAS+, so an axis pointing to L, P or I is reversed.
_AXIS = {"R": 0, "L": 0, "A": 1, "P": 1, "S": 2, "I": 2}
_REVERSED = "LPI"


def reorient_to_ras(stack, code):
    """stack indexed [column, row, slice(, channel)] -> array indexed [x, y, z(, channel)]"""
    a = stack
    for k, letter in enumerate(code):
        if letter in _REVERSED:
            a = np.flip(a, axis=k)
    order = [[_AXIS[l] for l in code].index(ax) for ax in range(3)]
    return np.transpose(a, order + list(range(3, a.ndim)))


def stack_for(volume, code):
    """The stack [column, row, slice(, channel)] whose re-orientation is `volume` (x, y, z(, c))."""
    a = np.transpose(volume, [_AXIS[l] for l in code] + list(range(3, volume.ndim)))
    for k, letter in enumerate(code):
        if letter in _REVERSED:
            a = np.flip(a, axis=k)
    return a


def write_stack(base, name, stack, mode, fmt):
    """Write the stack as 2-D image files (lexicographic order = slice order).
    mode 'grey': one directory per channel; mode 'rgb': one directory of RGB
    images (3 channels).  Returns the list of directories."""
    import skimage.io
    ext = {"png": ".png", "tiff": ".tif"}[fmt]
    s4 = stack if stack.ndim == 4 else stack[..., np.newaxis]
    groups = [s4] if mode == "rgb" else [s4[..., k] for k in range(s4.shape[3])]
    dirs = []
    for g, block in enumerate(groups):
        d = os.path.join(base, "%s_%d" % (name, g))
        os.makedirs(d, exist_ok=True)
        for z in range(block.shape[2]):
            img = block[:, :, z]                       # [column, row(, rgb)]
            img = np.swapaxes(img, 0, 1)               # image files are [row, column(, rgb)]
            path = os.path.join(d, "slice_%04d%s" % (z, ext))
            img = np.ascontiguousarray(img)
            if fmt == "tiff":
                import tifffile          # say what the last axis is: thin slices look like RGB
                tifffile.imwrite(path, img, photometric="rgb" if mode == "rgb" else "minisblack")
            else:
                skimage.io.imsave(path, img, check_contrast=False)
        dirs.append(d)
    return dirs


def hand_fullres_info(vol_spec, volume):
    """The full-resolution info a user writes by hand for a slice stack
    (docs/script-usage.rst step 1; resolution in nanometres)."""
    nch = 1 if volume.ndim == 3 else volume.shape[3]
    return {"type": "image", "data_type": str(volume.dtype), "num_channels": int(nch),
            "scales": [{"size": [int(v) for v in volume.shape[:3]],
                        "resolution": [float(v) * 1e6 for v in vol_spec["voxel"]],
                        "voxel_offset": [0, 0, 0]}]}


# ---------------------------------------------------------------------------
# exact value re-encoding + interning
# ---------------------------------------------------------------------------
class Interner:
    def __init__(self):
        self.arrays = []
        self.raw = {}          # index -> the numpy array (for cutting chunk regions)
        self._idx = {}

    def add(self, arr):
        """arr: numpy array (any dtype).  Returns the 1-based index."""
        enc = encode_array(arr)
        key = hashlib.sha1(json.dumps(enc, separators=(",", ":")).encode()).hexdigest()
        k = self._idx.get(key)
        if k is None:
            self.arrays.append(enc)
            k = len(self.arrays)
            self._idx[key] = k
            self.raw[k] = np.array(arr)
        return k


def encode_array(arr):
    flat = np.asarray(arr).reshape(-1)
    if flat.dtype.kind in "ui":
        vals = [int(v) for v in flat.tolist()]
        den = 1
    elif flat.dtype.kind == "f":
        # values without a small exact rational form (the harness never asks for such values, but
        # the code under test may produce them): lossless hexadecimal float strings.  Such an array
        # only equals an identical array (TLC compares the strings).
        hexed = {"den": 1, "big": 1, "v": [float(v).hex() for v in flat.tolist()]}
        if not np.all(np.isfinite(flat)):
            return hexed
        ratios = [float(v).as_integer_ratio() for v in flat.tolist()]
        den = max([d for _, d in ratios] or [1])
        if den > (1 << 20):
            return hexed
        vals = [n * (den // d) for n, d in ratios]
        if den != 1 and any(abs(v) >= (1 << 31) for v in vals):
            return hexed
    else:
        raise tlc.MachineryError("unsupported dtype %s" % flat.dtype)
    big = any(abs(v) >= (1 << 31) for v in vals)
    if big:
        return {"den": 1, "big": 1, "v": [str(v) for v in vals]}
    return {"den": den, "big": 0, "v": vals}


# ---------------------------------------------------------------------------
# snapshots
# ---------------------------------------------------------------------------
_CHUNK_FLAT = re.compile(r"^\d+-\d+_\d+-\d+_\d+-\d+(\.gz)?$")
_CHUNK_DEEP = re.compile(r"^\d+-\d+/\d+-\d+/\d+-\d+(\.gz)?$")


def _sha(b):
    return hashlib.sha1(b).hexdigest()


def tree_hash(path):
    if not os.path.isdir(path):
        return "none"
    h = hashlib.sha1()
    for root, dirs, files in os.walk(path):
        dirs.sort()
        for f in sorted(files):
            p = os.path.join(root, f)
            with open(p, "rb") as fh:
                h.update((os.path.relpath(p, path) + "\0" + _sha(fh.read()) + "\n").encode())
    return h.hexdigest()


def _json_file(path):
    """('absent'|'ok'|'bad', sha1)"""
    if not os.path.isfile(path):
        return "absent", "-"
    with open(path, "rb") as f:
        b = f.read()
    try:
        json.loads(b.decode("utf-8"))
        return "ok", _sha(b)
    except ValueError:
        return "bad", _sha(b)


def count_stored(path, key, sharding):
    """Independent walk of the scale directory: how many chunks are stored."""
    sdir = os.path.join(path, key)
    if not os.path.isdir(sdir):
        return 0
    n = 0
    if sharding:
        for f in sorted(os.listdir(sdir)):
            if f.endswith(".shard") and os.path.isfile(os.path.join(sdir, f)):
                form, _ = parsers.parse_shard(os.path.join(sdir, f), f[:-len(".shard")],
                                              int(sharding.get("minishard_bits", 0)),
                                              sharding.get("minishard_index_encoding", "raw"),
                                              sharding.get("data_encoding", "raw"))
                for m in form["minis"]:
                    n += sum(1 for s in m["sizes"] if s != 0)
        return n
    for root, _, files in os.walk(sdir):
        for f in files:
            rel = os.path.relpath(os.path.join(root, f), sdir)
            if _CHUNK_FLAT.match(rel) or _CHUNK_DEEP.match(rel):
                n += 1
    return n


def _grid(cs, size):
    for z0 in range(0, size[2], cs[2]):
        for y0 in range(0, size[1], cs[1]):
            for x0 in range(0, size[0], cs[0]):
                yield (x0, min(x0 + cs[0], size[0]), y0, min(y0 + cs[1], size[1]),
                       z0, min(z0 + cs[2], size[2]))


def count_cells(path, key, cs, size):
    """Independent walk: number of grid cells of this chunking whose chunk file
    exists (flat or sub-directory layout, plain or .gz)."""
    n = 0
    for c in _grid(cs, size):
        flat = os.path.join(path, key, "%d-%d_%d-%d_%d-%d" % c)
        deep = os.path.join(path, key, "%d-%d" % c[0:2], "%d-%d" % c[2:4], "%d-%d" % c[4:6])
        if any(os.path.isfile(q) for q in (flat, flat + ".gz", deep, deep + ".gz")):
            n += 1
    return n


def _read_chunking(acc, enc, key, cs, size, channels, dt, interner):
    """Fetch and decode every chunk of one chunking with the given accessor.
    Returns (per-chunk status list, interned index of the whole scale or 0)."""
    sts = []
    whole = np.zeros((channels, size[2], size[1], size[0]), dtype=dt)
    for coords in _grid(cs, size):
        x0, x1, y0, y1, z0, z1 = coords
        try:
            buf = acc.fetch_chunk(key, coords)
        except Exception:
            sts.append("absent")
            continue
        try:
            whole[:, z0:z1, y0:y1, x0:x1] = enc.decode(buf, (x1 - x0, y1 - y0, z1 - z0))
            sts.append("ok")
        except Exception:
            sts.append("unreadable")
    return sts, (interner.add(whole) if all(t == "ok" for t in sts) else 0)


def mesh_files(path):
    """Files of the mesh directories m1 / m2 of a dataset: fragments (read back
    with the package's precomputed-mesh reader: st ok | bad) and link files
    (<label>:0, JSON {"fragments": [...]}).  Each with the sha1 of its bytes
    (.gz files: of the inflated bytes)."""
    import gzip as _gz
    out = []
    for md in MESH_DIRS:
        root = os.path.join(path, md)
        if not os.path.isdir(root):
            continue
        for fn in sorted(os.listdir(root)):
            p = os.path.join(root, fn)
            if not os.path.isfile(p):
                continue
            name = fn[:-3] if fn.endswith(".gz") else fn
            try:
                with (_gz.open(p, "rb") if fn.endswith(".gz") else open(p, "rb")) as f:
                    data = f.read()
            except (OSError, EOFError):
                out.append({"dir": md, "name": name, "kind": "other", "st": "bad", "hash": "-",
                            "label": -1, "frags": []})
                continue
            rec = {"dir": md, "name": name, "kind": "frag", "st": "bad", "hash": _sha(data), "label": -1,
                   "frags": []}
            m = _LINK_NAME.match(name)
            if m:
                rec["kind"], rec["label"] = "link", int(m.group(1))
                try:
                    fr = json.loads(data.decode("utf-8"))["fragments"]
                    if isinstance(fr, list) and all(isinstance(x, str) for x in fr):
                        rec["frags"], rec["st"] = fr, "ok"
                except (ValueError, KeyError, TypeError):
                    pass
            else:
                try:
                    import io as _io
                    from neuroglancer_scripts import mesh as ngmesh
                    v, t = ngmesh.read_precomputed_mesh(_io.BytesIO(data))
                    rec["st"] = "ok" if len(v) > 0 and len(t) > 0 else "bad"
                except Exception:
                    pass
            out.append(rec)
    return out


def write_mesh_inputs(base, rng):
    """One small GIfTI surface per fragment name (shapes of harness/mesh_driver.py,
    used read-only) and the label tables as CSV files."""
    import random

    import nibabel
    from nibabel.gifti import GiftiDataArray, GiftiImage

    from . import mesh_driver
    r = random.Random(int(rng.integers(0, 1 << 30)))
    d = os.path.join(base, "mesh_in")
    os.makedirs(d, exist_ok=True)
    paths = {}
    for name, shape in (("f1", mesh_driver.tetra), ("f2", mesh_driver.octa)):
        v, t = shape(r)
        gii = os.path.join(d, name + ".gii")
        with mesh_driver.silenced():
            nibabel.save(GiftiImage(darrays=[
                GiftiDataArray(np.array(v, dtype=np.float32), intent="NIFTI_INTENT_POINTSET",
                               datatype="NIFTI_TYPE_FLOAT32"),
                GiftiDataArray(np.array(t, dtype=np.int32), intent="NIFTI_INTENT_TRIANGLE",
                               datatype="NIFTI_TYPE_INT32")]), gii)
        paths[name] = gii
    for t, rows in TABLES.items():
        p = os.path.join(d, t + ".csv")
        with open(p, "w", newline="") as f:
            for label, frags in rows:
                f.write(",".join([str(label)] + frags) + "\n")
        paths[t] = p
    return paths


def _empty_info():
    return {"st": "none", "txt": "", "dtype": "-", "itemsize": 0, "channels": 0, "type": "-",
            "mesh": "none", "core": ""}


def snap_dir(path, interner, url=None):
    """Snapshot one dataset directory with a fresh accessor (url: read through
    this URL instead of the path - used for nothing but cross-checks)."""
    from neuroglancer_scripts import accessor as ngacc
    from neuroglancer_scripts import chunk_encoding
    out = {"fullres": "absent", "frh": "-", "transform": "absent", "trh": "-",
           "info": _empty_info(), "scales": [], "tree": tree_hash(path), "meshfiles": mesh_files(path)}
    if not os.path.isdir(path):
        return out
    out["fullres"], out["frh"] = _json_file(os.path.join(path, "info_fullres.json"))
    out["transform"], out["trh"] = _json_file(os.path.join(path, "transform.json"))
    acc = None
    try:
        try:
            acc = ngacc.get_accessor_for_url(url or path)
            raw = acc.fetch_file("info")
        except Exception:
            return out
        try:
            info = json.loads(raw.decode("utf-8"))
            if isinstance(info, dict):
                out["info"]["mesh"] = str(info.get("mesh", "none"))
            dt = np.dtype(info["data_type"])
            channels = int(info["num_channels"])
            scales = info["scales"]
            encoders = [chunk_encoding.get_encoder(info, s) for s in scales]
            grids = []
            for s in scales:
                cs = s["chunk_sizes"][0]
                size = s["size"]
                if len(cs) != 3 or len(size) != 3 or min(cs) < 1 or min(size) < 1:
                    raise ValueError("bad sizes")
                grids.append((cs, size))
        except Exception:
            out["info"] = dict(_empty_info(), st="bad", mesh=out["info"]["mesh"])
            return out
        out["info"] = {"st": "ok",
                       "txt": json.dumps(info, sort_keys=True, separators=(",", ":")),
                       "dtype": dt.name, "itemsize": int(dt.itemsize), "channels": channels,
                       "type": str(info.get("type", "-")), "mesh": str(info.get("mesh", "none")),
                       # the info without its mesh key (what a mesh command must leave alone)
                       "core": json.dumps({k: v for k, v in info.items() if k != "mesh"},
                                          sort_keys=True, separators=(",", ":"))}
        for s, enc, (cs, size) in zip(scales, encoders, grids):
            key = s["key"]
            nbytes = int(np.prod(size)) * channels * dt.itemsize
            if nbytes > MAX_BYTES:
                raise tlc.MachineryError("scale too large for the trace arithmetic: %d bytes" % nbytes)
            sharding = s.get("sharding")
            sts, vox = _read_chunking(acc, enc, key, cs, size, channels, dt, interner)
            nstored = count_stored(path, key, sharding)
            rec = {"key": key, "size": [int(v) for v in size], "chunk": [int(v) for v in cs],
                   "sharded": bool(sharding), "st": sts, "vox": vox, "nstored": nstored,
                   "enc": str(s.get("encoding", "-")),
                   # chunks of THIS chunking found on disk by an independent walk
                   "ncell": nstored if sharding else count_cells(path, key, cs, size),
                   "alt": []}
            # further chunkings the info declares for this scale (format: chunk_sizes is a list)
            for cs2 in ([] if sharding else s["chunk_sizes"][1:]):
                if len(cs2) != 3 or min(cs2) < 1:
                    continue
                sts2, vox2 = _read_chunking(acc, enc, key, cs2, size, channels, dt, interner)
                rec["alt"].append({"chunk": [int(v) for v in cs2], "st": sts2, "vox": vox2,
                                   "ncell": count_cells(path, key, cs2, size)})
            out["scales"].append(rec)
    finally:
        if acc is not None and hasattr(acc, "close"):
            atexit.unregister(acc.close)
    return out


# ---------------------------------------------------------------------------
# format-level view of a sharded destination (for the reader written from the
# format specification: spec/ShardFormat.tla SpecLookup, evaluated by TLC)
# ---------------------------------------------------------------------------
MAX_FMT_CHUNKS = 450


def _cmc(grid, pos):
    """compressed Morton code; used ONLY to know which chunk extent a stored
    identifier has, i.e. with which shape its payload must be decoded (TLC
    computes the identifiers itself when it looks chunks up)"""
    nb = [max(0, (g - 1).bit_length()) for g in grid]
    code, j = 0, 0
    for i in range(max(nb) if nb else 0):
        for d in range(3):
            if (1 << i) < grid[d]:
                code |= ((pos[d] >> i) & 1) << j
                j += 1
    return code


def spec_reader_view(dst_path, src_snap, interner):
    """Re-encode the .shard files of a sharded dataset (harness/parsers.py
    parse_shard: the file's own index followed exactly as the format says) and
    decode every stored payload with the package's chunk decoder.  Per scale:
      cfg    [grid, pb, mb, sb]
      files  abstract shard files; pay.data = <<index of the decoded payload>>
             (0 when it does not decode), << >> for zero-length entries
      chunks per grid position: pos, src = index of the SOURCE voxels of that
             chunk region (cut from the source's decoded scale; 0 if the source
             scale is not completely readable)
    Returns [] when the dataset is not sharded / too large for the trace."""
    from neuroglancer_scripts import chunk_encoding
    try:
        with open(os.path.join(dst_path, "info")) as f:
            info = json.load(f)
        scales = info["scales"]
        if not scales or not all("sharding" in s for s in scales):
            return []
        dt = np.dtype(info["data_type"])
        channels = int(info["num_channels"])
    except Exception:
        return []
    out, total = [], 0
    for s in scales:
        sh, key, size, cs = s["sharding"], s["key"], s["size"], s["chunk_sizes"][0]
        grid = [-(-size[d] // cs[d]) for d in range(3)]
        total += grid[0] * grid[1] * grid[2]
        if total > MAX_FMT_CHUNKS:
            return []
        enc = chunk_encoding.get_encoder(info, s)
        pos_of = {}
        for x in range(grid[0]):
            for y in range(grid[1]):
                for z in range(grid[2]):
                    pos_of[_cmc(grid, (x, y, z))] = (x, y, z)
        files = []
        sdir = os.path.join(dst_path, key)
        for fn in (sorted(os.listdir(sdir)) if os.path.isdir(sdir) else []):
            if not fn.endswith(".shard") or not os.path.isfile(os.path.join(sdir, fn)):
                continue
            form, _ = parsers.parse_shard(os.path.join(sdir, fn), fn[:-len(".shard")],
                                          int(sh.get("minishard_bits", 0)),
                                          sh.get("minishard_index_encoding", "raw"),
                                          sh.get("data_encoding", "raw"))
            for m in form["minis"]:
                acc_id = 0
                for i, pay in enumerate(m["pay"]):
                    acc_id += parsers.unbits(m["ids"][i])
                    if pay["st"] != "ok" or not pay["data"]:
                        continue
                    idx = 0
                    p = pos_of.get(acc_id)
                    if p is not None:
                        lo = [p[d] * cs[d] for d in range(3)]
                        hi = [min(lo[d] + cs[d], size[d]) for d in range(3)]
                        try:
                            a = enc.decode(bytes(pay["data"]), tuple(hi[d] - lo[d] for d in range(3)))
                            idx = interner.add(np.asarray(a))
                        except Exception:
                            idx = 0
                    pay["data"] = [idx]
            files.append(form)
        src_scale = [q for q in src_snap["scales"] if q["key"] == key]
        src_arr = interner.raw.get(src_scale[0]["vox"]) if src_scale and src_scale[0]["vox"] else None
        chunks = []
        for x in range(grid[0]):
            for y in range(grid[1]):
                for z in range(grid[2]):
                    lo = [x * cs[0], y * cs[1], z * cs[2]]
                    hi = [min(lo[d] + cs[d], size[d]) for d in range(3)]
                    si = 0
                    if src_arr is not None and list(src_arr.shape[1:]) == [size[2], size[1], size[0]]:
                        si = interner.add(src_arr[:, lo[2]:hi[2], lo[1]:hi[1], lo[0]:hi[0]])
                    chunks.append({"pos": [x, y, z], "src": si})
        out.append({"key": key, "cfg": {"grid": grid, "pb": int(sh.get("preshift_bits", 0)),
                                        "mb": int(sh.get("minishard_bits", 0)),
                                        "sb": int(sh.get("shard_bits", 0))},
                    "files": files, "chunks": chunks})
    return out


# ---------------------------------------------------------------------------
# scale-stats stdout -> tokens (lossless)
# ---------------------------------------------------------------------------
_PREFIXES = ["", "ki", "Mi", "Gi", "Ti", "Pi", "Ei"]
_READABLE = re.compile(r"^([0-9][0-9,]*)(?:\.([0-9]+))? ?(|ki|Mi|Gi|Ti|Pi|Ei)B$")
_SCALE_LINE = re.compile(
    r"^Scale (?P<key>.+?), (?P<shard>Unsharded|Sharded: \S+), chunk size \[(?P<cs>[0-9, ]+)\]: "
    r"(?P<n>[0-9,]+) chunks, (?P<nd>[0-9,]+) directories, raw uncompressed size (?P<size>.+)$")
_TOTAL_LINE = re.compile(
    r"^Total: (?P<n>[0-9,]+) chunks, (?P<nd>[0-9,]+) directories, raw uncompressed size (?P<size>.+)$")


def _readable_tokens(s):
    """'4.7 kiB' -> {"mant": 47, "fd": 1, "k": 1}; None when not of that form"""
    m = _READABLE.match(s.strip())
    if not m:
        return None
    ip, fp, pre = m.group(1).replace(",", ""), m.group(2) or "", m.group(3)
    if len(ip + fp) > 9:
        return None
    return {"mant": int(ip + fp), "fd": len(fp), "k": _PREFIXES.index(pre), "txt": s.strip()}


def parse_stats(stdout):
    rep = {"ok": True, "lines": [], "total": {"n": -1, "size": {"mant": 0, "fd": 0, "k": 0, "txt": ""}}}
    seen_total = False
    for line in stdout.splitlines():
        line = line.strip()
        m = _SCALE_LINE.match(line)
        if m:
            tok = _readable_tokens(m.group("size"))
            n = m.group("n").replace(",", "")
            if tok is None or len(n) > 9:
                rep["ok"] = False
                continue
            rep["lines"].append({"key": m.group("key"),
                                 "chunk": [int(v) for v in m.group("cs").split(",")],
                                 "sharded": m.group("shard") != "Unsharded",
                                 "n": int(n), "size": tok})
            continue
        m = _TOTAL_LINE.match(line)
        if m:
            tok = _readable_tokens(m.group("size"))
            n = m.group("n").replace(",", "")
            if tok is None or len(n) > 9:
                rep["ok"] = False
                continue
            rep["total"] = {"n": int(n), "size": tok}
            seen_total = True
    if not seen_total:
        rep["ok"] = False
    return rep


def _no_report():
    return {"ok": False, "lines": [], "total": {"n": -1, "size": {"mant": 0, "fd": 0, "k": 0, "txt": ""}}}


# ---------------------------------------------------------------------------
# loopback static server implementing the documented layout
# ---------------------------------------------------------------------------
class _Handler(http.server.BaseHTTPRequestHandler):
    """GET/HEAD of <root>/<path>.  Chunks are requested with the flat name
    key/x0-x1_y0-y1_z0-z1 and may be stored flat or in sub-directories, plain
    or .gz (served with Content-Encoding: gzip, as neuroglancer-docker does);
    Range requests (shard files) are honoured."""
    root = "."
    fault = {}
    protocol_version = "HTTP/1.1"

    def log_message(self, *a):
        pass

    def _resolve(self):
        rel = self.path.split("?")[0].lstrip("/")
        if ".." in rel.split("/"):
            return None, False
        cands = [rel]
        parts = rel.split("/")
        if len(parts) >= 2 and _CHUNK_FLAT.match(parts[-1]):
            cands.append("/".join(parts[:-1] + parts[-1].split("_")))
        for c in cands:
            p = os.path.join(self.root, c)
            if os.path.isfile(p):
                return p, False
            if os.path.isfile(p + ".gz"):
                return p + ".gz", True
        return None, False

    def _serve(self, body):
        p, gz = self._resolve()
        rel = self.path.split("?")[0].lstrip("/")
        if body and self.fault.get("left", 0) > 0 and _CHUNK_FLAT.match(rel.split("/")[-1]):
            # transient server fault: the first chunk request(s) get 503 Service Unavailable
            self.fault["left"] -= 1
            self.send_response(503)
            self.send_header("Content-Length", "0")
            self.end_headers()
            return
        if p is None:
            self.send_response(404)
            self.send_header("Content-Length", "0")
            self.end_headers()
            return
        with open(p, "rb") as f:
            data = f.read()
        status = 200
        rng = self.headers.get("Range")
        extra = []
        if rng and not gz:
            m = re.match(r"bytes=(\d+)-(\d*)$", rng.strip())
            if m:
                a = int(m.group(1))
                b = int(m.group(2)) if m.group(2) else len(data) - 1
                b = min(b, len(data) - 1)
                extra.append(("Content-Range", "bytes %d-%d/%d" % (a, b, len(data))))
                data = data[a:b + 1]
                status = 206
        self.send_response(status)
        self.send_header("Content-Type", "application/octet-stream")
        if gz:
            self.send_header("Content-Encoding", "gzip")
        for k, v in extra:
            self.send_header(k, v)
        self.send_header("Accept-Ranges", "bytes")
        self.send_header("Content-Length", str(len(data)))
        self.end_headers()
        if body:
            self.wfile.write(data)

    def do_GET(self):
        self._serve(True)

    def do_HEAD(self):
        self._serve(False)


class _Server(socketserver.ThreadingMixIn, http.server.HTTPServer):
    daemon_threads = True
    allow_reuse_address = True


class LoopbackServer:
    """with LoopbackServer(root) as base_url: ..."""
    def __init__(self, root, fail_chunk_requests=0):
        self.fault = {"left": 0, "arm": int(fail_chunk_requests)}
        handler = type("H", (_Handler,), {"root": root, "fault": self.fault})
        self.srv = _Server(("127.0.0.1", 0), handler)
        self.thread = threading.Thread(target=self.srv.serve_forever, daemon=True)

    def __enter__(self):
        self.thread.start()
        return "http://127.0.0.1:%d" % self.srv.server_address[1]

    def arm(self):
        """the next `fail_chunk_requests` chunk requests are answered with 503"""
        self.fault["left"] = self.fault["arm"]

    def __exit__(self, *a):
        self.srv.shutdown()
        self.srv.server_close()


# ---------------------------------------------------------------------------
# running commands
# ---------------------------------------------------------------------------
def sub_env(tmpdir=None):
    env = dict(os.environ)
    if tmpdir:
        # the sharded writer leaves its scratch directories behind: keep them
        # inside the program's own scratch directory (removed afterwards)
        env["TMPDIR"] = tmpdir
    # start-up dominates: keep the numeric libraries from spawning thread pools
    for k in ("OMP_NUM_THREADS", "OPENBLAS_NUM_THREADS", "MKL_NUM_THREADS"):
        env.setdefault(k, "1")
    return env


_PROGRESS = re.compile(r"\d+%\|.*\|\s*\d+/\d+")


def run_tool(module, args, cwd, timeout=120):
    argv = [sys.executable, "-m", "neuroglancer_scripts.scripts." + module] + list(args)
    tmpdir = os.path.join(cwd, "tmp")
    os.makedirs(tmpdir, exist_ok=True)
    try:
        p = subprocess.run(argv, cwd=cwd, env=sub_env(tmpdir), capture_output=True, timeout=timeout)
        rc, out, err = p.returncode, p.stdout, p.stderr
    except subprocess.TimeoutExpired as ex:
        rc, out, err = 124, ex.stdout or b"", (ex.stderr or b"") + b"\nTIMEOUT"
    out = out.decode("utf-8", "replace")
    err = err.decode("utf-8", "replace").replace("\r", "\n")
    # progress bars carry timings: drop them so that records are reproducible
    lines = [l for l in err.splitlines() if l.strip() and not _PROGRESS.search(l)]
    tail = "\n".join(lines[-6:])[-1200:]
    return rc, out, tail, argv[2:]


def _type_enc_flags(c, explicit):
    fl = []
    if explicit or c["type"] != "image":
        fl += ["--type", c["type"]]
    if explicit or c["enc"] != "raw":
        fl += ["--encoding", c["enc"]]
    return fl


def build_args(c, env):
    """Command line (module, args) of a model-level command.
    env: vol (path), dirs {name: path}, lay {name: layout name}, explicit (bool),
    urls {name: url} (optional remote view of a directory used as SOURCE),
    shflag {name: bool} (pass --sharding to Vol as the sharded example does),
    tgt (optional --target-chunk-size for generate-scales-info)."""
    op = c["op"]
    d = env["dirs"][c["d"]]
    lay = LAYOUTS[env["lay"][c["d"]]]
    explicit = env.get("explicit", False)
    sharg = ",".join(str(v) for v in env["shard_triple"]) if env.get("shard_triple") else "1,1,0"
    igs = ["--ignore-scaling"] if env.get("ignore_scaling") else []   # same option on every volume command
    if env.get("input_range"):
        lo, hi = env["input_range"]
        igs = igs + ([] if lo is None else ["--input-min", str(lo)]) + ["--input-max", str(hi)]
    if op == "GenInfo":
        sh = ["--sharding", sharg] if c["sh"] in SHARDING_ARG else []
        return MODULES[op], (["--generate-info"] + sh + igs + [f for f in lay if f != "--flat"]
                             + [env["vol"], d])
    if op == "GenScales":
        mx = {"one": ["--max-scales", "1"], "two": ["--max-scales", "2"]}.get(c["max"], [])
        tgt = ["--target-chunk-size", str(env["tgt"])] if env.get("tgt") else []
        return MODULES[op], (_type_enc_flags(c, explicit) + mx + tgt
                             + [os.path.join(env["dirs"][c["src"]], "info_fullres.json"), d])
    if op == "Vol":
        # the sharded example of the documentation repeats --sharding here; a
        # user does so only for a directory whose info declares sharding
        sh = ["--sharding", sharg] if (env.get("shflag", {}).get(c["d"])
                                         and _info_declares_sharding(d)) else []
        return MODULES[op], lay + sh + igs + [env["vol"], d]
    # --outside-value: an option of the program, given to every command that downscales
    ov = ["--outside-value", str(env["outside_value"])] if env.get("outside_value") is not None else []
    if op == "Compute":
        m = ["--downscaling-method", c["m"]] if (explicit or c["m"] != "auto") else []
        return MODULES[op], lay + m + ov + [d]
    if op == "Convert":
        src = env.get("urls", {}).get(c["src"]) or env["dirs"][c["src"]]
        return MODULES[op], lay + (["--copy-info"] if c["copy"] == "copy" else []) + [src, d]
    if op == "Stats":
        return MODULES[op], [d]
    if op == "Slices":
        return MODULES[op], lay + ["--input-orientation", c["code"]] + env["stacks"][c["code"]] + [d]
    nogz = [f for f in lay if f == "--no-gzip"]            # these tools have no --flat
    if op == "Mesh":
        return MODULES[op], nogz + ["--mesh-dir", c["m"], "--mesh-name", c["code"], env["mesh_in"][c["code"]], d]
    if op == "Link":
        return MODULES[op], nogz + [env["mesh_in"][c["m"]], d]
    if op == "AllInOne":
        m = ["--downscaling-method", c["m"]] if (explicit or c["m"] != "auto") else []
        return MODULES[op], lay + _type_enc_flags(c, explicit) + m + ov + igs + [env["vol"], d]
    raise tlc.MachineryError("unknown op %r" % op)


def apply_hand_info(c, env):
    """The user writes info_fullres.json by hand (harness action).  Refused
    (exit 1) when the file exists."""
    d = env["dirs"][c["d"]]
    p = os.path.join(d, "info_fullres.json")
    if os.path.exists(p):
        return 1
    os.makedirs(d, exist_ok=True)
    info = json.loads(json.dumps(env["hand_info"]))
    if c["sh"] in SHARDING_SPEC:
        spec = dict(SHARDING_SPEC[c["sh"]])
        spec["minishard_index_encoding"] = spec["data_encoding"] = env.get("shard_enc", "gzip")
        info["scales"][0]["sharding"] = spec
    with open(p, "w") as f:
        json.dump(info, f, indent=2)
    return 0


def apply_obstruct(c, env):
    """ENVIRONMENT (harness action): something else occupies a path the tools
    have to create.  c['m']:
      'last' / '-'  a regular file at the path of the LAST scale's directory
      'first'       a DIRECTORY at the path of one chunk file (layout of the
                    directory: flat / sub-directories, .gz or not) or, for a
                    sharded info, of the first shard file of the FIRST scale
      'info'        a directory named 'info' (no info may exist yet)
    Refused (exit 1) when the precondition does not hold / the path exists."""
    d = env["dirs"][c["d"]]
    what = c["m"] if c["m"] in ("first", "info") else "last"
    if what == "info":
        p = os.path.join(d, "info")
        if os.path.lexists(p):
            return 1
        os.makedirs(p)
        return 0
    try:
        with open(os.path.join(d, "info")) as f:
            info = json.load(f)
        scale = info["scales"][0 if what == "first" else -1]
        key = scale["key"]
    except (OSError, ValueError, KeyError, IndexError):
        return 1
    if what == "last":
        p = os.path.join(d, key)
        if os.path.lexists(p):
            return 1
        with open(p, "wb") as f:
            f.write(b"not a directory\n")
        return 0
    if os.path.lexists(os.path.join(d, key)):
        return 1
    sharding = scale.get("sharding")
    if sharding:
        digits = (int(sharding.get("shard_bits", 0)) + 3) // 4
        p = os.path.join(d, key, "0" * digits + ".shard")
    else:
        cs, size = scale["chunk_sizes"][0], scale["size"]
        co = (0, min(cs[0], size[0]), 0, min(cs[1], size[1]), 0, min(cs[2], size[2]))
        lay = LAYOUTS[env["lay"][c["d"]]]
        if "--flat" in lay:
            p = os.path.join(d, key, "%d-%d_%d-%d_%d-%d" % co)
        else:
            p = os.path.join(d, key, "%d-%d" % co[0:2], "%d-%d" % co[2:4], "%d-%d" % co[4:6])
        if "--no-gzip" not in lay:
            p += ".gz"
    os.makedirs(p)
    return 0


def apply_damage(c, env):
    """ENVIRONMENT (harness action): the LAST chunk file (largest coordinates) of
    the FIRST scale of an unsharded dataset is removed (c['m'] = 'remove'), cut
    to half its length ('truncate') or moved aside ('hide'; op Restore puts it
    back).  Refused (exit 1) without such a file."""
    d = env["dirs"][c["d"]]
    try:
        with open(os.path.join(d, "info")) as f:
            key = json.load(f)["scales"][0]["key"]
    except (OSError, ValueError, KeyError, IndexError):
        return 1
    if c["op"] == "Restore":
        hidden = env.setdefault("hidden", {}).pop(c["d"], None)
        if not hidden:
            return 1
        os.replace(hidden[1], hidden[0])
        return 0
    found = []
    for root, _, files in os.walk(os.path.join(d, key)):
        for fn in files:
            rel = os.path.relpath(os.path.join(root, fn), os.path.join(d, key))
            if _CHUNK_FLAT.match(rel) or _CHUNK_DEEP.match(rel):
                found.append((tuple(int(v) for v in re.findall(r"\d+", rel)), os.path.join(root, fn)))
    if not found:
        return 1
    p = max(found)[1]
    if c["m"] == "truncate":
        with open(p, "rb") as f:
            data = f.read()
        with open(p, "wb") as f:
            f.write(data[:len(data) // 2])
    elif c["m"] == "hide":
        aside = os.path.join(os.path.dirname(d), "hidden_" + c["d"])
        os.replace(p, aside)
        env.setdefault("hidden", {})[c["d"]] = (p, aside)
    else:
        os.remove(p)
    return 0


def _info_declares_sharding(d):
    try:
        with open(os.path.join(d, "info")) as f:
            scales = json.load(f)["scales"]
        return bool(scales) and all("sharding" in s for s in scales)
    except (OSError, ValueError, KeyError):
        return False


def apply_edit(c, env):
    """The documented hand edit of an info file (harness action, not a tool):
    add / remove the sharding specification, optionally set data_type
    (c['type'] holds the new data type or '-').  Refused (exit 1) when there is
    no info or chunks exist already."""
    d = env["dirs"][c["d"]]
    p = os.path.join(d, "info")
    if not os.path.isfile(p):
        return 1
    try:
        with open(p) as f:
            info = json.load(f)
        keys = [s["key"] for s in info["scales"]]
    except (ValueError, KeyError, TypeError):
        return 1                      # not an info a user could edit this way
    for key in keys:
        if os.path.isdir(os.path.join(d, key)):
            return 1
    for j, s in enumerate(info["scales"]):
        if c["sh"] in SHARDING_SPEC and env.get("shard_per_scale"):
            # every scale gets ITS OWN sharding parameters (normal for datasets made by other
            # tools): [[minishard, shard, preshift bits], data encoding, index encoding]
            tr, denc, ienc = env["shard_per_scale"][j % len(env["shard_per_scale"])]
            s["sharding"] = dict(SHARDING_SPEC[c["sh"]], minishard_bits=int(tr[0]), shard_bits=int(tr[1]),
                                 preshift_bits=int(tr[2]), data_encoding=denc, minishard_index_encoding=ienc)
        elif c["sh"] in SHARDING_SPEC:
            spec = dict(SHARDING_SPEC[c["sh"]])
            if env.get("shard_triple"):
                mb, sb, pb = env["shard_triple"]
                spec.update({"minishard_bits": int(mb), "shard_bits": int(sb), "preshift_bits": int(pb)})
            enc = env.get("shard_enc", "gzip")
            spec["minishard_index_encoding"] = env.get("shard_index_enc", enc)
            spec["data_encoding"] = enc
            s["sharding"] = spec
        elif c["sh"] == "nosh":
            s.pop("sharding", None)
    if c["type"] not in ("-", "image", "segmentation"):
        info["data_type"] = c["type"]
    if c["enc"].startswith("bs"):
        # other compressed_segmentation block size: "bs4" or "bs16x8x4"; "bs8/4/16x16x4" gives
        # the scales DIFFERENT block sizes (scale j gets entry j, cyclically)
        per_scale = []
        for part in c["enc"][2:].split("/"):
            dims = [int(v) for v in part.split("x")]
            per_scale.append(dims * 3 if len(dims) == 1 else dims)
        for j, s in enumerate(info["scales"]):
            if s.get("encoding") == "compressed_segmentation":
                s["compressed_segmentation_block_size"] = per_scale[j % len(per_scale)]
    for cs in _extra_chunkings(c["m"]):
        # the format allows several entries in chunk_sizes: declare one more chunking
        for s in info["scales"]:
            if cs not in s["chunk_sizes"]:
                s["chunk_sizes"].append(list(cs))
    with open(p, "w") as f:
        json.dump(info, f, separators=(",", ":"), sort_keys=True)
    return 0


def _extra_chunkings(m):
    """'cs8' -> [[8,8,8]]; 'cs8x8x4' -> [[8,8,4]]; 'cs8,4' -> [[8,8,8],[4,4,4]]; else []"""
    if not m.startswith("cs"):
        return []
    out = []
    for part in m[2:].split(","):
        dims = [int(v) for v in part.split("x")]
        out.append(dims * 3 if len(dims) == 1 else dims)
    return out


def apply_rechunk(c, env):
    """Harness action (not a tool): the user re-tiles an existing unsharded
    dataset with a script on the package's public PrecomputedIO API - every
    completely stored scale is read through its first chunking and written again
    with the additional chunk sizes given in c['m'] ('cs8', 'cs8x8x4', 'cs8,4'),
    which are then listed in the info (hand edit).  This is how a dataset with
    several chunk_sizes per scale comes into being (no tool generates one).
    Refused (exit 1) without an info or for a sharded info."""
    try:
        return _apply_rechunk(c, env)
    except Exception:
        return 1          # the code under test must never make the harness fall over


def _apply_rechunk(c, env):
    from neuroglancer_scripts import chunk_encoding, file_accessor
    d = env["dirs"][c["d"]]
    p = os.path.join(d, "info")
    if not os.path.isfile(p):
        return 1
    try:
        with open(p) as f:
            info = json.load(f)
        if any("sharding" in s for s in info["scales"]):
            return 1
    except (ValueError, KeyError, TypeError):
        return 1
    lay = LAYOUTS[env["lay"][c["d"]]]
    acc = file_accessor.FileAccessor(d, flat="--flat" in lay, gzip="--no-gzip" not in lay)
    # chunk codec and accessor are used directly (no PrecomputedIO): a defect in the
    # high-level read / write path must show in the tools, not in this set-up step
    codec = {s["key"]: chunk_encoding.get_encoder(info, s) for s in info["scales"]}
    wholes = {}
    dt = np.dtype(info["data_type"])
    for s in info["scales"]:
        size = s["size"]
        whole = np.zeros((info["num_channels"], size[2], size[1], size[0]), dtype=dt)
        try:
            for co in _grid(s["chunk_sizes"][0], size):
                whole[:, co[4]:co[5], co[2]:co[3], co[0]:co[1]] = codec[s["key"]].decode(
                    acc.fetch_chunk(s["key"], co), (co[1] - co[0], co[3] - co[2], co[5] - co[4]))
            wholes[s["key"]] = whole
        except Exception:
            pass                      # scale not completely stored: only declared
    new_info = json.loads(json.dumps(info))
    extra = _extra_chunkings(c["m"])
    for s in new_info["scales"]:
        for cs in extra:
            if cs not in s["chunk_sizes"]:
                s["chunk_sizes"].append(list(cs))
    with open(p, "w") as f:
        json.dump(new_info, f, separators=(",", ":"), sort_keys=True)
    for s in new_info["scales"]:
        if s["key"] not in wholes:
            continue
        for cs in s["chunk_sizes"][1:]:
            for co in _grid(cs, s["size"]):
                enc = codec[s["key"]]
                acc.store_chunk(enc.encode(np.ascontiguousarray(
                    wholes[s["key"]][:, co[4]:co[5], co[2]:co[3], co[0]:co[1]])), s["key"], co,
                    mime_type=enc.mime_type)
    return 0


def _action_table():
    return {"Edit": (apply_edit, "edit info"), "HandInfo": (apply_hand_info, "write info_fullres.json"),
            "Obstruct": (apply_obstruct, "obstruct"), "Rechunk": (apply_rechunk, "re-tile dataset"),
            "Damage": (apply_damage, "damage one chunk file:"), "Restore": (apply_damage, "restore chunk file")}


_ACTIONS = {}


class Session:
    """One program being run: scratch directories, volume, interned arrays and
    the recorded case.  step(c) runs one command and records the event;
    step(c, forced=(rc, stdout, stderr tail, argv)) records an event whose
    command was executed elsewhere (in-process function-API conversions)."""

    def __init__(self, workdir, prog, name):
        self.prog = prog
        self.base = base = os.path.join(workdir, name)
        os.makedirs(base, exist_ok=True)
        self.dirs = dirs = {"A": os.path.join(base, "A"), "B": os.path.join(base, "B")}
        volpath = os.path.join(base, "vol.nii")
        rng = np.random.default_rng(prog.get("seed", 0))
        vol = make_volume(volpath, prog["vol"], rng)
        self.it = it = Interner()
        # the input volume in the order of a decoded scale (C, Z, Y, X)
        v4 = vol if vol.ndim == 4 else vol[..., np.newaxis]
        scl = prog["vol"].get("scl")
        # the values a volume command is documented to convert: header scaling applied
        # (slope * stored + inter) unless --ignore-scaling is given; with --input-max
        # (and --input-min, default 0) the range [min, max] is mapped to the output range,
        # which is [0, 1] for the float32 info such a conversion gets
        vexp = v4 if (not scl or prog.get("ignore_scaling")) else v4.astype(np.float64) * scl[0] + scl[1]
        rngopt = prog.get("input_range")
        if rngopt:
            lo = 0.0 if rngopt[0] is None else float(rngopt[0])
            vexp = (vexp.astype(np.float64) - lo) / (float(rngopt[1]) - lo)
        volidx = it.add(np.moveaxis(vexp, (0, 1, 2, 3), (3, 2, 1, 0)))
        self.env = env = {
            "vol": volpath, "dirs": dirs, "lay": prog["lay"], "explicit": prog.get("explicit", False),
            "urls": {}, "shflag": {}, "tgt": prog.get("tgt"), "shard_enc": prog.get("shard_enc", "gzip"),
            "ignore_scaling": bool(prog.get("ignore_scaling")), "input_range": rngopt,
            "outside_value": prog.get("outside_value"),
            "stacks": {}, "hand_info": hand_fullres_info(prog["vol"], v4 if vol.ndim == 4 else vol),
            "shard_triple": prog.get("shard_triple"), "shard_per_scale": prog.get("shard_per_scale"),
            "shard_index_enc": prog.get("shard_index_enc", prog.get("shard_enc", "gzip"))}
        self.servers = []
        self.case = case = {"cfg": {"perfect": bool(prog["vol"].get("perfect", True)),
                                    "nall": int(prog["vol"].get("nall", 3))},
                            "vol": volidx, "svol": {"-": 0}, "tables": TABLES, "init": {}, "events": [],
                            "_log": []}
        # slice stacks: one per orientation code used, built so that its documented
        # re-orientation is the volume; the EXPECTED array handed to TLC is the
        # harness' own re-orientation of the stack that was written
        smode = "rgb" if prog["vol"].get("rgb") else "grey"
        for c in prog["cmds"]:
            if c["op"] == "Slices" and c["code"] not in env["stacks"]:
                if vol.dtype not in (np.uint8, np.uint16):
                    raise tlc.MachineryError("slice stacks need uint8/uint16 volumes, not %s" % vol.dtype)
                st = stack_for(vol, c["code"])
                env["stacks"][c["code"]] = write_stack(base, "stack_" + c["code"], st, smode,
                                                       prog.get("slice_format", "png"))
                back = reorient_to_ras(st, c["code"])
                b4 = back if back.ndim == 4 else back[..., np.newaxis]
                case["svol"][c["code"]] = it.add(np.moveaxis(b4, (0, 1, 2, 3), (3, 2, 1, 0)))
        if any(c["op"] in ("Mesh", "Link") for c in prog["cmds"]):
            env["mesh_in"] = write_mesh_inputs(base, rng)
        for dn in prog.get("http", []):
            srv = LoopbackServer(dirs[dn], fail_chunk_requests=1)
            env["urls"][dn] = srv.__enter__()
            self.servers.append(srv)
        case["init"] = {k: snap_dir(p, it) for k, p in dirs.items()}

    def step(self, c, forced=None):
        env, case, dirs, it, prog = self.env, self.case, self.dirs, self.it, self.prog
        if not _ACTIONS:
            _ACTIONS.update(_action_table())
        report = _no_report()
        if forced is not None:
            rc, out, tail, args = forced
            if c["op"] == "Stats" and rc == 0:
                report = parse_stats(out)
        elif c["op"] in _ACTIONS:
            fn, label = _ACTIONS[c["op"]]
            try:
                rc, tail = fn(c, env), ""
            except Exception as exc:          # recorded, never raised: the trace goes on
                rc, tail = 1, "harness action failed: %s: %s" % (type(exc).__name__, exc)
            out, args = "", ["<%s %s>" % (label, c["m"] if c["m"] != "-" else "")]
        else:
            if c["op"] == "Convert" and c["m"] == "srcfault":
                if not self.servers:
                    raise tlc.MachineryError("Convert with a source fault needs a remote source")
                for srv in self.servers:
                    srv.arm()
            module, args = build_args(c, env)
            rc, out, tail, args = run_tool(module, args, self.base)
            if c["op"] == "Stats" and rc == 0:
                report = parse_stats(out)
            if c["op"] == "GenInfo" and c["sh"] in SHARDING_ARG and prog.get("docs_shflag", True):
                env["shflag"][c["d"]] = True
        snap_before = case["events"][-1]["snap"] if case["events"] else case["init"]
        ev = {"cmd": {f: c[f] for f in FIELDS}, "exit": rc,
              "snap": {k: snap_dir(p, it) for k, p in dirs.items()},
              "report": report, "remote": 1 if (c["op"] == "Convert" and c["src"] in env["urls"]) else 0}
        ev["fmt"] = []
        if c["op"] == "Convert" and rc == 0 and c["src"] in dirs:
            try:
                ev["fmt"] = spec_reader_view(dirs[c["d"]], snap_before[c["src"]], it)
            except tlc.MachineryError:
                raise
            except Exception:
                ev["fmt"] = []
        case["events"].append(ev)
        case["_log"].append({"argv": [a.replace(self.base, ".") for a in args],
                             "exit": rc, "stderr": tail,
                             "stdout": out[-600:] if c["op"] == "Stats" else ""})

    def close(self):
        for srv in self.servers:
            srv.__exit__()
        shutil.rmtree(self.base, ignore_errors=True)
        self.case["arrays"] = self.it.arrays
        return self.case


def run_program(workdir, prog, name="p"):
    """prog: {"vol": volume spec, "cmds": [command dicts], "lay": {"A":..,"B":..},
    "explicit": bool, "seed": int, optional "http": [dir names served over
    loopback when used as a Convert source], "tgt", "shard_enc", "shard_index_enc",
    "shard_triple" [minishard, shard, preshift bits], "shard_per_scale",
    "ignore_scaling", "input_range" [min or None, max]}.
    Returns the recorded case (dict) for Trace_Pipeline."""
    s = None
    try:
        s = Session(workdir, prog, name)
        for c in prog["cmds"]:
            s.step(c)
    finally:
        case = s.close() if s is not None else None
    return case


_INPROC = r"""
import contextlib, io, json, sys, traceback
from neuroglancer_scripts.scripts import convert_chunks as cc
from neuroglancer_scripts.scripts import scale_stats as ss
out = []
for call in json.loads(sys.argv[1]):
    buf = io.StringIO()
    try:
        with contextlib.redirect_stdout(buf):
            if call["kind"] == "convert":      # default options, as an API user calls it
                r = cc.convert_chunks(call["src"], call["dst"], copy_info=True)
            else:
                r = ss.show_scale_file_info(call["url"])
        out.append([int(r or 0), buf.getvalue(), ""])
    except BaseException as exc:
        out.append([1, buf.getvalue(), "".join(traceback.format_exception_only(type(exc), exc))[-400:]])
sys.stdout.write("INPROC" + json.dumps(out) + "\n")
"""


def run_linked(workdir, progs, name="g"):
    """Programs whose LAST commands (prog["link_calls"] of them, default 1) are
    executed through the FUNCTION API in ONE helper interpreter:
      Convert --copy-info -> scripts.convert_chunks.convert_chunks(src, dst, copy_info=True)
      Stats               -> scripts.scale_stats.show_scale_file_info(dir)
    Call order: the first in-process command of every program in list order,
    then the second ones, ... (programs A [2 calls], B [1 call] give A, B, A).
    Everything before runs as usual.  Each program gets its own trace."""
    sessions = []
    try:
        plan = []
        for k, p in enumerate(progs):
            ncall = int(p.get("link_calls", 1))
            tail = p["cmds"][-ncall:]
            for c in tail:
                if not ((c["op"] == "Convert" and c["copy"] == "copy") or c["op"] == "Stats"):
                    raise tlc.MachineryError("in-process commands must be Convert --copy-info or Stats")
            s = Session(workdir, p, "%s_%d" % (name, k))
            sessions.append(s)
            for c in p["cmds"][:-ncall]:
                s.step(c)
            plan.append(tail)
        order = [(k, j) for j in range(max(len(t) for t in plan)) for k in range(len(plan)) if j < len(plan[k])]
        calls = []
        for k, j in order:
            c, s = plan[k][j], sessions[k]
            calls.append({"kind": "convert", "src": s.dirs[c["src"]], "dst": s.dirs[c["d"]]}
                         if c["op"] == "Convert" else {"kind": "stats", "url": s.dirs[c["d"]]})
        tmpdir = os.path.join(sessions[0].base, "tmp")
        os.makedirs(tmpdir, exist_ok=True)
        p = subprocess.run([sys.executable, "-c", _INPROC, json.dumps(calls)], env=sub_env(tmpdir),
                           capture_output=True, timeout=300)
        text = p.stdout.decode("utf-8", "replace")
        i = text.rfind("INPROC")
        if i < 0:
            raise tlc.MachineryError("in-process helper failed: %s"
                                     % p.stderr.decode("utf-8", "replace")[-600:])
        res = json.loads(text[i + len("INPROC"):].strip().splitlines()[0])
        # events are recorded per program in its own command order
        for k, s in enumerate(sessions):
            for j, c in enumerate(plan[k]):
                n = order.index((k, j))
                rc, out, msg = res[n]
                what = ("convert_chunks(%s, %s, copy_info=True)" % (calls[n]["src"], calls[n]["dst"])
                        if calls[n]["kind"] == "convert" else "show_scale_file_info(%s)" % calls[n]["url"])
                s.step(c, forced=(rc, out, msg, ["<in-process call %d of %d: %s>" % (n + 1, len(calls), what)]))
    finally:
        cases = [s.close() for s in sessions]
    return cases


def run_programs(workdir, progs, workers=12):
    """Run programs in parallel (process start-up dominates).  Order kept.
    Programs carrying the same "link" value run as one linked group (see
    run_linked), in list order."""
    out = [None] * len(progs)
    groups = {}
    for k, p in enumerate(progs):
        if p.get("link") is not None:
            groups.setdefault(p["link"], []).append(k)
    with concurrent.futures.ThreadPoolExecutor(max_workers=workers) as ex:
        futs = {}
        for k, p in enumerate(progs):
            if p.get("link") is None:
                futs[ex.submit(run_program, workdir, p, "p%04d" % k)] = [k]
        for g, ks in groups.items():
            futs[ex.submit(run_linked, workdir, [progs[k] for k in ks], "g%04d" % ks[0])] = ks
        for f in concurrent.futures.as_completed(futs):
            ks = futs[f]
            r = f.result()
            if len(ks) == 1 and progs[ks[0]].get("link") is None:
                out[ks[0]] = r
            else:
                for k, c in zip(ks, r):
                    out[k] = c
    return out


def strip_case(case):
    """The part of a recorded case that TLC sees."""
    return {k: v for k, v in case.items() if not k.startswith("_")}
