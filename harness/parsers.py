"""Independent, byte-level re-encoders.  Nothing here takes a decision about
the property: files are turned into the abstract forms the TLA+ oracle layer
reads (words, bit sequences, byte lists); judging is TLC's job."""
import struct
import zlib

BIG = 4194304  # 2^22, saturation bound shared with ShardFormat.tla


def bits(n):
    """Non-negative int -> little-endian bit list without trailing zeros."""
    n = int(n)
    assert n >= 0
    out = []
    while n:
        out.append(n & 1)
        n >>= 1
    return out


def unbits(b):
    return sum(v << i for i, v in enumerate(b))


def sat(n):
    return int(n) if n < BIG else BIG


def inflate_any(buf):
    """Inflate RFC1950 (zlib) or RFC1952 (gzip) framing; report which."""
    try:
        d = zlib.decompressobj(wbits=47)  # auto-detect zlib/gzip header
        out = d.decompress(buf) + d.flush()
        if not d.eof:
            return None, "truncated"
        framing = "gzip" if buf[:2] == b"\x1f\x8b" else "zlib"
        return out, framing
    except zlib.error:
        return None, "error"


def parse_shard(path_or_bytes, name, mb, index_enc="raw", data_enc="raw"):
    """Re-encode one .shard file into the abstract form of ShardFormat.tla.

    Follows the file's own shard index exactly as the format text says:
    2^mb pairs (start, end) of uint64le relative to the end of the shard
    index; each non-empty region decoded (inflated when index_enc = gzip) into
    3n uint64le words; row 0 ids, row 1 offsets, row 2 sizes (all as stored,
    delta encoded).  For every entry the payload is extracted at the position
    the format rule gives; TLC recomputes that position itself (abs)."""
    if isinstance(path_or_bytes, (bytes, bytearray)):
        raw = bytes(path_or_bytes)
    else:
        with open(path_or_bytes, "rb") as f:
            raw = f.read()
    H = 16 * (1 << mb)
    framing = set()
    out = {"name": name, "len": sat(len(raw)), "index": [], "minis": []}
    if len(raw) < H:
        # too short to hold the shard index: hand TLC what is there
        npairs = len(raw) // 16
    else:
        npairs = 1 << mb
    for k in range(npairs):
        s, e = struct.unpack_from("<QQ", raw, 16 * k)
        out["index"].append([sat(s), sat(e)])
        empty = {"st": "empty", "ids": [], "offs": [], "sizes": [], "abs": [], "pay": []}
        bad = dict(empty, st="bad")
        if s == e:
            out["minis"].append(empty)
            continue
        if s > e or H + e > len(raw):
            out["minis"].append(bad)
            continue
        region = raw[H + s:H + e]
        if index_enc == "gzip":
            region, fr = inflate_any(region)
            if region is None:
                out["minis"].append(bad)
                continue
            framing.add(fr)
        if len(region) % 24 != 0 or len(region) == 0:
            out["minis"].append(bad)
            continue
        n = len(region) // 24
        words = struct.unpack("<%dQ" % (3 * n), region)
        ids, offs, sizes = words[:n], words[n:2 * n], words[2 * n:]
        m = {"st": "ok", "ids": [bits(v) for v in ids], "offs": [sat(v) for v in offs],
             "sizes": [sat(v) for v in sizes], "abs": [], "pay": []}
        pos = H
        for i in range(n):
            pos += offs[i]
            m["abs"].append(sat(pos))
            if sizes[i] == 0:
                m["pay"].append({"st": "ok", "data": []})
            elif pos + sizes[i] > len(raw):
                m["pay"].append({"st": "bad", "data": []})
            else:
                blob = raw[pos:pos + sizes[i]]
                if data_enc == "gzip":
                    blob, fr = inflate_any(blob)
                    if blob is None:
                        m["pay"].append({"st": "bad", "data": []})
                        pos += sizes[i]
                        continue
                    framing.add(fr)
                m["pay"].append({"st": "ok", "data": list(blob)})
            pos += sizes[i]
        out["minis"].append(m)
    return out, sorted(framing)


def halves(buf):
    """bytes -> list of 16-bit little-endian halves (uint32 word = lo, hi)."""
    assert len(buf) % 2 == 0
    return list(struct.unpack("<%dH" % (len(buf) // 2), buf))
