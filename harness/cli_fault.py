"""Fault / crash enumeration at the COMMAND-LINE level (C18, and clause (c) of C19):
a tool of the package runs as a real sub-process under the interposer
(harness/cli_child.py), including its exit phase.  One run per (I/O call index,
errno) and per crash point.  Records only - Trace_FaultStore judges:
  exit status 0 after a failed step  => every chunk the command is responsible
  for must be there and correct ("never returns normally as if it had succeeded");
  non-zero exit => the reported exception must be a data-access / I/O error;
  crash => no chunk decodes to wrong values; earlier data untouched."""
import atexit
import builtins
import contextlib
import io
import json
import os
import shutil
import subprocess
import sys
import tempfile

import numpy as np

from .faults import ERRORS_FOR

import threading

_QUIET = threading.Lock()      # contextlib.redirect_stdout is process-global: one thread at a time

CHILD = os.path.join(os.path.dirname(os.path.abspath(__file__)), "cli_child.py")
SHARD = {"@type": "neuroglancer_uint64_sharded_v1", "minishard_bits": 1, "shard_bits": 1,
         "preshift_bits": 0, "hash": "identity", "minishard_index_encoding": "raw", "data_encoding": "raw"}


def _scale(key, size, cs, res, sharded, enc="raw"):
    s = {"key": key, "size": list(size), "chunk_sizes": [[cs, cs, cs]], "resolution": [res] * 3,
         "voxel_offset": [0, 0, 0], "encoding": enc}
    if sharded:
        s["sharding"] = dict(SHARD)
    return s


def _write_info(d, info):
    os.makedirs(d, exist_ok=True)
    with open(os.path.join(d, "info"), "w") as f:
        json.dump(info, f)


def _volume(sandbox, shape, seed):
    import nibabel
    rng = np.random.default_rng(seed)
    a = rng.integers(1, 250, size=shape, dtype=np.uint8)
    p = os.path.join(sandbox, "v.nii")
    nibabel.save(nibabel.Nifti1Image(a, np.diag([1.0, 1.0, 1.0, 1.0])), p)
    return p


def _fill_scale0(d, info, seed):
    """Earlier, fault-free session (in-process): write every chunk of scale 0."""
    from neuroglancer_scripts import accessor, precomputed_io
    with _QUIET, contextlib.redirect_stdout(io.StringIO()):
        acc = accessor.get_accessor_for_url(d)
        w = precomputed_io.get_IO_for_existing_dataset(acc)
        sc = info["scales"][0]
        cs = sc["chunk_sizes"][0]
        rng = np.random.default_rng(seed)
        for c in _grid(sc["size"], cs):
            shape = (info["num_channels"], c[5] - c[4], c[3] - c[2], c[1] - c[0])
            w.write_chunk(rng.integers(1, 250, size=shape).astype(info["data_type"]), sc["key"], c)
        if hasattr(acc, "close"):
            acc.close()
            atexit.unregister(acc.close)


def _grid(size, cs):
    out = []
    for x in range(0, size[0], cs[0]):
        for y in range(0, size[1], cs[1]):
            for z in range(0, size[2], cs[2]):
                out.append((x, min(x + cs[0], size[0]), y, min(y + cs[1], size[1]), z, min(z + cs[2], size[2])))
    return out


SCENARIOS = {
    # name: (tool module, sharded?, file options)
    "v2p.file.gz": ("volume_to_precomputed", False, []),
    "v2p.file.flat.plain": ("volume_to_precomputed", False, ["--flat", "--no-gzip"]),
    "v2p.sharded": ("volume_to_precomputed", True, []),
    "v2p.geninfo": ("volume_to_precomputed:geninfo", False, []),
    "gsi": ("generate_scales_info", False, []),
    "pyramid": ("volume_to_precomputed_pyramid", False, []),
    "slices": ("slices_to_precomputed", False, []),
    "slices.sharded": ("slices_to_precomputed", True, []),
    "mesh": ("mesh_to_precomputed", False, []),
    "links": ("link_mesh_fragments", False, []),
    "compute.file": ("compute_scales", False, []),
    "compute.sharded": ("compute_scales", True, []),
    "convert.file_to_sharded": ("convert_chunks", True, []),
    "convert.file_to_file": ("convert_chunks", False, ["--flat"]),
}


def setup(name, sandbox):
    """-> (module, args, interposer root, [(dataset dir, {scale key: role})])"""
    tool, sharded, opts = SCENARIOS[name]
    mod = "neuroglancer_scripts.scripts." + tool.split(":")[0]
    if tool == "volume_to_precomputed:geninfo":
        # the metadata step: the files the command is asked to produce are the targets
        vol = _volume(sandbox, (4, 4, 2), 5)
        ds = os.path.join(sandbox, "ds")
        os.makedirs(ds)
        return mod, [vol, ds, "--generate-info"] + opts, ds, [
            ("file", ds, "info_fullres.json", "target", "json"),
            ("file", ds, "transform.json", "target", "json")]
    if tool == "generate_scales_info":
        ds = os.path.join(sandbox, "ds")
        os.makedirs(ds)
        full = os.path.join(sandbox, "info_fullres.json")
        with open(full, "w") as f:
            json.dump({"type": "image", "data_type": "uint8", "num_channels": 1,
                       "scales": [{"size": [9, 8, 5], "resolution": [1e6, 1e6, 2e6], "voxel_offset": [0, 0, 0],
                                   "chunk_sizes": [], "encoding": "raw", "key": "full"}]}, f)
        return mod, [full, ds, "--target-chunk-size", "4"] + opts, ds, [("file", ds, "info", "target", "json")]
    if tool == "volume_to_precomputed_pyramid":
        vol = _volume(sandbox, (130, 2, 2), 5)       # the tool has no chunk-size option: 64^3 chunks
        ds = os.path.join(sandbox, "ds")
        os.makedirs(ds)
        return mod, [vol, ds, "--downscaling-method", "stride"] + opts, ds, [
            ("file", ds, "info", "target", "json"), (ds, {"*": "target"})]
    if tool == "slices_to_precomputed":
        from PIL import Image
        sl = os.path.join(sandbox, "slices")
        os.makedirs(sl)
        rng = np.random.default_rng(11)
        for k in range(3):
            Image.fromarray(rng.integers(1, 250, size=(4, 5), dtype=np.uint8)).save(
                os.path.join(sl, "s%02d.png" % k))
        ds = os.path.join(sandbox, "ds")
        info = {"type": "image", "data_type": "uint8", "num_channels": 1,
                "scales": [_scale("k", [5, 4, 3], 2, 1e6, sharded)]}
        _write_info(ds, info)
        return mod, [sl, ds, "--input-orientation", "RAS"] + opts, ds, [(ds, {"k": "target"})]
    if tool in ("mesh_to_precomputed", "link_mesh_fragments"):
        ds = os.path.join(sandbox, "ds")
        info = {"type": "segmentation", "data_type": "uint32", "num_channels": 1,
                "scales": [_scale("k", [4, 4, 2], 2, 1e6, False)]}
        if tool == "link_mesh_fragments":
            info["mesh"] = "mesh"
        _write_info(ds, info)
        if tool == "mesh_to_precomputed":
            import nibabel
            from nibabel import gifti
            pts = np.array([[0, 0, 0], [1, 0, 0], [0, 1, 0], [0, 0, 1]], dtype=np.float32)
            tri = np.array([[0, 2, 1], [0, 1, 3], [0, 3, 2], [1, 2, 3]], dtype=np.int32)
            g = gifti.GiftiImage(darrays=[
                gifti.GiftiDataArray(pts, intent="NIFTI_INTENT_POINTSET", datatype="NIFTI_TYPE_FLOAT32"),
                gifti.GiftiDataArray(tri, intent="NIFTI_INTENT_TRIANGLE", datatype="NIFTI_TYPE_INT32")])
            mp = os.path.join(sandbox, "frag.gii")
            nibabel.save(g, mp)
            return mod, [mp, ds] + opts, ds, [("file", ds, "info", "target", "json"),
                                              ("file", ds, "mesh/frag", "target", "mesh")]
        os.makedirs(os.path.join(ds, "mesh"))
        for nm in ("fa", "fb"):
            with open(os.path.join(ds, "mesh", nm), "wb") as f:
                f.write(b"\0" * 4)
        csvp = os.path.join(sandbox, "links.csv")
        with open(csvp, "w") as f:
            f.write("1,fa\n2,fa,fb\n3,fb\n")
        return mod, [csvp, ds] + opts, ds, [("file", ds, "mesh/%d:0" % n, "target", "json") for n in (1, 2, 3)]
    if tool == "volume_to_precomputed":
        vol = _volume(sandbox, (4, 4, 2), 5)
        ds = os.path.join(sandbox, "ds")
        info = {"type": "image", "data_type": "uint8", "num_channels": 1,
                "scales": [_scale("k", [4, 4, 2], 2, 1e6, sharded)]}
        _write_info(ds, info)
        return mod, [vol, ds] + opts, ds, [(ds, {"k": "target"})]
    if tool == "compute_scales":
        ds = os.path.join(sandbox, "ds")
        info = {"type": "image", "data_type": "uint8", "num_channels": 1,
                "scales": [_scale("s0", [8, 8, 4], 4, 1.0, sharded), _scale("s1", [4, 4, 2], 2, 2.0, sharded)]}
        _write_info(ds, info)
        _fill_scale0(ds, info, 7)
        return mod, [ds, "--downscaling-method", "stride"] + opts, ds, [(ds, {"s0": "other", "s1": "target"})]
    src = os.path.join(sandbox, "pair", "src")
    dst = os.path.join(sandbox, "pair", "dst")
    sinfo = {"type": "image", "data_type": "uint8", "num_channels": 1,
             "scales": [_scale("s0", [4, 4, 4], 2, 1.0, False)]}
    _write_info(src, sinfo)
    _fill_scale0(src, sinfo, 9)
    dinfo = {"type": "image", "data_type": "uint16", "num_channels": 1,
             "scales": [_scale("s0", [4, 4, 4], 2, 1.0, sharded)]}
    _write_info(dst, dinfo)
    return mod, [src, dst] + opts, os.path.join(sandbox, "pair"), [(src, {"s0": "other"}), (dst, {"s0": "target"})]


def snapshot(datasets):
    """decoded chunks of every (dataset, scale) through a FRESH accessor"""
    from neuroglancer_scripts import accessor, precomputed_io
    out = {}
    for ent in datasets:
        if ent[0] == "file":
            # a named file of the dataset, read the way a reader does: through a fresh
            # accessor (plain or .gz) and parsed (a torn file is detectably invalid)
            _, d, rel, role, kind = ent
            try:
                raw = accessor.get_accessor_for_url(d).fetch_file(rel)
                if kind == "json":
                    json.loads(raw)
                elif kind == "mesh":
                    import struct
                    nv, = struct.unpack("<I", raw[:4])
                    rest = len(raw) - 4 - 12 * nv
                    if rest < 0 or rest % 12:
                        raise ValueError("mesh fragment length")
                out[("file", rel)] = ({"st": "ok", "data": list(raw)}, role)
            except Exception as e:
                out[("file", rel)] = ({"st": "exc", "data": [], "cls": type(e).__name__}, role)
            continue
        d, roles = ent
        try:
            acc = accessor.get_accessor_for_url(d)
            r = precomputed_io.get_IO_for_existing_dataset(acc)
        except Exception as e:
            for key, role in roles.items():
                out[(d, key)] = ("unreadable:" + type(e).__name__, role)
            continue
        for sc in r.info["scales"]:
            role = roles.get(sc["key"], roles.get("*"))
            if role is None:
                continue
            for c in _grid(sc["size"], sc["chunk_sizes"][0]):
                try:
                    a = r.read_chunk(sc["key"], c)
                    out[(os.path.basename(d), sc["key"], c)] = ({"st": "ok", "data": list(np.ascontiguousarray(a).tobytes())}, role)
                except Exception as e:
                    out[(os.path.basename(d), sc["key"], c)] = ({"st": "exc", "data": [], "cls": type(e).__name__}, role)
        if hasattr(acc, "close"):
            atexit.unregister(acc.close)
    return out


def _exc_facts(stderr):
    """class of the exception the tool died with (exception line of the LAST
    traceback on stderr; progress-bar output is ignored), as facts"""
    import re
    from neuroglancer_scripts.accessor import DataAccessError
    text = stderr.replace("\r", "\n")
    # tracebacks printed for exceptions IGNORED in exit handlers do not decide the exit
    # status: take the last traceback that is not one of those
    starts = [m.start() for m in re.finditer(r"Traceback \(most recent call last\):", text)]
    k = -1
    for st in starts:
        before = text[:st].rstrip().splitlines()[-1:] or [""]
        if "Exception ignored in" in before[0] or "Error in atexit" in before[0]:
            continue
        k = st
    name = ""
    if k >= 0:
        nxt = [st for st in starts if st > k]
        block = text[k:(nxt[0] if nxt else len(text))]
        for line in block.splitlines()[1:]:
            m = re.match(r"^([A-Za-z_][A-Za-z0-9_.]*)(:|$)", line)
            if not m:
                continue
            cand = m.group(1)
            short = cand.split(".")[-1]
            cls = getattr(builtins, short, None)
            if (isinstance(cls, type) and issubclass(cls, BaseException)) or short.endswith(("Error", "Exception")):
                name = cand
    short = name.split(".")[-1]
    cls = getattr(builtins, short, None)
    is_os = isinstance(cls, type) and issubclass(cls, OSError)
    if short in ("ShardedIOError", "HTTPError", "ConnectionError"):
        is_os = True
    return short, is_os, short == DataAccessError.__name__


def run_once(workdir, name, plan, reference=None):
    sandbox = tempfile.mkdtemp(prefix="cli_", dir=workdir)
    try:
        mod, args, root, datasets = setup(name, sandbox)
        report = os.path.join(sandbox, "report.json")
        pre = snapshot(datasets)       # what the destination held before the command
        # the tool's temporary files (sharded writer) go to a directory of their own,
        # whose I/O calls are enumerated like those of the dataset
        tmpd = os.path.join(sandbox, "tmp")
        os.makedirs(tmpd, exist_ok=True)
        env = dict(os.environ, PYTHONDONTWRITEBYTECODE="1", TMPDIR=tmpd)
        p = subprocess.run([sys.executable, CHILD, root + "|" + tmpd, json.dumps(plan) if plan else "null", report, mod] + args,
                           env=env, capture_output=True, text=True, timeout=120)
        rep = {"calls": [], "fired": False, "crashed": False}
        if os.path.exists(report):
            with open(report) as f:
                rep = json.load(f)
        snap = snapshot(datasets)
        exc, is_os, is_da = _exc_facts(p.stderr) if p.returncode not in (0, 137) else ("", False, False)
        if p.returncode not in (0, 137) and not exc:
            is_os = True        # the tool reported the error itself (logged, non-zero status)
        return {"rc": p.returncode, "calls": rep["calls"], "fired": rep["fired"], "snap": snap, "pre": pre,
                "exc": exc, "osErr": is_os, "dataAccess": is_da, "stderr_tail": p.stderr[-400:]}
    finally:
        shutil.rmtree(sandbox, ignore_errors=True)


def to_case(run, ref, plan):
    """Trace_FaultStore case: expected contents come from the fault-free reference run."""
    targets, others = [], []
    for k, (val, role) in sorted(ref["snap"].items(), key=lambda kv: str(kv[0])):
        got = run["snap"].get(k, ({"st": "exc", "data": []}, role))[0]
        if not isinstance(got, dict):
            got = {"st": "exc", "data": []}
        exp = val["data"] if isinstance(val, dict) else []
        if role == "target":
            was = run.get("pre", {}).get(k, (None, role))[0]
            hasold = isinstance(was, dict) and was["st"] == "ok"
            targets.append({"st": got["st"], "data": got["data"], "new": exp, "hasold": hasold,
                            "old": was["data"] if hasold else [], "ast": "exc", "adata": []})
        else:
            others.append({"st": got["st"], "data": got["data"], "exp": exp})
    mode = plan["mode"] if plan else "none"
    if mode in ("crash", "torn") or run["rc"] == 137:
        st = "crashed"
    else:
        st = "returned" if run["rc"] == 0 else "raised"
    k = plan["k"] if plan else -1
    return {"mode": mode, "fired": bool(run["fired"]) if plan else False, "optype": "store",
            "outcome": {"st": st, "osErr": run["osErr"], "dataAccess": run["dataAccess"]},
            "ret": {"has": False, "data": []}, "expRet": [], "targets": targets, "others": others,
            "gzlayer": False,
            "failkind": (run["calls"][k][0] if plan and 0 <= k < len(run["calls"]) else "")}


def plans_for(calls, rng, limit=None, crash=True):
    plans = []
    for k, (kind, rel) in enumerate(calls):
        if kind == "unlink" and rel.startswith("../tmp/") and rel.count("/") == 2:
            continue      # the standard library's own writability probe of TMPDIR, not the tool's I/O
        for err in ERRORS_FOR.get(kind, ["EIO"])[:1]:
            plans.append({"k": k, "mode": "fail", "err": err})
        if kind == "write":
            plans.append({"k": k, "mode": "short", "err": "ENOSPC"})
        if crash and kind in ("write", "open", "close", "seek"):
            plans.append({"k": k, "mode": "torn" if kind == "write" else "crash", "err": ""})
    if limit and len(plans) > limit:
        # keep the exit-phase calls (the last ones) and a seeded sample of the rest
        # ... and the start-up phase (accessor selection probes the info file there)
        first = plans[:4]
        tail = plans[-limit // 3:]
        head = rng.sample(plans[4:-limit // 3], limit - len(tail) - len(first))
        plans = first + sorted(head, key=lambda q: (q["k"], q["mode"])) + tail
    return plans
