"""Shared by props/c19.py, props/c13.py and stats_report.py: run programs on
the real tools (pipeline_driver), have TLC judge the recorded traces
(spec/Trace_Pipeline.tla) and turn verdicts into ctx.violation / ctx.note_drift.
Nothing in here decides a verdict."""
import json

from . import pipeline_driver as pd
from . import tlc

TRACE = "Trace_Pipeline"


def _dir_facts(snap, d):
    sd = snap[d]
    return {"info": sd["info"]["st"], "dtype": sd["info"]["dtype"],
            "sharded": bool(sd["scales"]) and all(s["sharded"] for s in sd["scales"]),
            "nscales": len(sd["scales"])}


def sig_of(case, prog, clause, pos):
    """Small dict of structural facts of the failing step (known-finding matching)."""
    ev = case["events"][pos - 1] if 1 <= pos <= len(case["events"]) else None
    sig = {"clause": clause, "pos": pos, "vol_dtype": prog["vol"]["dtype"],
           "channels": (prog["vol"]["shape"][3] if len(prog["vol"]["shape"]) == 4
                        else (3 if prog["vol"].get("rgb") else 1)),
           "rgb": bool(prog["vol"].get("rgb")), "header_scaling": bool(prog["vol"].get("scl")),
           "ignore_scaling": bool(prog.get("ignore_scaling")),
           "obstructed": any(c["op"] == "Obstruct" for c in prog["cmds"]),
           "in_process": prog.get("link") is not None,
           "source_fault": any(c["op"] == "Damage" or (c["op"] == "Convert" and c["m"] == "srcfault")
                               for c in prog["cmds"]),
           "zero_background": bool(prog["vol"].get("zero_slab") or prog["vol"].get("allzero")),
           "per_scale_sharding": bool(prog.get("shard_per_scale")),
           "input_range": bool(prog.get("input_range")),
           "several_chunk_sizes": any(c["op"] == "Rechunk" or (c["op"] == "Edit" and c["m"].startswith("cs"))
                                      for c in prog["cmds"])}
    if ev is None:
        return sig
    c = ev["cmd"]
    before = case["events"][pos - 2]["snap"] if pos >= 2 else case["init"]
    sig.update({"op": c["op"], "exit": ev["exit"], "copy": c["copy"], "type": c["type"],
                "enc": c["enc"], "method": c["m"], "remote": bool(ev.get("remote")),
                "lay": prog["lay"].get(c["d"])})
    dst = _dir_facts(ev["snap"], c["d"])
    sig.update({"dst_sharded": dst["sharded"], "dst_dtype": dst["dtype"], "dst_info": dst["info"]})
    if c["src"] in ("A", "B"):
        src = _dir_facts(before, c["src"])
        sig.update({"src_sharded": src["sharded"], "src_dtype": src["dtype"]})
    return sig


FAULT_OPS = ("Obstruct", "Damage", "Restore")


def must_ops(prog):
    """Commands that must succeed in this program when the design accepts them: named by the check
    (prog["mustops"]), and only in fault-free programs (no obstructed path, no damaged source)."""
    ops = prog.get("mustops") or []
    if not ops:
        return []
    for c in prog["cmds"]:
        if c["op"] in FAULT_OPS or c.get("m") == "srcfault":
            return []
    return list(ops)


def run_and_judge(ctx, progs, workers=12, chunk=150, label=""):
    """Run the programs, judge them with Trace_Pipeline.  Returns the list of
    (prog, case, verdict).  Violations and drift are registered on ctx."""
    work = ctx.scratch("verif_pipe_")
    cases = pd.run_programs(work, progs, workers=workers)
    tcases = []
    for k, c in enumerate(cases):
        t = pd.strip_case(c)
        t["tid"] = k + 1
        t["mustops"] = must_ops(progs[k])
        tcases.append(t)
    verdicts = ctx.judge(TRACE, tcases, workers=8, chunk=chunk)
    out = []
    for k, (p, c) in enumerate(zip(progs, cases)):
        st, clause, pos = verdicts[k + 1]
        out.append((p, c, (st, clause, pos)))
        if st == "bad":
            detail = {"label": label, "prog": p, "pos": pos, "log": c.get("_log", [])}
            if p.get("link") is not None:
                # the conversion ran in one interpreter with the other programs of its group
                group = [q for q in progs if q.get("link") == p["link"]]
                detail["group"] = group
                detail["index"] = [id(q) for q in group].index(id(p))
            ctx.violation(clause, sig_of(c, p, clause, pos), detail)
        elif st == "drift":
            lg = c.get("_log", [])
            ctx.note_drift(clause, {"label": label, "pos": pos,
                                    "cmds": [pd.cmd_str(x) for x in p["cmds"]],
                                    "vol": p["vol"], "lay": p["lay"],
                                    "step": lg[pos - 1] if 0 < pos <= len(lg) else None})
        elif st != "ok":
            raise tlc.MachineryError("unexpected verdict status %r" % (st,))
    return out


def replay_prog(ctx, path):
    with open(path) as f:
        rp = json.load(f)
    prog = rp["detail"]["prog"]
    work = ctx.scratch("verif_pipe_")
    if rp["detail"].get("group"):
        case = pd.run_linked(work, rp["detail"]["group"], "replay")[rp["detail"]["index"]]
    else:
        case = pd.run_program(work, prog, "replay")
    t = pd.strip_case(case)
    t["tid"] = 1
    t["mustops"] = must_ops(prog)
    v = ctx.judge(TRACE, [t])
    for ev, lg in zip(case["events"], case.get("_log", [])):
        print("  %-9s exit=%d  %s" % (ev["cmd"]["op"], ev["exit"], " ".join(lg["argv"])))
        if ev["exit"] != 0 and lg["stderr"]:
            print("      " + lg["stderr"].splitlines()[-1][:200])
    print("replay verdict:", v[1])
    ctx.cleanup()
    return 1 if v[1][0] == "bad" else 0
