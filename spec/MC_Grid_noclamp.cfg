SPECIFICATION Spec
CONSTANTS
  Clamp = "none"
  CfgSpace <- MCCfgSpaceQuick
INVARIANT AllOnGrid
INVARIANT NeverTwice
INVARIANT EachVoxelOnce
