---------------------------- MODULE MC_ValueMap ----------------------------
(* Use (M) for C11.  Scaled-down types: 3- and 4-bit signed/unsigned         *)
(* integers and a toy float with 2 fraction bits (p = 3 significant bits,    *)
(* quantum 1/4, largest value 14).  Values are all multiples of 1/16 in      *)
(* [-20, 20] (type "exact" holds all of them) so that every case split of    *)
(* Convert is met: below / at / above one half, odd and even neighbours,     *)
(* both sides of both limits, binade boundaries and subnormal quanta.        *)
(*                                                                           *)
(* The reference here is PLAIN INTEGER arithmetic on n = 16 * value and the  *)
(* explicitly enumerated set Rep(T) of representable values - it shares      *)
(* nothing with the bit-sequence oracle it validates.                        *)
EXTENDS ValueMap

Scale == 16
Lo == 0 - 320
Hi == 320

ToyFloat == FloatT(3, 2, 4)
Exact    == FloatT(10, 4, 10)
OutTypes == {UIntT(3), UIntT(4), SIntT(3), SIntT(4), ToyFloat}
InTypes  == OutTypes \cup {Exact}

Abs(x) == IF x < 0 THEN 0 - x ELSE x
Pow(b, e) == b ^ e

\* 16 * value  <->  value triple
FromScaled(n) ==
  LET a == Abs(n)
      r == a % Scale
  IN Canon(<<IF n < 0 THEN 1 ELSE 0, FromNat(a \div Scale),
             <<(r \div 8) % 2, (r \div 4) % 2, (r \div 2) % 2, r % 2>>>>)
FracVal(f) == IF f = << >> THEN 0
              ELSE FoldLeft(LAMBDA acc, k : acc + f[k] * (Scale \div Pow(2, k)), 0, [k \in 1..Len(f) |-> k])
ToScaled(v) == (IF v[1] = 1 THEN 0 - 1 ELSE 1) * (ToNat(v[2]) * Scale + FracVal(v[3]))

\* representable values of T, as 16 * value
Rep(T) ==
  CASE T.kind = "uint" -> {Scale * k : k \in 0..(Pow(2, T.bits) - 1)}
    [] T.kind = "int" -> {Scale * k : k \in (0 - Pow(2, T.bits - 1))..(Pow(2, T.bits - 1) - 1)}
    [] T.kind = "float" ->
         {sg * m * Pow(2, x + 4) : sg \in {0 - 1, 1}, m \in 0..(Pow(2, T.p) - 1),
                                   x \in (0 - T.q)..(T.top - T.p)}
RepMax(T) == CASE T.kind = "uint" -> Scale * (Pow(2, T.bits) - 1)
               [] T.kind = "int" -> Scale * (Pow(2, T.bits - 1) - 1)
               [] T.kind = "float" -> (Pow(2, T.p) - 1) * Pow(2, T.top - T.p + 4)
RepMin(T) == CASE T.kind = "uint" -> 0
               [] T.kind = "int" -> 0 - Scale * Pow(2, T.bits - 1)
               [] T.kind = "float" -> 0 - RepMax(T)

\* membership in Rep(T) by arithmetic (used to enumerate the inputs of a type)
InRep(n, T) ==
  CASE T.kind = "uint" -> n % Scale = 0 /\ 0 <= n /\ n <= RepMax(T)
    [] T.kind = "int" -> n % Scale = 0 /\ RepMin(T) <= n /\ n <= RepMax(T)
    [] T.kind = "float" ->
         \E x \in (0 - T.q)..(T.top - T.p) :
            Abs(n) % Pow(2, x + 4) = 0 /\ Abs(n) \div Pow(2, x + 4) < Pow(2, T.p)

\* cfg is chosen at Init: (input type, output type, mode, writability, value)
MCInitOver(step) ==
  \E a \in InTypes, b \in OutTypes, p \in BOOLEAN, w \in BOOLEAN, n \in Lo..Hi :
     /\ InRep(n, a)
     /\ (a = Exact \/ n % step = 0)
     /\ cfg = [inT |-> a, outT |-> b, preserve |-> p, writable |-> w,
               vals |-> <<FromScaled(n)>>, n |-> n]
     /\ input = cfg.vals /\ output = << >> /\ status = "idle"
MCSpec == MCInitOver(1) /\ [][Next]_vars
ASSUME RepIsInRep == \A T \in OutTypes : \A n \in (Lo - 40)..(Hi + 40) : InRep(n, T) <=> n \in Rep(T)

\* ------------------------------------------------- oracle validation ----
C(n, T) == ToScaled(Convert(FromScaled(n), Exact, T))

Nearest ==
  LET c == C(cfg.n, cfg.outT) IN
  /\ c \in Rep(cfg.outT)
  /\ \A r \in Rep(cfg.outT) : Abs(cfg.n - c) <= Abs(cfg.n - r)
TiesToEven ==
  LET c == C(cfg.n, cfg.outT) IN
  \A r \in Rep(cfg.outT) :
     (r # c /\ Abs(cfg.n - r) = Abs(cfg.n - c)) => ((c \div Abs(c - r)) % 2 = 0)
Saturates ==
  LET c == C(cfg.n, cfg.outT) IN
  /\ cfg.n >= RepMax(cfg.outT) => c = RepMax(cfg.outT)
  /\ cfg.n <= RepMin(cfg.outT) => c = RepMin(cfg.outT)
IdentityWhenRepresentable ==
  cfg.n \in Rep(cfg.outT) => C(cfg.n, cfg.outT) = cfg.n
Monotone ==
  cfg.n < Hi => C(cfg.n, cfg.outT) <= C(cfg.n + 1, cfg.outT)
Idempotent ==
  LET c == C(cfg.n, cfg.outT) IN C(c, cfg.outT) = c
\* the encoders agree (machinery of this module)
Encoding == ToScaled(FromScaled(cfg.n)) = cfg.n /\ IsValue(FromScaled(cfg.n))
\* the overflow flag is raised exactly beyond the largest finite value + half a quantum
OverflowFlag ==
  cfg.outT.kind = "float" =>
     (FloatOverflow(FromScaled(cfg.n), cfg.outT) => Abs(cfg.n) > RepMax(cfg.outT))
\* InType (used by the trace spec to validate its input) is membership in Rep
InTypeIsRep == InType(FromScaled(cfg.n), cfg.outT) <=> cfg.n \in Rep(cfg.outT)
=============================================================================
