SPECIFICATION Spec
CONSTANTS
  Threshold = "byLength"
  Dense <- DenseAll
  W = 300
INVARIANT DesignOk
