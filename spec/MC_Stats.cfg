SPECIFICATION Spec
CONSTANTS
  Threshold = "byLength"
  Dense = 20000
  W = 300
INVARIANT DesignOk
