SPECIFICATION Spec
CONSTANTS
  ValidatorBounds = "unchecked"
  MaxOps = 2
  Infos <- MCInfos
INVARIANT OnlyOnGridStored
INVARIANT ValidatorIsOnGrid
PROPERTY Independence
