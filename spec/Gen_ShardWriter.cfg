SPECIFICATION GenSpec
CONSTANTS
  SlotPlacement = "bySlot"
  EmptySlotRead = "skip"
  CfgSpace <- GenCfgSpace
INVARIANT Emit
