---------------------------- MODULE ShardWriter ----------------------------
(* Design layer: the sharded writer of sharded_file_accessor.py as a state  *)
(* machine - one reorder buffer per (shard, minishard), flushed into an     *)
(* indexed file on close - and the package's own reader (index walk).       *)
(* One action per critical section of the code:                             *)
(*   Store(p)   ShardedScale.store_chunk -> Shard.store_cmc_chunk ->        *)
(*              MiniShard.store_cmc_chunk (append + flush_buffer | buffer)  *)
(*   Close      ShardedFileAccessor.close -> Shard.close (MiniShard.close   *)
(*              gap filling, data in key order, indices, shard index last)  *)
(* Deviation switches name the places where the code is known to differ     *)
(* from the conforming design:                                              *)
(*   SlotPlacement \in {"bySlot", "byRank"}   byRank = the k-th USED        *)
(*        minishard's index is written at slot k                            *)
(*   EmptySlotRead \in {"skip", "crash"}      crash = the reader fails on a *)
(*        shard whose index contains an empty slot                          *)
EXTENDS ShardFormat

CONSTANTS SlotPlacement, EmptySlotRead, CfgSpace

VARIABLES cfg,      \* [grid, pb, mb, sb] - fixed at Init
          stored,   \* set of grid positions stored so far
          ms,       \* (shard, mini) -> reorder buffer state
          phase,    \* "open" | "closed"
          files     \* Seq of abstract shard files (after close)

vars == <<cfg, stored, ms, phase, files>>

IdOf(p) == Code(cfg.grid, p)
\* abstract payload: distinguishable per chunk, sizes 1..3
PaySize(id) == 1 + (ToNat(id) % 3)
PayOf(id)   == [st |-> "ok", data |-> <<ToNat(id)>>]
NoPay       == [st |-> "ok", data |-> << >>]

KeyOf(id) == <<ShardOf(id, cfg.pb, cfg.mb, cfg.sb), MiniOf(id, cfg.pb, cfg.mb)>>

\* MiniShard.next_cmc: the k-th identifier (k = number appended so far) that
\* carries the same shard/minishard bits: low pb bits of k, then the fixed
\* mb+sb bits, then the remaining bits of k
NextId(m) ==
  LET kb == FromNat(m.k) IN
  Norm(Pad(Low(kb, cfg.pb), cfg.pb) \o m.fixed \o ShiftR(kb, cfg.pb))

NewMini(id) == [k |-> 0, entries |-> << >>, buf |-> {},
                fixed |-> Pad(Field(id, cfg.pb, cfg.mb + cfg.sb), cfg.mb + cfg.sb)]

AppendEntry(m, id, size, real) ==
  [m EXCEPT !.k = @ + 1, !.entries = Append(@, [id |-> id, size |-> size, real |-> real])]

RECURSIVE Flush(_)
Flush(m) == IF NextId(m) \in m.buf
            THEN Flush(AppendEntry([m EXCEPT !.buf = @ \ {NextId(m)}],
                                   NextId(m), PaySize(NextId(m)), TRUE))
            ELSE m

StoreInto(m, id) ==
  IF NextId(m) = id THEN Flush(AppendEntry(m, id, PaySize(id), TRUE))
  ELSE [m EXCEPT !.buf = @ \cup {id}]

StoreMs(mm, id) ==
  LET key == KeyOf(id)
      base == IF key \in DOMAIN mm THEN mm[key] ELSE NewMini(id)
      upd == StoreInto(base, id)
  IN [k \in DOMAIN mm \cup {key} |-> IF k = key THEN upd ELSE mm[k]]

RECURSIVE CloseMini(_)
CloseMini(m) ==
  LET f == Flush(m) IN
  IF f.buf = {} THEN f ELSE CloseMini(AppendEntry(f, NextId(f), 0, FALSE))

\* ---- file assembly (Shard.close) ----------------------------------------
LessBits(a, b) == Less(a, b)
ShardsUsed(mm) == {k[1] : k \in DOMAIN mm}
MinisOf(mm, S) == SetToSortSeq({k[2] : k \in {kk \in DOMAIN mm : kk[1] = S}}, LessBits)

EntrySizes(m) == [i \in 1..Len(m.entries) |-> m.entries[i].size]
DataLen(m) == SumSat(EntrySizes(m))

BuildFile(mm, S) ==
  LET keys == MinisOf(mm, S)
      nUsed == Len(keys)
      closed == [j \in 1..nUsed |-> CloseMini(mm[<<S, keys[j]>>])]
      H == HeaderLen(cfg)
      dataBefore(j) == SumSat([i \in 1..(j - 1) |-> DataLen(closed[i])])
      D == dataBefore(nUsed + 1)
      idxBefore(j) == SumSat([i \in 1..(j - 1) |-> 24 * Len(closed[i].entries)])
      decoded(j) ==
        LET m == closed[j]
            n == Len(m.entries)
            rec == [st |-> "ok",
                    ids |-> [i \in 1..n |-> IF i = 1 THEN m.entries[1].id
                                            ELSE Sub(m.entries[i].id, m.entries[i - 1].id)],
                    offs |-> [i \in 1..n |-> IF i = 1 THEN dataBefore(j) ELSE 0],
                    sizes |-> EntrySizes(m),
                    abs |-> [i \in 1..n |-> 0],
                    pay |-> [i \in 1..n |-> IF m.entries[i].real THEN PayOf(m.entries[i].id) ELSE NoPay]]
        IN [rec EXCEPT !.abs = [i \in 1..n |-> StartOf(cfg, rec, i)]]
      pair(j) == <<D + idxBefore(j), D + idxBefore(j + 1)>>
      endAll == D + idxBefore(nUsed + 1)
      emptyMini == [st |-> "empty", ids |-> << >>, offs |-> << >>, sizes |-> << >>,
                    abs |-> << >>, pay |-> << >>]
      slots == Pow2(cfg.mb)
      rankOfSlot(s) ==      \* which used minishard (1-based) sits at slot s (1-based), 0 if none
        IF SlotPlacement = "byRank" THEN (IF s <= nUsed THEN s ELSE 0)
        ELSE LET J == {j \in 1..nUsed : keys[j] = FromNat(s - 1)}
             IN IF J = {} THEN 0 ELSE CHOOSE j \in J : TRUE
  IN [name |-> Hex(S, HexDigits(cfg.sb)),
      len |-> H + endAll,
      index |-> [s \in 1..slots |->
                   IF rankOfSlot(s) # 0 THEN pair(rankOfSlot(s))
                   ELSE \* empty entry: the position reached when the next used
                        \* minishard (if any) is about to be written
                        LET later == {j \in 1..nUsed : Less(FromNat(s - 1), keys[j])}
                        IN IF later = {} \/ SlotPlacement = "byRank" THEN <<endAll, endAll>>
                           ELSE LET j == CHOOSE jj \in later : \A j2 \in later : jj <= j2
                                IN <<pair(j)[1], pair(j)[1]>>],
      minis |-> [s \in 1..slots |-> IF rankOfSlot(s) = 0 THEN emptyMini
                                    ELSE decoded(rankOfSlot(s))]]

BuildFiles(mm) ==
  LET ss == SetToSortSeq(ShardsUsed(mm), LessBits)
  IN [i \in 1..Len(ss) |-> BuildFile(mm, ss[i])]

\* ---- the package's own reader (ShardCMC.populate_minishard_dict +
\*      ReadableMiniShardCMC.fetch_cmc_chunk) -------------------------------
DesignFetch(fs, id) ==
  LET fk == FileFor(cfg, fs, id) IN
  IF fk = 0 THEN [st |-> "exc"]
  ELSE LET f == fs[fk]
           hasEmpty == \E k \in 1..Len(f.minis) : f.minis[k].st = "empty"
           \* the reader recognises a minishard by the minishard number of its
           \* FIRST identifier, not by its slot
           cand == {k \in 1..Len(f.minis) :
                      /\ f.minis[k].st = "ok"
                      /\ MiniOf(CumIds(f.minis[k])[1], cfg.pb, cfg.mb)
                           = MiniOf(id, cfg.pb, cfg.mb)}
       IN IF EmptySlotRead = "crash" /\ hasEmpty THEN [st |-> "exc"]
          ELSE IF cand = {} THEN [st |-> "exc"]
          ELSE LET m == f.minis[CHOOSE k \in cand : \A k2 \in cand : k >= k2]
                   c == CumIds(m)
                   I == {i \in 1..Len(c) : c[i] = id}
               IN IF I = {} THEN [st |-> "exc"]
                  ELSE LET i == CHOOSE j \in I : TRUE
                       IN IF m.sizes[i] = 0 THEN [st |-> "empty"]
                          ELSE [st |-> "found", size |-> m.sizes[i], pay |-> m.pay[i]]

\* ---- behaviour ------------------------------------------------------------
Init == /\ cfg \in CfgSpace
        /\ stored = {}
        /\ ms = << >>
        /\ phase = "open"
        /\ files = << >>

Store(p) == /\ phase = "open"
            /\ p \notin stored
            /\ stored' = stored \cup {p}
            /\ ms' = StoreMs(ms, IdOf(p))
            /\ UNCHANGED <<cfg, phase, files>>

Close == /\ phase = "open"
         /\ phase' = "closed"
         /\ files' = BuildFiles(ms)
         /\ UNCHANGED <<cfg, stored, ms>>

Next == (\E p \in AllPos(cfg.grid) : Store(p)) \/ Close
Spec == Init /\ [][Next]_vars

\* ---- properties -----------------------------------------------------------
\* the writer's state is a function of the SET stored so far (so all store
\* orders collapse): replay the stored set in increasing identifier order
PosLess(p, q) == Less(IdOf(p), IdOf(q))
Canonical(S) ==
  LET sq == SetToSortSeq(S, PosLess)
  IN FoldLeft(LAMBDA mm, p : StoreMs(mm, IdOf(p)), << >>, sq)
OrderIndependent == ms = Canonical(stored)

StoredIds == {IdOf(p) : p \in stored}

\* an appended identifier is never behind the counter; buffered ones are ahead
BufferSound ==
  \A key \in DOMAIN ms :
     /\ \A b \in ms[key].buf : Less(NextId(ms[key]), b)
     /\ \A i \in 1..Len(ms[key].entries) : ms[key].entries[i].id \in StoredIds
     /\ KeyOf(NextId(ms[key])) = key

ClosedWellFormed ==
  phase = "closed" =>
    \A k \in 1..Len(files) :
       /\ IsHex(files[k].name)
       /\ ShardClause(cfg, files[k], HexVal(files[k].name)) = "ok"

ReadBack ==
  phase = "closed" =>
    \A p \in stored :
       LET r == SpecLookup(cfg, files, IdOf(p))
       IN r.st = "found" /\ r.size = PaySize(IdOf(p)) /\ r.pay = PayOf(IdOf(p))

NeverStored ==
  phase = "closed" =>
    \A p \in AllPos(cfg.grid) \ stored :
       LET r == SpecLookup(cfg, files, IdOf(p))
       IN r.st = "notfound" \/ (r.st = "found" /\ r.size = 0)

OwnReaderAgrees ==
  phase = "closed" =>
    \A p \in AllPos(cfg.grid) :
       LET r == DesignFetch(files, IdOf(p))
       IN IF p \in stored THEN r.st = "found" /\ r.pay = PayOf(IdOf(p))
          ELSE r.st \in {"exc", "empty"}

Monotone == [][stored \subseteq stored']_vars
=============================================================================
