SPECIFICATION Spec
CONSTANTS
  MimePolicy = "perName"
  MaxOps = 1000000
VIEW NoCounterView
INVARIANT LastWriteWins
INVARIANT NoOverwrite
INVARIANT PathsDocumented
