SPECIFICATION MCSpecU
CONSTANTS
  WorkType = "exact"
  SigBits = 4
  TypeBits = 5
  MaxVox = 4
  MaxVox2 = 0
  MaxVoxOther = 2
INVARIANT Design
INVARIANT OracleInRange
