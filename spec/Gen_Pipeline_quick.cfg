SPECIFICATION GenSpec
CONSTANTS
  Dirs <- GenDirs
  TypeEncs <- GenTypeEncs
  Maxes <- GenMaxesQuick
  Methods <- GenMethodsQuick
  Shardings <- GenShardings
  CfgSpace <- GenCfgQuick
  MaxLen = 6
  AioForwardsMethod = TRUE
  CopyInfoLayout = "byInfo"
VIEW GenView
INVARIANT Emit
