SPECIFICATION GenSpec
CONSTANTS
  Dirs <- GenDirs
  TypeEncs <- GenTypeEncsQuick
  Maxes <- GenMaxesQuick
  Methods <- GenMethodsQuick
  Shardings <- GenShardings
  Codes <- GenCodesQuick
  CfgSpace <- GenCfg
  MaxLen = 5
  AioForwardsMethod = TRUE
  CopyInfoLayout = "byInfo"
VIEW GenView
INVARIANT Emit
