------------------------------ MODULE Downscale ------------------------------
(* C07 - downscalers compute the documented block statistic exactly.         *)
(*                                                                           *)
(* A CASE (recorded from the real code, or built by MC_Downscale) is         *)
(*   [method : "average" | "majority" | "stride",                            *)
(*    f      : <<Dx, Dy, Dz>>,                                               *)
(*    pad    : "edge" | "const",  ov : outside value (used when "const"),    *)
(*    kind   : "int" | "float",   enc : "nat" | "sm",                        *)
(*    shape  : <<C, Z, Y, X>>,    data : flat sequence, C order]             *)
(* A voxel value is a signed integer <<s, magnitude bits>> (enc "sm") or a   *)
(* plain natural < 2^30 (enc "nat").  For kind "float" the harness has       *)
(* multiplied every value of the case (input, outside value, output) by one  *)
(* power of two so that all of them - and all block means - are integers;    *)
(* the data are dyadic values whose means are exactly representable.         *)
(*                                                                           *)
(* ORACLE LAYER (from the property statement):                               *)
(*   OutShape = ceil(size / factor) per axis, channels unchanged;            *)
(*   Stride   = first voxel of the block;                                    *)
(*   Majority = smallest label among the most frequent of the block clipped  *)
(*              to the array;                                                *)
(*   BlockMean = exact mean of the Dz*Dy*Dx block, positions outside the     *)
(*              array being completed with the edge value (coordinates       *)
(*              clamped) or with the outside value; for integer types        *)
(*              rounded half-to-even (sum and count: 2*remainder compared    *)
(*              with count); for float types exact;                          *)
(*   InRange  = min(contributors) <= out <= max(contributors)  (never wraps) *)
(*              - contributors include the completion values;                *)
(*   data type unchanged.                                                    *)
(* INTERPRETATIONS: "edge value" = nearest voxel of the array (per-axis      *)
(* clamping), which is what replicating the last plane axis after axis       *)
(* yields; the outside value is given in the array's value domain.           *)
(*                                                                           *)
(* DESIGN LAYER: AveragingDownscaler.downscale - promote to a work type,     *)
(* then per axis z, y, x: pad one plane when the size is odd, half-sum of    *)
(* even and odd planes; finally rint, clip, cast back.  WorkType = "exact"   *)
(* is the conforming design; WorkType = "sig" rounds every intermediate to   *)
(* SigBits significant bits and converts the clip bound to the work type     *)
(* (float64 for uint64 data in the code).                                    *)
EXTENDS BitsNum

\* ----------------------------------------------------------- accessors ----
Val(c, x) == IF c.enc = "nat" THEN <<0, FromNat(x)>> ELSE SCanon(x)
CeilDiv(a, b) == (a + b - 1) \div b
OutShape(shape, f) ==
  <<shape[1], CeilDiv(shape[2], f[3]), CeilDiv(shape[3], f[2]), CeilDiv(shape[4], f[1])>>
NVox(shape) == shape[1] * shape[2] * shape[3] * shape[4]
Flat(shape, ch, z, y, x) == 1 + ((ch * shape[2] + z) * shape[3] + y) * shape[4] + x
At(c, ch, z, y, x) == Val(c, c.data[Flat(c.shape, ch, z, y, x)])
\* 0-based coordinates <<ch, z, y, x>> of flat output index o (1-based)
Coord(shape, o) ==
  LET r == o - 1 IN
  << r \div (shape[2] * shape[3] * shape[4]), (r \div (shape[3] * shape[4])) % shape[2],
     (r \div shape[4]) % shape[3], r % shape[4] >>
Supported(c) ==
  /\ Len(c.f) = 3
  /\ IF c.method = "average" THEN \A k \in 1..3 : c.f[k] \in {1, 2}
     ELSE \A k \in 1..3 : c.f[k] >= 1

\* ------------------------------------------------------------- oracle -----
\* the block of output voxel p = <<ch, oz, oy, ox>> as a sequence of offsets
BlockOffsets(f) ==
  [k \in 1..(f[1] * f[2] * f[3]) |->
     << (k - 1) \div (f[2] * f[1]), ((k - 1) \div f[1]) % f[2], (k - 1) % f[1] >>]   \* <<dz, dy, dx>>

\* value found at position (z, y, x) of channel ch, completed outside the array
Completed(c, ch, z, y, x) ==
  IF z < c.shape[2] /\ y < c.shape[3] /\ x < c.shape[4] THEN At(c, ch, z, y, x)
  ELSE IF c.pad = "const" THEN Val(c, c.ov)
  ELSE At(c, ch, MinI(z, c.shape[2] - 1), MinI(y, c.shape[3] - 1), MinI(x, c.shape[4] - 1))

\* contributors of output voxel p
MeanContrib(c, p) ==
  LET offs == BlockOffsets(c.f) IN
  [k \in 1..Len(offs) |->
     Completed(c, p[1], p[2] * c.f[3] + offs[k][1], p[3] * c.f[2] + offs[k][2],
               p[4] * c.f[1] + offs[k][3])]
ClippedContrib(c, p) ==
  LET offs == BlockOffsets(c.f)
      inside == SelectSeq(offs, LAMBDA d : /\ p[2] * c.f[3] + d[1] < c.shape[2]
                                            /\ p[3] * c.f[2] + d[2] < c.shape[3]
                                            /\ p[4] * c.f[1] + d[3] < c.shape[4])
  IN [k \in 1..Len(inside) |->
        At(c, p[1], p[2] * c.f[3] + inside[k][1], p[3] * c.f[2] + inside[k][2],
           p[4] * c.f[1] + inside[k][3])]
Contrib(c, p) ==
  IF c.method = "average" THEN MeanContrib(c, p)
  ELSE IF c.method = "majority" THEN ClippedContrib(c, p)
  ELSE <<At(c, p[1], p[2] * c.f[3], p[3] * c.f[2], p[4] * c.f[1])>>

SSum(vals) == FoldLeft(SAdd, <<0, << >>>>, vals)
SMin(vals) == vals[CHOOSE i \in 1..Len(vals) : \A j \in 1..Len(vals) : SLeq(vals[i], vals[j])]
SMax(vals) == vals[CHOOSE i \in 1..Len(vals) : \A j \in 1..Len(vals) : SLeq(vals[j], vals[i])]

Log2(n) == CHOOSE k \in 0..30 : 2^k = n          \* n a power of two
\* exact mean of vals (count a power of two), half-even for integer kinds
MeanExact(kind, vals) ==
  LET s == SSum(vals)
      k == Log2(Len(vals))
      q == ShiftR(s[2], k)
      frac == Reverse(Pad(Low(s[2], k), k))        \* remainder / count, as fraction bits
  IN IF kind = "int" THEN SCanon(<<s[1], RoundMagHE(q, frac)>>)
     ELSE SCanon(<<s[1], q>>)
\* float kind: the case must lie in the domain where the mean is exact
\* the exact mean is a float32: divisible by the count, and at most 24 SIGNIFICANT
\* bits (trailing zero bits do not count: few-bit values at the top of the range)
SigLen(b) == IF b = << >> THEN 0
             ELSE Len(b) - (CHOOSE i \in 1..Len(b) : b[i] = 1 /\ \A j \in 1..(i - 1) : b[j] = 0) + 1
MeanIsExact(vals) ==
  LET s == SSum(vals) IN Low(s[2], Log2(Len(vals))) = << >> /\ SigLen(s[2]) <= 24

\* INTEGER data with a NON-INTEGER outside value (--outside-value is a float):
\* the case carries data and outside value in units of 2^-u (field "u", absent =
\* 0) while the result elements are plain integers; the mean is then
\* sum / (count * 2^u), rounded half-to-even to an integer.
UBits(c) == IF "u" \in DOMAIN c THEN c.u ELSE 0
MeanExactU(kind, vals, u) ==
  IF u = 0 \/ kind # "int" THEN MeanExact(kind, vals)
  ELSE LET s == SSum(vals)
           k == Log2(Len(vals)) + u
           q == ShiftR(s[2], k)
           frac == Reverse(Pad(Low(s[2], k), k))
       IN SCanon(<<s[1], RoundMagHE(q, frac)>>)
BlockMean(c, p) == MeanExactU(c.kind, MeanContrib(c, p), UBits(c))
Majority(c, p) ==
  LET vals == ClippedContrib(c, p)
      cnt(i) == Cardinality({j \in 1..Len(vals) : vals[j] = vals[i]})
      best == CHOOSE i \in 1..Len(vals) : \A j \in 1..Len(vals) : cnt(j) <= cnt(i)
      cands == {i \in 1..Len(vals) : cnt(i) = cnt(best)}
  IN vals[CHOOSE i \in cands : \A j \in cands : SLeq(vals[i], vals[j])]
Stride(c, p) == At(c, p[1], p[2] * c.f[3], p[3] * c.f[2], p[4] * c.f[1])

Expected(c, p) ==
  IF c.method = "average" THEN BlockMean(c, p)
  ELSE IF c.method = "majority" THEN Majority(c, p)
  ELSE Stride(c, p)
InRange(c, p, out) ==
  LET vals == Contrib(c, p)
      u == UBits(c)
      o == IF u = 0 \/ out[1] = 2 THEN out ELSE <<out[1], ShiftL(out[2], u)>>
      \* u > 0 (non-integer outside value on integer data): the rounded mean of 8 and
      \* 3 x 7.25 is 7 < 7.25, so the range is taken in values of the data type:
      \* floor(min) <= out <= ceil(max), i.e. out*2^u + (2^u - 1) >= min, out*2^u - (2^u - 1) <= max
      slack == <<0, [i \in 1..u |-> 1]>>
  IN IF u = 0 \/ out[1] = 2 THEN SLeq(SMin(vals), o) /\ SLeq(o, SMax(vals))
     ELSE SLeq(SMin(vals), SAdd(o, slack)) /\ SLeq(SAdd(o, <<1, slack[2]>>), SMax(vals))

StatClause(c) == IF c.method = "average" THEN "oracle:BlockMean"
                 ELSE IF c.method = "majority" THEN "oracle:Majority" ELSE "oracle:Stride"

\* ------------------------------------------------------------- design -----
(* small-scale model in plain integers; an intermediate is <<n, k>> = n/2^k  *)
CONSTANTS WorkType, SigBits, TypeBits
VARIABLES cfg
dvars == <<cfg>>

Pow2(k) == 2^k
\* round n / 2^k half-even to an integer
RintQ(a) == LET q == a[1] \div Pow2(a[2])
                r == a[1] % Pow2(a[2])
            IN IF 2 * r > Pow2(a[2]) \/ (2 * r = Pow2(a[2]) /\ q % 2 = 1) THEN q + 1 ELSE q
BitLen(n) == IF n = 0 THEN 0 ELSE CHOOSE b \in 1..31 : Pow2(b - 1) <= n /\ n < Pow2(b)
\* n / 2^k rounded to SigBits significant bits, ties to even (work type "sig")
RoundSig(a) ==
  IF WorkType = "exact" \/ BitLen(a[1]) <= SigBits THEN a
  ELSE LET d == BitLen(a[1]) - SigBits
           m == RintQ(<<a[1], d>>)
       IN IF d <= a[2] THEN <<m, a[2] - d>> ELSE <<m * Pow2(d - a[2]), 0>>
QAdd(a, b) == LET k == MaxI(a[2], b[2])
              IN RoundSig(<<a[1] * Pow2(k - a[2]) + b[1] * Pow2(k - b[2]), k>>)
QHalf(a) == RoundSig(<<a[1], a[2] + 1>>)
ToWork(n) == RoundSig(<<n, 0>>)
\* data and outside value of a case travel in units of 2^-u (UBits; 0 unless the
\* outside value of integer data is not an integer)
ToWorkU(c, n) == RoundSig(<<n, UBits(c)>>)

\* one axis (2 = z, 3 = y, 4 = x) of a 3-D work array W : positions -> <<n, k>>
HalveAxis(W, shape, axis, c) ==
  LET n == shape[axis]
      nshape == [shape EXCEPT ![axis] = CeilDiv(n, 2)]
      get(p, i) == IF i < n THEN W[[p EXCEPT ![axis] = i]]
                   ELSE IF c.pad = "const" THEN ToWorkU(c, c.ov)
                   ELSE W[[p EXCEPT ![axis] = n - 1]]
      pos == {<<0, z, y, x>> : z \in 0..(nshape[2] - 1), y \in 0..(nshape[3] - 1), x \in 0..(nshape[4] - 1)}
  IN <<[p \in pos |-> QHalf(QAdd(get(p, 2 * p[axis]), get(p, 2 * p[axis] + 1))) ], nshape>>

\* channel 0 of case c (enc "nat") through the design
PairwiseHalfSum(c) ==
  LET sh0 == <<1, c.shape[2], c.shape[3], c.shape[4]>>
      W0 == [p \in {<<0, z, y, x>> : z \in 0..(sh0[2] - 1), y \in 0..(sh0[3] - 1), x \in 0..(sh0[4] - 1)}
               |-> ToWorkU(c, c.data[Flat(c.shape, 0, p[2], p[3], p[4])])]
      s1 == IF c.f[3] = 2 THEN HalveAxis(W0, sh0, 2, c) ELSE <<W0, sh0>>
      s2 == IF c.f[2] = 2 THEN HalveAxis(s1[1], s1[2], 3, c) ELSE s1
      s3 == IF c.f[1] = 2 THEN HalveAxis(s2[1], s2[2], 4, c) ELSE s2
      tmax == Pow2(TypeBits) - 1
      bound == LET b == ToWork(tmax) IN b[1] \div Pow2(b[2])     \* clip bound in the work type
      fin(a) == LET r == RintQ(a)
                    cl == IF r > bound THEN bound ELSE r
                IN cl % Pow2(TypeBits)                            \* cast back (wraps beyond the type)
  IN <<[p \in DOMAIN s3[1] |-> fin(s3[1][p])], s3[2]>>

DesignAgrees ==
  LET d == PairwiseHalfSum(cfg) IN
  /\ d[2] = OutShape(<<1, cfg.shape[2], cfg.shape[3], cfg.shape[4]>>, cfg.f)
  /\ \A p \in DOMAIN d[1] : <<0, FromNat(d[1][p])>> = BlockMean(cfg, p)
\* the range clause asks nothing beyond the statistic (oracle self-consistency)
OracleInRange ==
  \A o \in 1..NVox(OutShape(cfg.shape, cfg.f)) :
     LET p == Coord(OutShape(cfg.shape, cfg.f), o) IN InRange(cfg, p, Expected(cfg, p))
DNext == UNCHANGED cfg
=============================================================================
