----------------------------- MODULE Trace_Stats -----------------------------
(* Judge for the formatter half of C20.  One case = one call of the REAL     *)
(* utils.readable_count:  n = the count as a bit sequence, s = the returned  *)
(* string as the sequence of its characters (lossless).  The verdict is the  *)
(* first failing oracle clause of Stats!ReadableClause; pos = 1 when the     *)
(* design layer (Threshold as configured) predicts a different string        *)
(* (reported as DRIFT by the harness, never a verdict).                      *)
EXTENDS Stats, Json, IOUtils, TLC

Cases == ndJsonDeserialize(IOEnv.TRACE_FILE)
VARIABLE tid
Init == tid \in 1..Len(Cases)
Next == UNCHANGED tid
Spec == Init /\ [][Next]_tid

Emit == LET c == Cases[tid]
            cl == ReadableClause(c.n, c.s)
            drift == IF DesignFormat(c.n) = c.s THEN 0 ELSE 1
        IN PrintT(<<"VERDICT", tid, IF cl = "ok" THEN "ok" ELSE "bad", cl, drift>>)
=============================================================================
