----------------------------- MODULE Trace_Stats -----------------------------
(* Judge for the formatter half of C20.  One case = one call of the REAL     *)
(* utils.readable_count:  n = the count as a bit sequence, s = the returned  *)
(* string as the sequence of its characters (lossless).  The verdict is the  *)
(* first failing oracle clause of Stats!ReadableClause; pos = 1 when the     *)
(* design layer (Threshold as configured in Trace_Stats.cfg: "byLength"      *)
(* since fix 7cbc19a of /repo, "gt10" before) predicts a different string     *)
(* (reported as DRIFT by the harness, never a verdict); the design is only   *)
(* consulted for the cases the harness marks with d = 1.                     *)
EXTENDS Stats, Json, IOUtils, TLC

Cases == ndJsonDeserialize(IOEnv.TRACE_FILE)
\* The verdict is computed on the SUCCESSOR state (done = TRUE): TLC generates
\* initial states in one thread but explores successors with all workers.
VARIABLES tid, done
Init == tid \in 1..Len(Cases) /\ done = FALSE
Next == ~done /\ done' = TRUE /\ UNCHANGED tid
Spec == Init /\ [][Next]_<<tid, done>>

Emit == done =>
        LET c == Cases[tid]
            cl == ReadableClause(c.n, c.s)
            drift == IF c.d = 0 \/ DesignFormat(c.n) = c.s THEN 0 ELSE 1
        IN PrintT(<<"VERDICT", tid, IF cl = "ok" THEN "ok" ELSE "bad", cl, drift>>)
=============================================================================
