SPECIFICATION Spec
CONSTANTS
  HalfShift = "minus"
  CfgSpace <- MCCfgSpace
INVARIANT ConventionIdentity
INVARIANT ProbesSuffice
