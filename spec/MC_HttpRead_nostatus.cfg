SPECIFICATION Spec
CONSTANTS
  LengthCheck = TRUE
  StatusCheck = FALSE
  MaxFaults = 2
INVARIANT NoWrongBytes
INVARIANT FaultFreeEqualsLocal
INVARIANT FaultIsError
