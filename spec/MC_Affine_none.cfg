SPECIFICATION Spec
CONSTANTS
  HalfShift = "none"
  CfgSpace <- MCCfgSpaceQuick
INVARIANT ConventionIdentity
INVARIANT ProbesSuffice
