SPECIFICATION FSpec
CONSTANTS
  SlotPlacement = "bySlot"
  EmptySlotRead = "skip"
  Sticky = "brokenFlag"
  CfgSpace <- QuickCfgSpace
INVARIANT NoSilentLoss
INVARIANT FailureReported
INVARIANT FaultFreeSame
