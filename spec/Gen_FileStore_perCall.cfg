SPECIFICATION GenSpec
CONSTANTS
  MimePolicy = "perCall"
  MaxOps = 5
INVARIANT Emit
