------------------------------ MODULE RawJpeg ------------------------------
(* "raw" and "jpeg" chunk decoders of the package (C10).                     *)
(*                                                                           *)
(* ORACLE LAYER.  The property: for ANY byte string the decoder returns an   *)
(* array of exactly the requested shape (C, Z, Y, X) and data type, or       *)
(* raises InvalidFormatError; valid data is never rejected.                  *)
(*   raw : the data is valid iff  len = C*X*Y*Z*itemsize  (Neuroglancer raw  *)
(*         = the little-endian array in C order of (C,Z,Y,X)); a valid       *)
(*         buffer must decode to exactly its own bytes.                      *)
(*   jpeg: JPEG decoding is not specified here; what the decoding library    *)
(*         (PIL) itself reports for the same bytes is an ENVIRONMENT FACT:   *)
(*           pil = [open   : "ok" | "err",     \* PIL.Image.open             *)
(*                  format : STRING, mode : STRING, w, h, bands : Nat,       *)
(*                  load   : "ok" | "err",     \* img.load() (pixel access)  *)
(*                  loadcls: STRING, pix : Seq(0..255)]  \* row-major, bands *)
(*                                                      \* interleaved       *)
(*         The data is VALID iff PIL opens it as a JPEG, decodes every pixel *)
(*         without error, the mode is "L" (1 channel) / "RGB" (3 channels)   *)
(*         and w*h = X*Y*Z (weak reading: only then is rejection blamed).    *)
(*         A valid buffer must decode to PIL's own pixels, channel-major.    *)
(*                                                                           *)
(* DESIGN LAYER.  RawOutcome: Ok iff the length rule holds.  JpegOutcome: the*)
(* wrapper automaton of _jpeg.decode_chunk over the PIL facts:               *)
(*   Open -> CheckMode -> Load -> Reshape -> Done, exits Error(clause) and   *)
(*   Crash(class).  Deviation switch JpegLoad:                               *)
(*     "unguarded" = pixel access (np.asarray(img)) happens outside the      *)
(*                   try/except, a lazy decoding error escapes (code today)  *)
(*     "guarded"   = the error is reported as InvalidFormatError             *)
EXTENDS Integers, Sequences, TLC

CONSTANT JpegLoad

NElems(c) == c.C * c.X * c.Y * c.Z

\* ---- oracle ---------------------------------------------------------------
RawValid(n, c) == n = NElems(c) * c.isz
JpegValid(pil, c) ==
  /\ pil.open = "ok" /\ pil.format = "JPEG" /\ pil.load = "ok"
  /\ (c.C = 1 /\ pil.mode = "L") \/ (c.C = 3 /\ pil.mode = "RGB")
  /\ pil.w * pil.h = c.X * c.Y * c.Z
\* the array (flat, C order of (C,Z,Y,X)) a valid JPEG chunk stands for
JpegPixels(pil, c) ==
  LET nv == c.X * c.Y * c.Z
  IN [k \in 1..(c.C * nv) |-> pil.pix[c.C * ((k - 1) % nv) + ((k - 1) \div nv) + 1]]

\* ---- design ---------------------------------------------------------------
RawOutcome(n, c) == IF RawValid(n, c) THEN [kind |-> "ok", clause |-> ""]
                    ELSE [kind |-> "err", clause |-> "Length"]

JInit == [pc |-> "Open", err |-> ""]
JTerminal(s) == s.pc \in {"Done", "Error", "Crash"}
JExit(pil, c, s) ==
  CASE s.pc = "Open"      -> IF pil.open # "ok" THEN "Open" ELSE ""
    [] s.pc = "CheckMode" -> IF (c.C = 1 /\ pil.mode # "L") \/ (c.C = 3 /\ pil.mode # "RGB")
                             THEN "Mode" ELSE ""
    [] s.pc = "Load"      -> IF pil.load # "ok" THEN "Load" ELSE ""
    [] s.pc = "Reshape"   -> IF pil.w * pil.h * pil.bands # NElems(c) THEN "Shape" ELSE ""
    [] OTHER              -> ""
JNextPc(pc) == CASE pc = "Open" -> "CheckMode" [] pc = "CheckMode" -> "Load"
                 [] pc = "Load" -> "Reshape" [] pc = "Reshape" -> "Done" [] OTHER -> pc
JStep(pil, c, s) ==
  LET x == JExit(pil, c, s) IN
  IF x = "" THEN [s EXCEPT !.pc = JNextPc(s.pc)]
  ELSE IF s.pc = "Load" /\ JpegLoad = "unguarded"
       THEN [pc |-> "Crash", err |-> pil.loadcls]
       ELSE [pc |-> "Error", err |-> x]
JOutcomeOf(s) == [kind |-> IF s.pc = "Done" THEN "ok" ELSE IF s.pc = "Error" THEN "err" ELSE "crash",
                  clause |-> s.err]
JpegOutcome(pil, c) ==
  JOutcomeOf(JStep(pil, c, JStep(pil, c, JStep(pil, c, JStep(pil, c, JInit)))))
=============================================================================
