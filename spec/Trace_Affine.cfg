SPECIFICATION Spec
INVARIANT Emit
