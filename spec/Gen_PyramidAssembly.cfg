SPECIFICATION GSpec
CONSTANTS
  CfgSpace <- Chunks
