SPECIFICATION GSpec
CONSTANTS
  AssignRule = "strict"
  CfgSpace <- Chunks
