SPECIFICATION Spec
CONSTANTS
  Dirs <- MCDirs
  TypeEncs <- FullTypeEncs
  Maxes <- FullMaxes
  Methods <- FullMethods
  Shardings <- FullShardings
  Codes <- FullCodes
  MeshDirs <- NoMesh
  MeshNames <- NoMesh
  Tables <- NoMesh
  MeshRewritesInfo = "keepAll"
  CfgSpace <- MidCfg
  MaxLen = 6
  AioForwardsMethod = TRUE
  CopyInfoLayout = "byInfo"
INVARIANT TypeOK
INVARIANT AllInOneEqualsSteps
INVARIANT RepeatIsNoop
INVARIANT SuccessMeansComplete
INVARIANT SourceUntouched
INVARIANT ConvertPreserves
