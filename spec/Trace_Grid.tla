----------------------------- MODULE Trace_Grid -----------------------------
(* Case specification for real volume conversions (C01, C->S).              *)
(* One case = one run of the real volume-to-precomputed tool, recorded by   *)
(* harness/vol_driver.py (no judging there):                                *)
(*   cfg      [size, chunk, channels] of scale 0, as in the info file       *)
(*   run      [outcome : "ok" | "raised" | "timeout", exit : Int]           *)
(*   haswrites, writes   coordinates of every accessor.store_chunk call     *)
(*            (recorded by a run-time wrapper; absent for sub-process runs) *)
(*   reads    coordinates of every chunk the harness read back through a    *)
(*            FRESH accessor + PrecomputedIO                                *)
(*   missing  those of them that could not be fetched / decoded             *)
(*   input    the voxel values found in the NIfTI file (as stored on disk,  *)
(*            before header scaling), integers in units of 1/map.iu         *)
(*   stored   the voxel values read back, integers in units of 1/map.ou;    *)
(*   nonrep   flat positions whose stored value is not a multiple of that   *)
(*            unit or is not finite (re-encoding marker)                    *)
(*   map      the documented value mapping of this run, exact rationals:    *)
(*            slope, inter (header scaling; 1, 0 under --ignore-scaling),   *)
(*            rescale, imin, imax (--input-min / --input-max), dtype (the   *)
(*            data_type of the info file)                                   *)
(* Flat position of voxel (x,y,z), channel c (1-based c):                   *)
(*   (((c-1)*sz + z)*sy + y)*sx + x + 1      (C order of a (C,Z,Y,X) array) *)
(*                                                                          *)
(* ORACLE (property statement):                                             *)
(*   Map(v) = Convert(Rescale(slope*v + inter)), Rescale maps [imin, imax]  *)
(*   linearly onto the range of the target type when --input-max is given,  *)
(*   Convert = round to nearest (ties to even) and saturate for integer     *)
(*   targets, identity for float32 (the harness only produces values that   *)
(*   float32 represents exactly).  Interpretations, chosen weak:            *)
(*   - rescaling is only exercised for integer targets (the tool's [0, 1]   *)
(*     convention for float targets is not documented);                     *)
(*   - the cases contain only integer / dyadic data, dyadic slopes and      *)
(*     intercepts, so IEEE arithmetic in the tool is exact and the exact    *)
(*     rational oracle is unambiguous;                                      *)
(*   - uint32 / uint64 upper saturation needs values >= 2^32 and is left to *)
(*     C11; here TypeHi of those types is "above every value of the case".  *)
(* Clauses: oracle:ConversionRaised, oracle:ExitCode, oracle:OnGrid,        *)
(*   oracle:Unwritten, oracle:VoxelValue.  The design layer of Grid.tla     *)
(*   (loop order z, y, x; one write per chunk) is compared as well; a       *)
(*   disagreement there is DRIFT (5th field of the verdict), not a verdict. *)
EXTENDS QRat, Json, IOUtils, TLC

\* the oracle operators of Grid.tla do not mention its state variables; the
\* design-layer variables are instantiated away
G == INSTANCE Grid WITH Clamp <- "min", CfgSpace <- {}, cfg <- 0, stored <- 0, count <- 0,
                        ix <- 0, iy <- 0, iz <- 0, phase <- 0, last <- 0
OnGrid(size, chunk, co) == G!OnGrid(size, chunk, co)
ChunkSet(size, chunk) == G!ChunkSet(size, chunk)
Min2(a, b) == G!Min2(a, b)
CeilDiv(a, b) == G!CeilDiv(a, b)

Cases == ndJsonDeserialize(IOEnv.TRACE_FILE)

VARIABLE tid
tvars == <<tid>>

FirstBad(seq) ==
  IF \E i \in 1..Len(seq) : seq[i] # "ok"
  THEN seq[CHOOSE i \in 1..Len(seq) : seq[i] # "ok" /\ \A j \in 1..(i - 1) : seq[j] = "ok"]
  ELSE "ok"

\* ---- value-mapping oracle -------------------------------------------------
BigInt == 2147483647
IsIntType(t) == t \in {"uint8", "uint16", "uint32", "uint64"}
TypeLo(t) == 0
TypeHi(t) == IF t = "uint8" THEN 255 ELSE IF t = "uint16" THEN 65535 ELSE BigInt

Sat(n, lo, hi) == IF n < lo THEN lo ELSE IF n > hi THEN hi ELSE n

Scaled(m, v) == QAdd(QMul(m.slope, QNorm(<<v, m.iu>>)), m.inter)

Rescaled(m, y) ==
  IF m.rescale
  THEN QAdd(QMul(QSub(y, m.imin),
                 QDiv(QInt(TypeHi(m.dtype) - TypeLo(m.dtype)), QSub(m.imax, m.imin))),
            QInt(TypeLo(m.dtype)))
  ELSE y

Map(m, v) ==
  LET y == Rescaled(m, Scaled(m, v)) IN
  IF IsIntType(m.dtype)
  THEN QInt(Sat(QRoundHE(y), TypeLo(m.dtype), TypeHi(m.dtype)))
  ELSE y

\* ---- clauses -------------------------------------------------------------
NVox(c) == c.cfg.size[1] * c.cfg.size[2] * c.cfg.size[3] * c.cfg.channels

Shape(c) ==
  /\ Len(c.input) = NVox(c) /\ Len(c.stored) = NVox(c)
  /\ c.map.iu > 0 /\ c.map.ou > 0
  /\ ~c.map.rescale \/ (IsIntType(c.map.dtype) /\ c.map.dtype \in {"uint8", "uint16"}
                        /\ c.map.imin # c.map.imax)     \* an inverted window (imin > imax) is a legal, decreasing map
  /\ {c.reads[k] : k \in 1..Len(c.reads)} = ChunkSet(c.cfg.size, c.cfg.chunk)

RunClause(c) ==
  IF c.run.outcome # "ok" THEN "oracle:ConversionRaised"
  ELSE IF c.run.exit # 0 THEN "oracle:ExitCode"
  ELSE "ok"

OnGridClause(c) ==
  IF \A k \in 1..Len(c.writes) : OnGrid(c.cfg.size, c.cfg.chunk, c.writes[k])
  THEN "ok" ELSE "oracle:OnGrid"

UnwrittenClause(c) == IF c.missing = << >> THEN "ok" ELSE "oracle:Unwritten"

ValueClause(c) ==
  LET vals == {c.input[k] : k \in 1..Len(c.input)}
      f == [v \in vals |-> Map(c.map, v)]
  IN IF /\ c.nonrep = << >>
        /\ \A k \in 1..Len(c.input) : QNorm(<<c.stored[k], c.map.ou>>) = f[c.input[k]]
     THEN "ok" ELSE "oracle:VoxelValue"

Clause(c) ==
  IF ~Shape(c) THEN "machinery:CaseShape"
  ELSE FirstBad(<<RunClause(c), OnGridClause(c), UnwrittenClause(c), ValueClause(c)>>)

\* ---- design layer comparison (DRIFT only) ---------------------------------
\* the write sequence predicted by the tiler of Grid.tla: z outermost, x innermost
TilerSeq(size, chunk) ==
  LET nx == CeilDiv(size[1], chunk[1])
      ny == CeilDiv(size[2], chunk[2])
      nz == CeilDiv(size[3], chunk[3])
  IN [k \in 1..(nx * ny * nz) |->
        LET i == (k - 1) % nx
            j == ((k - 1) \div nx) % ny
            l == (k - 1) \div (nx * ny)
        IN <<chunk[1] * i, Min2(chunk[1] * (i + 1), size[1]),
             chunk[2] * j, Min2(chunk[2] * (j + 1), size[2]),
             chunk[3] * l, Min2(chunk[3] * (l + 1), size[3])>>]

Drift(c) ==
  IF c.haswrites /\ c.run.outcome = "ok" /\ c.writes # TilerSeq(c.cfg.size, c.cfg.chunk)
  THEN 1 ELSE 0

Init == tid \in 1..Len(Cases)
Next == UNCHANGED tid
Spec == Init /\ [][Next]_tvars

Emit == LET c == Cases[tid]
            cl == Clause(c)
        IN PrintT(<<"VERDICT", tid, IF cl = "ok" THEN "ok" ELSE "bad", cl,
                    IF cl = "machinery:CaseShape" THEN 0 ELSE Drift(c)>>)
=============================================================================
