------------------------------- MODULE Grid -------------------------------
(* Chunk grids of one dataset scale, and the volume tiler (C01).            *)
(*                                                                          *)
(* ORACLE LAYER (from the property statement and the precomputed format):   *)
(*   a scale of size <<sx,sy,sz>> cut with chunk size <<cx,cy,cz>> consists *)
(*   of the chunks whose coordinates <<xmin,xmax,ymin,ymax,zmin,zmax>>      *)
(*   satisfy OnGrid: per axis 0 <= min < size, min a multiple of the chunk  *)
(*   size, max = Min(min + chunk, size).  A converted volume is right when  *)
(*   every voxel was written (none Unwritten) and holds the source voxel of *)
(*   the SAME coordinate and channel (EachVoxelOnce uses provenance values: *)
(*   the value of a source voxel is its own coordinate).                    *)
(*                                                                          *)
(* DESIGN LAYER: volume_reader.volume_to_precomputed as a state machine -   *)
(*   three nested loops over chunk indices (z outermost, then y, then x),   *)
(*   the slice bounds clamped with Min, one action per loop body:           *)
(*   WriteChunk(coords, content), content being the slice of the source     *)
(*   array (indexed X,Y,Z,C) moved to chunk order (C,Z,Y,X).                *)
(*   Deviation switch (non-vacuity only, the code is in position "min"):    *)
(*   Clamp \in {"min","none"} - "none" omits the Min(...) on the upper      *)
(*   slice bound, which must make AllOnGrid fail.                           *)
(*                                                                          *)
(* Coordinates are 0-based as in the code; a voxel is <<x,y,z>>.            *)
EXTENDS Integers, Sequences, FiniteSets

CONSTANTS Clamp, CfgSpace

Min2(a, b) == IF a < b THEN a ELSE b
CeilDiv(a, b) == (a - 1) \div b + 1

\* ---- oracle layer -------------------------------------------------------
Lo(co, d) == co[2 * d - 1]
Hi(co, d) == co[2 * d]

OnGridAxis(size, chunk, lo, hi) ==
  /\ 0 <= lo /\ lo < size
  /\ lo % chunk = 0
  /\ hi = Min2(lo + chunk, size)

OnGrid(size, chunk, co) ==
  /\ Len(co) = 6
  /\ \A d \in 1..3 : OnGridAxis(size[d], chunk[d], Lo(co, d), Hi(co, d))

AxisStarts(size, chunk) == {k * chunk : k \in 0..(CeilDiv(size, chunk) - 1)}

\* the set of chunks of a scale
ChunkSet(size, chunk) ==
  { <<x, Min2(x + chunk[1], size[1]), y, Min2(y + chunk[2], size[2]),
      z, Min2(z + chunk[3], size[3])>> :
      x \in AxisStarts(size[1], chunk[1]), y \in AxisStarts(size[2], chunk[2]),
      z \in AxisStarts(size[3], chunk[3]) }

Voxels(size) == (0..(size[1] - 1)) \X (0..(size[2] - 1)) \X (0..(size[3] - 1))

\* voxels of the (not necessarily on-grid) box co
Box(co) == (Lo(co, 1)..(Hi(co, 1) - 1)) \X (Lo(co, 2)..(Hi(co, 2) - 1)) \X (Lo(co, 3)..(Hi(co, 3) - 1))

InBox(co, v) == \A d \in 1..3 : Lo(co, d) <= v[d] /\ v[d] < Hi(co, d)

\* a sequence of chunk writes covers the scale exactly once
Covers(writes, size) ==
  \A v \in Voxels(size) : Cardinality({k \in 1..Len(writes) : InBox(writes[k], v)}) = 1

Unwritten == << >>      \* no channel values yet

\* ---- design layer: the volume tiler -------------------------------------
VARIABLES cfg,      \* [size, chunk, channels] - fixed at Init
          stored,   \* Voxel -> Unwritten | <<value of channel 1, ..>>
          count,    \* Voxel -> number of times written
          ix, iy, iz,  \* loop counters (chunk indices)
          phase,    \* "run" | "done"
          last      \* coordinates of the last chunk written (<< >> before)

vars == <<cfg, stored, count, ix, iy, iz, phase, last>>

\* provenance source: the value of voxel (x,y,z), channel c is <<x,y,z,c>>
Src(v, c) == <<v[1], v[2], v[3], c>>

\* volume[x_slicing, y_slicing, z_slicing, :] as a function of LOCAL indices
\* <<i,j,k,c>> (source order X,Y,Z,C)
SliceOf(co) ==
  [l \in (0..(Hi(co, 1) - Lo(co, 1) - 1)) \X (0..(Hi(co, 2) - Lo(co, 2) - 1))
         \X (0..(Hi(co, 3) - Lo(co, 3) - 1)) \X (1..cfg.channels)
     |-> Src(<<Lo(co, 1) + l[1], Lo(co, 2) + l[2], Lo(co, 3) + l[3]>>, l[4])]

\* np.moveaxis(chunk, (0,1,2,3), (3,2,1,0)): chunk order (C,Z,Y,X)
MoveAxis(sl) ==
  [m \in {<<l[4], l[3], l[2], l[1]>> : l \in DOMAIN sl} |-> sl[<<m[4], m[3], m[2], m[1]>>]]

\* what a precomputed chunk (C,Z,Y,X) stored at co means for the scale:
\* element <<c,k,j,i>> is voxel (xmin+i, ymin+j, zmin+k), channel c
WriteChunk(co, content) ==
  /\ stored' = [v \in DOMAIN stored |->
                  IF InBox(co, v)
                  THEN [c \in 1..cfg.channels |->
                          content[<<c, v[3] - Lo(co, 3), v[2] - Lo(co, 2), v[1] - Lo(co, 1)>>]]
                  ELSE stored[v]]
  /\ count' = [v \in DOMAIN count |-> IF InBox(co, v) THEN count[v] + 1 ELSE count[v]]

Upper(lo, chunk, size) == IF Clamp = "min" THEN Min2(lo + chunk, size) ELSE lo + chunk

TilerCoords ==
  <<cfg.chunk[1] * ix, Upper(cfg.chunk[1] * ix, cfg.chunk[1], cfg.size[1]),
    cfg.chunk[2] * iy, Upper(cfg.chunk[2] * iy, cfg.chunk[2], cfg.size[2]),
    cfg.chunk[3] * iz, Upper(cfg.chunk[3] * iz, cfg.chunk[3], cfg.size[3])>>

NX == CeilDiv(cfg.size[1], cfg.chunk[1])
NY == CeilDiv(cfg.size[2], cfg.chunk[2])
NZ == CeilDiv(cfg.size[3], cfg.chunk[3])

\* numpy slicing clips a stop beyond the axis: the data written are those of
\* the clipped box even when the reported coordinates are not clamped
ClipBox(co) ==
  <<Lo(co, 1), Min2(Hi(co, 1), cfg.size[1]), Lo(co, 2), Min2(Hi(co, 2), cfg.size[2]),
    Lo(co, 3), Min2(Hi(co, 3), cfg.size[3])>>

TilerStep ==
  /\ phase = "run"
  /\ LET co == TilerCoords IN
       /\ WriteChunk(ClipBox(co), MoveAxis(SliceOf(ClipBox(co))))
       /\ last' = co
  /\ IF ix + 1 < NX THEN ix' = ix + 1 /\ UNCHANGED <<iy, iz, phase>>
     ELSE IF iy + 1 < NY THEN ix' = 0 /\ iy' = iy + 1 /\ UNCHANGED <<iz, phase>>
     ELSE IF iz + 1 < NZ THEN ix' = 0 /\ iy' = 0 /\ iz' = iz + 1 /\ UNCHANGED phase
     ELSE phase' = "done" /\ UNCHANGED <<ix, iy, iz>>
  /\ UNCHANGED cfg

Init ==
  /\ cfg \in CfgSpace
  /\ stored = [v \in Voxels(cfg.size) |-> Unwritten]
  /\ count = [v \in Voxels(cfg.size) |-> 0]
  /\ ix = 0 /\ iy = 0 /\ iz = 0
  /\ phase = "run"
  /\ last = << >>

Next == TilerStep
Spec == Init /\ [][Next]_vars

\* ---- what TLC checks (Design => Oracle) ----------------------------------
AllOnGrid == last # << >> => OnGrid(cfg.size, cfg.chunk, last)
NeverTwice == \A v \in DOMAIN count : count[v] <= 1
EachVoxelOnce ==
  phase = "done" =>
    \A v \in Voxels(cfg.size) :
       /\ count[v] = 1
       /\ stored[v] # Unwritten
       /\ stored[v] = [c \in 1..cfg.channels |-> Src(v, c)]
=============================================================================
