---- MODULE Gen_HttpRead ----
(* S->C export for C14: every fault schedule (<= MaxFaults faults) of every
   fetch kind, as enumerated by TLC at Init. *)
EXTENDS HttpRead, Json
Emit == (pc = 1 /\ result = "pending") =>
          PrintT(<<"BEH", ToJson([kind |-> kind, nminis |-> nMinis, sched |-> sched])>>)
====
