SPECIFICATION Spec
CONSTANTS
  ChannelSlice = "to_end"
  Part = "valid"
  Tier = "quick"
INVARIANT Emit
