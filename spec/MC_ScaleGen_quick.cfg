SPECIFICATION Spec
CONSTANTS
  StopRule = "plusDelay"
  ChunkRule = "delayAware"
  ReduceRule = "loop"
  KeyRule = "fallback"
  AssignRule = "strict"
  SeedSpace <- SeedsQuickX
  SizeSpace <- SizeTriplesQ
INVARIANT Report
INVARIANT DesignValid
