SPECIFICATION GenSpec
CONSTANTS
  BoundCheck = "ge"
  ShortHeaderExc = "meshError"
  Pairs = FALSE
  FlipRule = "detNegative"
INVARIANT Emit
