SPECIFICATION Spec
CONSTANTS
  Clamp = "min"
  CfgSpace <- MCCfgSpace
INVARIANT AllOnGrid
INVARIANT NeverTwice
INVARIANT EachVoxelOnce
