SPECIFICATION Spec
CONSTANTS
  LengthCheck = FALSE
  StatusCheck = TRUE
  MaxFaults = 2
INVARIANT NoWrongBytes
INVARIANT FaultFreeEqualsLocal
INVARIANT FaultIsError
