SPECIFICATION Spec
CONSTANTS
  AssignRule = "numpy"
  CfgSpace <- MCSpaceQuick
INVARIANT NoSilentWrong
