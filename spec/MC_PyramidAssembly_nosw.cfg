SPECIFICATION Spec
CONSTANTS
  CfgSpace <- MCSpaceQuick
INVARIANT NoSilentWrong
