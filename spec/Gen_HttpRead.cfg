SPECIFICATION Spec
CONSTANTS
  LengthCheck = TRUE
  StatusCheck = TRUE
  MaxFaults = 2
INVARIANT Emit
