--------------------------- MODULE Trace_Pipeline ---------------------------
(* Trace specification for programs run on the REAL command-line tools      *)
(* (C->S, and the verdict half of S->C).  One case = one program executed   *)
(* as sub-processes by harness/pipeline_driver.py:                          *)
(*   cfg     input class [perfect, nall]                                    *)
(*   arrays  interned decoded arrays: [den, big, v]  (value = v / den;      *)
(*           big = 1: v holds decimal strings of values >= 2^31)            *)
(*   vol     index of the input volume (C, Z, Y, X order) in arrays         *)
(*   svol    orientation code -> index of the slice stack re-oriented to    *)
(*           RAS+ by the harness (documented index mapping), same order     *)
(*   init    snapshot of the directories before the first command           *)
(*   events  [cmd (record of Pipeline.tla), exit, snap, report, remote]     *)
(*   snap    per directory: fullres/transform ("absent"|"ok"|"bad", hash),  *)
(*           info [st, txt (canonical JSON), dtype, itemsize, channels,     *)
(*           type], scales additionally carry enc (their encoding),         *)
(*           scales [key, size, chunk, sharded, st (per chunk "ok" |        *)
(*           "absent" | "unreadable"), vox (array index of the decoded      *)
(*           whole scale, 0 unless every chunk is ok), nstored (chunks      *)
(*           found on disk), ncell (chunks of THIS chunking found on disk), *)
(*           alt (further chunk_sizes entries of the scale, each with       *)
(*           chunk, st, vox, ncell)], tree (hash of all files)              *)
(*   tables  label tables of link-mesh-fragments: id -> <<label, fragments>> *)
(*   meshfiles (per directory) files of the mesh directories: dir, name,    *)
(*           kind "frag" | "link", st, hash, label, frags; info.mesh = the  *)
(*           "mesh" key, info.core = the info without it                    *)
(*   fmt     (Convert events with a sharded destination) per scale the      *)
(*           .shard files in the abstract form of ShardFormat.tla with the  *)
(*           payloads replaced by the index of their decoded voxels, and    *)
(*           per grid position the index of the source voxels of that chunk *)
(*   report  tokenised stdout of scale-stats                                *)
(*                                                                          *)
(* The trace is consumed event by event with Pipeline's design function     *)
(* Run: every step evaluates                                                *)
(*   - the ORACLE clauses on the recorded snapshots (first failing clause   *)
(*     ends the trace with verdict "bad"): C19 (a)-(d), C13, C20 report;    *)
(*   - the DESIGN prediction (exit status, abstract effect, equal content   *)
(*     ids => equal arrays, "map" = the input volume): a mismatch is only   *)
(*     recorded ("drift"), the observed situation is adopted into the model *)
(*     state and the trace goes on.                                         *)
(* Verdict: <<"VERDICT", tid, "ok" | "drift" | "bad", clause, position>>.   *)
(*                                                                          *)
(* Oracle clause names                                                      *)
(*   oracle:SourceChanged           convert-chunks altered its source       *)
(*   oracle:SuccessButMissingFile   exit 0, info / info_fullres / transform *)
(*                                  missing or not JSON                     *)
(*   oracle:SuccessButWrongInfo     generate-scales-info exit 0, but the    *)
(*                                  info on disk does not have the          *)
(*                                  requested type / encoding / max. scales *)
(*   oracle:SuccessButMissingChunk  exit 0, a chunk the step is responsible *)
(*                                  for cannot be fetched by a fresh reader *)
(*   oracle:SuccessButUnreadable    exit 0, such a chunk does not decode    *)
(*   oracle:RepeatChangedContents   same command again on its own output    *)
(*                                  (first run exit 0) changed decoded      *)
(*                                  contents / info files                   *)
(*   oracle:RefusedCopyChangedDestination  convert-chunks --copy-info exits  *)
(*                                  non-zero on a destination that already   *)
(*                                  had an info, but changed its contents   *)
(*   oracle:ConvertFailed           fault-free program, the design accepts   *)
(*   oracle:AllInOneFailed          the command, the tool exits non-zero     *)
(*   oracle:StatsFailed             (commands named by the harness)          *)
(*   oracle:ConvertVoxelsDiffer     exit 0 and some scale of the            *)
(*                                  destination /= Convert(source scale),   *)
(*                                  for EVERY chunking the info declares    *)
(*   oracle:ConvertSpecReaderDiffers exit 0, sharded destination: a reader  *)
(*                                  written from the format text            *)
(*                                  (ShardFormat!SpecLookup with the        *)
(*                                  compressed Morton code of Morton.tla)   *)
(*                                  does not find some chunk, or finds      *)
(*                                  voxels /= Convert(source chunk)         *)
(*   oracle:AllInOneInfoDiffers / oracle:AllInOneVoxelsDiffer               *)
(*   oracle:StatsReportMissing / StatsChunkCount / StatsByteSize /          *)
(*   StatsTotals                    scale-stats exit 0 but ...              *)
(* Mesh commands (growth beyond the listed properties).  C19's "exit 0 =>   *)
(* written and readable" applies: oracle:SuccessButMissingFile when         *)
(* mesh-to-precomputed exits 0 without a readable info carrying the named   *)
(* mesh directory and the fragment, or link-mesh-fragments exits 0 without  *)
(* a link file per table row listing that row's fragments.  What only the   *)
(* tool help texts promise is recorded as DRIFT: growth:InfoScalesPreserved *)
(* (a mesh command leaves the info apart from the mesh key, the chunks and  *)
(* the other directory alone), growth:MeshKeyStable (the key never changes  *)
(* once written), growth:LinksNeedKey.                                      *)
(* Interpretations: see Pipeline.tla; additionally                          *)
(*  - Convert(v, t): identity for float32 targets (harness only uses        *)
(*    values float32 represents exactly); for integer targets round to      *)
(*    nearest (a value exactly half way may go either way) and clip to      *)
(*    [0, max(t)];                                                          *)
(*    the upper clip is only evaluated for 8/16-bit targets (values are     *)
(*    < 2^31 otherwise, or "big" arrays that only meet widening targets).   *)
(*  - chunk counts are compared exactly, and only for scales the tools have *)
(*    completely produced; sizes through the printed string: the shown      *)
(*    value must be within half a unit of its last digit of the true size   *)
(*    (= prod(size) * itemsize * channels = length of the decoded array *   *)
(*    itemsize).  Datasets are < 2 MB so the arithmetic fits TLC integers.  *)
EXTENDS Pipeline, Integers, Json, IOUtils, SequencesExt

SF == INSTANCE ShardFormat      \* oracle reader of the sharded format (no constants)

Cases == ndJsonDeserialize(IOEnv.TRACE_FILE)

VARIABLES tid, l, bad, drift, dpos
tvars == <<vars, tid, l, bad, drift, dpos>>

TraceDirs == {"A", "B"}
NoPairs == {}
Unused == {}

Case == Cases[tid]
Ev == Case.events
Arr(i) == Case.arrays[i]

FirstBad(seq) ==
  IF \E i \in 1..Len(seq) : seq[i] # "ok"
  THEN seq[CHOOSE i \in 1..Len(seq) : seq[i] # "ok" /\ \A j \in 1..(i - 1) : seq[j] = "ok"]
  ELSE "ok"

Chk(cond, name) == IF cond THEN "ok" ELSE name

\* ---- arrays -------------------------------------------------------------------
ArrSame(a, b) == a.big = b.big /\ a.den = b.den /\ a.v = b.v
VoxEq(i, j) == i = j \/ (i # 0 /\ j # 0 /\ ArrSame(Arr(i), Arr(j)))

IntMax(dt) == IF dt = "uint8" THEN 255 ELSE IF dt = "uint16" THEN 65535 ELSE 0   \* 0: not evaluated
Clip(v, dt) == IF v < 0 THEN 0 ELSE IF IntMax(dt) # 0 /\ v > IntMax(dt) THEN IntMax(dt) ELSE v
RoundNearest(v, den) == (2 * v + den) \div (2 * den)

\* the documented type conversion applied to a decoded array (ties upwards)
Conv(a, dt) ==
  IF a.big = 1 \/ dt = "float32" THEN a
  ELSE [den |-> 1, big |-> 0,
        v |-> [k \in 1..Len(a.v) |-> Clip(IF a.den = 1 THEN a.v[k] ELSE RoundNearest(a.v[k], a.den), dt)]]

\* b is a documented conversion of a to data type dt: "rounded to the nearest
\* integer" leaves both neighbours open for a value exactly half way
IsTie(v, den) == den # 1 /\ (2 * v) % (2 * den) = den
ConvOk(a, b, dt) ==
  LET c == Conv(a, dt) IN
  IF a.big = 1 \/ dt = "float32" \/ a.den = 1 THEN ArrSame(c, b)
  ELSE /\ b.big = 0 /\ b.den = 1 /\ Len(b.v) = Len(a.v)
       /\ \A k \in 1..Len(a.v) :
             \/ b.v[k] = c.v[k]
             \/ (IsTie(a.v[k], a.den) /\ b.v[k] = Clip(RoundNearest(a.v[k], a.den) - 1, dt))

\* ---- snapshots ------------------------------------------------------------------
Before(k) == IF k = 1 THEN Case.init ELSE Ev[k - 1].snap
ScaleIdx(sd, key) == {j \in 1..Len(sd.scales) : sd.scales[j].key = key}
ScDone(sc) == sc.vox # 0
AllOk(sc) == \A k \in 1..Len(sc.st) : sc.st[k] = "ok"
SomeAbsent(sc) == \E k \in 1..Len(sc.st) : sc.st[k] = "absent"

\* completeness clause of one scale after a successful step
ScaleComplete(sc) ==
  IF SomeAbsent(sc) THEN "oracle:SuccessButMissingChunk"
  ELSE IF ~AllOk(sc) \/ sc.vox = 0 THEN "oracle:SuccessButUnreadable"
  ELSE "ok"

ScalesComplete(sd, from) ==
  FirstBad([j \in 1..Len(sd.scales) |-> IF j >= from THEN ScaleComplete(sd.scales[j]) ELSE "ok"])

\* every chunking the info declares for the scale (convert-chunks writes them all)
ScaleCompleteAll(sc) ==
  FirstBad(<<ScaleComplete(sc)>> \o [a \in 1..Len(sc.alt) |-> ScaleComplete(sc.alt[a])])
ScalesCompleteAll(sd) == FirstBad([j \in 1..Len(sd.scales) |-> ScaleCompleteAll(sd.scales[j])])
AnyPresent(sc) == \E k \in 1..Len(sc.st) : sc.st[k] # "absent"

InfoOk(sd) == sd.info.st = "ok" /\ Len(sd.scales) >= 1

\* (c) exit status 0 => everything the step is responsible for exists, readable
SuccessClause(c, S1) ==
  LET sd == S1[c.d] IN
  CASE c.op = "GenInfo"   -> Chk(sd.fullres = "ok" /\ sd.transform = "ok", "oracle:SuccessButMissingFile")
    [] c.op = "GenScales" -> IF ~InfoOk(sd) THEN "oracle:SuccessButMissingFile"
                             \* the info on disk is the one this command was asked to produce
                             ELSE Chk(/\ sd.info.type = c.type
                                      /\ \A j \in 1..Len(sd.scales) : sd.scales[j].enc = c.enc
                                      /\ (c.max = "one" => Len(sd.scales) = 1)
                                      /\ (c.max = "two" => Len(sd.scales) <= 2),
                                      "oracle:SuccessButWrongInfo")
    [] c.op = "Edit"      -> "ok"
    [] c.op = "Rechunk"   -> "ok"
    [] c.op = "Obstruct"  -> "ok"
    [] c.op = "Damage"    -> "ok"
    [] c.op = "Mesh"      -> Chk(/\ InfoOk(sd) /\ sd.info.mesh = c.m
                                 /\ \E k \in 1..Len(sd.meshfiles) :
                                       /\ sd.meshfiles[k].kind = "frag" /\ sd.meshfiles[k].dir = c.m
                                       /\ sd.meshfiles[k].name = c.code /\ sd.meshfiles[k].st = "ok",
                                 "oracle:SuccessButMissingFile")
    [] c.op = "Link"      -> Chk(/\ InfoOk(sd) /\ sd.info.mesh # "none"
                                 /\ \A r \in 1..Len(Case.tables[c.m]) :
                                       \E k \in 1..Len(sd.meshfiles) :
                                          /\ sd.meshfiles[k].kind = "link" /\ sd.meshfiles[k].dir = sd.info.mesh
                                          /\ sd.meshfiles[k].label = Case.tables[c.m][r][1]
                                          /\ sd.meshfiles[k].st = "ok"
                                          /\ sd.meshfiles[k].frags = Case.tables[c.m][r][2],
                                 "oracle:SuccessButMissingFile")
    [] c.op = "Restore"   -> "ok"
    [] c.op = "Stats"     -> "ok"
    [] c.op = "HandInfo"  -> Chk(sd.fullres = "ok", "oracle:SuccessButMissingFile")
    [] c.op \in {"Vol", "Slices"}
                          -> IF ~InfoOk(sd) THEN "oracle:SuccessButMissingFile"
                             ELSE ScaleComplete(sd.scales[1])
    [] c.op = "Compute"   -> IF ~InfoOk(sd) THEN "oracle:SuccessButMissingFile"
                             ELSE ScalesComplete(sd, 2)
    [] c.op = "Convert"   -> IF ~InfoOk(sd) THEN "oracle:SuccessButMissingFile"
                             ELSE ScalesCompleteAll(sd)
    [] OTHER              -> IF ~InfoOk(sd) THEN "oracle:SuccessButMissingFile"
                             ELSE ScalesComplete(sd, 1)

\* (b) decoded contents and info files of a directory are the same
DirSame(a, b) ==
  /\ a.fullres = b.fullres /\ a.frh = b.frh
  /\ a.transform = b.transform /\ a.trh = b.trh
  /\ a.info.st = b.info.st /\ a.info.txt = b.info.txt
  /\ Len(a.scales) = Len(b.scales)
  /\ \A j \in 1..Len(a.scales) :
        /\ a.scales[j].key = b.scales[j].key
        /\ a.scales[j].st = b.scales[j].st
        /\ VoxEq(a.scales[j].vox, b.scales[j].vox)
        /\ Len(a.scales[j].alt) = Len(b.scales[j].alt)
        /\ \A x \in 1..Len(a.scales[j].alt) :
              /\ a.scales[j].alt[x].st = b.scales[j].alt[x].st
              /\ VoxEq(a.scales[j].alt[x].vox, b.scales[j].alt[x].vox)

FirstOk(c, e) == e = 0 \/ (c.op = "GenInfo" /\ e = 4)

RepeatClause(k) ==
  IF k > 1 /\ Ev[k].cmd.op # "Stats" /\ Ev[k - 1].cmd = Ev[k].cmd
     /\ Ev[k - 1].remote = Ev[k].remote /\ FirstOk(Ev[k - 1].cmd, Ev[k - 1].exit)
  THEN Chk(\A d \in TraceDirs : DirSame(Before(k)[d], Ev[k].snap[d]), "oracle:RepeatChangedContents")
  ELSE "ok"

\* a --copy-info conversion that is refused because the destination already has an
\* info (the tools never overwrite one) must leave that destination as it was
RefusedCopyClause(k) ==
  LET c == Ev[k].cmd IN
  IF c.op = "Convert" /\ c.copy = "copy" /\ Ev[k].exit # 0 /\ Before(k)[c.d].info.st = "ok"
  THEN Chk(DirSame(Before(k)[c.d], Ev[k].snap[c.d]), "oracle:RefusedCopyChangedDestination")
  ELSE "ok"

\* (d) the source of a conversion is left alone
SourceClause(k) ==
  IF Ev[k].cmd.op = "Convert"
  THEN Chk(Before(k)[Ev[k].cmd.src].tree = Ev[k].snap[Ev[k].cmd.src].tree, "oracle:SourceChanged")
  ELSE "ok"

\* C13: every scale of the destination decodes to the converted source scale
ConvertClause(k) ==
  LET c == Ev[k].cmd IN
  IF c.op # "Convert" \/ Ev[k].exit # 0 THEN "ok"
  ELSE LET src == Before(k)[c.src]
           dst == Ev[k].snap[c.d]
       IN Chk(/\ dst.info.st = "ok"
              /\ \A j \in 1..Len(dst.scales) :
                    LET J == ScaleIdx(src, dst.scales[j].key) IN
                    /\ J # {}
                    /\ LET sj == CHOOSE x \in J : TRUE IN
                       /\ src.scales[sj].vox # 0
                       /\ dst.scales[j].vox # 0
                       /\ ConvOk(Arr(src.scales[sj].vox), Arr(dst.scales[j].vox), dst.info.dtype)
                       /\ \A x \in 1..Len(dst.scales[j].alt) :
                             /\ dst.scales[j].alt[x].vox # 0
                             /\ ConvOk(Arr(src.scales[sj].vox), Arr(dst.scales[j].alt[x].vox),
                                       dst.info.dtype),
              "oracle:ConvertVoxelsDiffer")

\* C13 for a reader that follows the sharded format text: every chunk of the
\* destination grid is located by SpecLookup (slot = minishard number, ids
\* cumulative) under its compressed Morton code and decodes to the source chunk
SpecReaderClause(k) ==
  LET c == Ev[k].cmd IN
  IF c.op # "Convert" \/ Ev[k].exit # 0 \/ Ev[k].fmt = << >> THEN "ok"
  ELSE LET dt == Ev[k].snap[c.d].info.dtype IN
       Chk(\A j \in 1..Len(Ev[k].fmt) :
              LET f == Ev[k].fmt[j] IN
              \A x \in 1..Len(f.chunks) :
                 LET ch == f.chunks[x]
                     r == SF!SpecLookup(f.cfg, f.files, SF!Code(f.cfg.grid, ch.pos))
                 IN /\ r.st = "found"
                    /\ r.pay.st = "ok" /\ Len(r.pay.data) = 1
                    /\ r.pay.data[1] # 0 /\ ch.src # 0
                    /\ ConvOk(Arr(ch.src), Arr(r.pay.data[1]), dt),
           "oracle:ConvertSpecReaderDiffers")

\* (a) all-in-one = steps, on the pairs the provenance tracker relates
PairClause(p, pv, S1) ==
  LET a == S1[p[1]]
      s == S1[p[2]]
  IN IF ~(a.info.st = "ok" /\ s.info.st = "ok" /\ a.info.txt = s.info.txt)
     THEN "oracle:AllInOneInfoDiffers"
     ELSE Chk(/\ pv[p[1]].stage = 1
              /\ Len(a.scales) = Len(s.scales)
              /\ \A j \in 1..Len(a.scales) :
                    /\ a.scales[j].key = s.scales[j].key
                    /\ a.scales[j].st = s.scales[j].st
                    /\ VoxEq(a.scales[j].vox, s.scales[j].vox),
              "oracle:AllInOneVoxelsDiffer")

AioClause(pv, S1) ==
  LET P == AioPairs(pv) IN
  IF P = NoPairs THEN "ok"
  ELSE LET badp == {p \in P : PairClause(p, pv, S1) # "ok"} IN
       IF badp = NoPairs THEN "ok" ELSE PairClause(CHOOSE p \in badp : TRUE, pv, S1)

\* C20 report
Pow1024(k) == IF k = 0 THEN 1 ELSE IF k = 1 THEN 1024 ELSE 1048576
Pow10(f) == IF f = 0 THEN 1 ELSE IF f = 1 THEN 10 ELSE IF f = 2 THEN 100 ELSE 1000
Abs(x) == IF x < 0 THEN 0 - x ELSE x
\* shown value within half a unit of its last digit of the true value
Within(tok, true) ==
  /\ tok.k <= 2 /\ tok.fd <= 3
  /\ (tok.k = 2 => tok.mant <= 2000)
  /\ 2 * Abs(tok.mant * Pow1024(tok.k) - true * Pow10(tok.fd)) <= Pow1024(tok.k)

Prod3(s) == s[1] * s[2] * s[3]
TrueBytes(sd, sc) == Prod3(sc.size) * sd.info.itemsize * sd.info.channels
SumSeq(s) == FoldLeft(LAMBDA a, b : a + b, 0, s)

\* one report line per (scale, chunking), in the order of the info
LineRefs(sd) ==
  FoldLeft(LAMBDA acc, j : acc \o <<<<j, 0>>>> \o [x \in 1..Len(sd.scales[j].alt) |-> <<j, x>>],
           << >>, [j \in 1..Len(sd.scales) |-> j])
ChunkingOf(sd, ref) == IF ref[2] = 0 THEN sd.scales[ref[1]] ELSE sd.scales[ref[1]].alt[ref[2]]

DataOps == {"Vol", "Slices", "Compute", "Convert", "AllInOne"}
\* no data-writing command on this directory has failed so far
DirClean(k, d) ==
  \A i \in 1..(k - 1) : (Ev[i].cmd.d = d /\ Ev[i].cmd.op \in DataOps) => Ev[i].exit = 0

StatsClause(k) ==
  LET c == Ev[k].cmd
      r == Ev[k].report
      sd == Ev[k].snap[c.d]
  IN
  IF c.op # "Stats" \/ Ev[k].exit # 0 THEN "ok"
  ELSE IF ~r.ok \/ sd.info.st # "ok" \/ Len(r.lines) # Len(LineRefs(sd)) THEN "oracle:StatsReportMissing"
  ELSE LET refs == LineRefs(sd)
           N == Len(refs)
           Sc(i) == sd.scales[refs[i][1]]
           Ck(i) == ChunkingOf(sd, refs[i])
           \* the tools have produced this chunking: completely, or in part by
           \* commands that all reported success
           produced(i) == ScDone(Ck(i)) \/ (DirClean(k, c.d) /\ AnyPresent(Ck(i)))
           allDone == \A i \in 1..N : ScDone(Ck(i))
       IN FirstBad(
            [i \in 1..N |-> Chk(r.lines[i].key = Sc(i).key /\ r.lines[i].chunk = Ck(i).chunk,
                                 "oracle:StatsReportMissing")]
            \o [i \in 1..N |-> Chk(/\ (produced(i) => (r.lines[i].n = Ck(i).ncell))
                                   /\ ((ScDone(Ck(i)) /\ Len(Sc(i).alt) = 0)
                                         => (r.lines[i].n = Sc(i).nstored)),
                                   "oracle:StatsChunkCount")]
            \o [i \in 1..N |-> Chk(/\ Within(r.lines[i].size, TrueBytes(sd, Sc(i)))
                                   /\ (ScDone(Ck(i)) =>
                                        Within(r.lines[i].size,
                                               Len(Arr(Ck(i).vox).v) * sd.info.itemsize)),
                                   "oracle:StatsByteSize")]
            \o << Chk(allDone => (r.total.n = SumSeq([i \in 1..N |-> Ck(i).ncell])),
                      "oracle:StatsTotals"),
                  \* totals = sums: of the reported per-line counts, and of the true sizes
                  Chk(r.total.n = SumSeq([i \in 1..N |-> r.lines[i].n]), "oracle:StatsTotals"),
                  Chk(Within(r.total.size, SumSeq([i \in 1..N |-> TrueBytes(sd, Sc(i))])),
                      "oracle:StatsTotals") >>)

OracleClause(k, pv) ==
  FirstBad(<< SourceClause(k),
              IF Ev[k].exit = 0 THEN SuccessClause(Ev[k].cmd, Ev[k].snap) ELSE "ok",
              RepeatClause(k),
              RefusedCopyClause(k),
              ConvertClause(k),
              SpecReaderClause(k),
              AioClause(pv, Ev[k].snap),
              StatsClause(k) >>)

\* ---- design prediction versus observation -----------------------------------------
ObsSharded(sd) == Len(sd.scales) >= 1 /\ \A j \in 1..Len(sd.scales) : sd.scales[j].sharded
SomePresent(sc) == \E k \in 1..Len(sc.st) : sc.st[k] # "absent"

DirAgrees(m, sd) ==
  /\ (m.fullres # "absent") = (sd.fullres # "absent")
  /\ m.transform = (sd.transform # "absent")
  /\ (m.info.n # 0) = (sd.info.st # "none")
  /\ (m.info.n # 0 =>
       (/\ sd.info.st = "ok"
        /\ Len(sd.scales) = m.info.n
        /\ (m.info.sh # "nosh") = ObsSharded(sd)
        /\ \A i \in 1..m.info.n :
              /\ Readable(m, i) = ScDone(sd.scales[i])
              \* (a write that fails on an obstructed scale may leave part of it behind)
              /\ (i \in m.blocked \/ (m.chunks[i] # "absent") = SomePresent(sd.scales[i]))))

\* equal content ids => equal decoded arrays; "map" = the input volume
ContentAgrees(M, S1) ==
  LET slots == {x \in TraceDirs \X Scales :
                  M[x[1]].info.n >= x[2] /\ Readable(M[x[1]], x[2])
                  /\ Len(S1[x[1]].scales) >= x[2] /\ S1[x[1]].scales[x[2]].vox # 0}
  IN /\ \A x, y \in slots :
           (M[x[1]].chunks[x[2]] = M[y[1]].chunks[y[2]]
            /\ S1[x[1]].info.dtype = S1[y[1]].info.dtype)      \* value ids: same type, same numbers
             => VoxEq(S1[x[1]].scales[x[2]].vox, S1[y[1]].scales[y[2]].vox)
     /\ \A x \in slots :
           (M[x[1]].chunks[x[2]] = "map" /\ Case.vol # 0)
             => ConvOk(Arr(Case.vol), Arr(S1[x[1]].scales[x[2]].vox), S1[x[1]].info.dtype)
     /\ \A x \in slots : \A code \in DOMAIN Case.svol :
           (M[x[1]].chunks[x[2]] = SliceContent(code) /\ Case.svol[code] # 0)
             => ConvOk(Arr(Case.svol[code]), Arr(S1[x[1]].scales[x[2]].vox), S1[x[1]].info.dtype)

\* what the tool help texts promise about the mesh commands (recorded as DRIFT)
ScalesSame(a, b) ==
  /\ Len(a.scales) = Len(b.scales)
  /\ \A j \in 1..Len(a.scales) : a.scales[j].st = b.scales[j].st /\ VoxEq(a.scales[j].vox, b.scales[j].vox)
GrowthClause(k) ==
  LET c == Ev[k].cmd
      b == Before(k)[c.d]
      a == Ev[k].snap[c.d]
  IN FirstBad(<<
       IF c.op \in {"Mesh", "Link"}
         THEN Chk(/\ a.info.st = b.info.st /\ a.info.core = b.info.core /\ ScalesSame(a, b)
                  /\ \A d \in TraceDirs \ {c.d} : Before(k)[d].tree = Ev[k].snap[d].tree,
                  "growth:InfoScalesPreserved")
         ELSE "ok",
       Chk((b.info.mesh # "none" /\ a.info.st # "none") => a.info.mesh = b.info.mesh, "growth:MeshKeyStable"),
       Chk((c.op = "Mesh" /\ b.info.mesh \notin {"none", c.m}) => (Ev[k].exit # 0 /\ a.tree = b.tree),
           "growth:MeshKeyStable"),
       Chk((c.op = "Link" /\ Ev[k].exit = 0) => b.info.mesh # "none", "growth:LinksNeedKey") >>)

MeshAgrees(m, sd) ==
  /\ (m.info.n # 0 => sd.info.mesh = m.info.mesh)
  /\ {sd.meshfiles[k].name : k \in {j \in 1..Len(sd.meshfiles) : sd.meshfiles[j].kind = "frag"}} = m.frags
  /\ {sd.meshfiles[k].label : k \in {j \in 1..Len(sd.meshfiles) : sd.meshfiles[j].kind = "link"}}
        = {p[1] : p \in m.links}

DesignClause(k, r) ==
  LET c == Ev[k].cmd IN
  FirstBad(<< GrowthClause(k),
              Chk(Ev[k].exit = r.exit, "design:ExitCode"),
              Chk(\A d \in TraceDirs : MeshAgrees(r.dirs[d], Ev[k].snap[d]), "design:MeshFiles"),
              Chk(\A d \in TraceDirs : DirAgrees(r.dirs[d], Ev[k].snap[d]), "design:Effect"),
              Chk(\A d \in TraceDirs \ {c.d} : Before(k)[d].tree = Ev[k].snap[d].tree,
                  "design:OtherDirTouched"),
              Chk(c.op = "Stats" => Before(k)[c.d].tree = Ev[k].snap[c.d].tree, "design:StatsWrote"),
              IF \A d \in TraceDirs : DirAgrees(r.dirs[d], Ev[k].snap[d])
                THEN Chk(ContentAgrees(r.dirs, Ev[k].snap), "design:ContentClass")
                ELSE "ok" >>)

\* adopt what was observed into the model state (after a drift)
Min2(a, b) == IF a < b THEN a ELSE b
Adopt(m, sd, k, d) ==
  LET nobs == IF sd.info.st = "ok" THEN Min2(Len(sd.scales), MaxScales) ELSE 0 IN
  [fullres |-> IF sd.fullres = "absent" THEN "absent"
               ELSE IF m.fullres # "absent" THEN m.fullres ELSE "nosh",
   transform |-> sd.transform # "absent",
   info |-> IF nobs = 0 THEN NoInfo
            ELSE [type |-> IF m.info.n # 0 THEN m.info.type ELSE "image",
                  enc |-> IF m.info.n # 0 THEN m.info.enc ELSE "raw",
                  n |-> nobs, mesh |-> sd.info.mesh,
                  sh |-> IF ObsSharded(sd) THEN (IF m.info.n # 0 /\ m.info.sh # "nosh" THEN m.info.sh ELSE "s110")
                         ELSE "nosh"],
   chunks |-> [i \in Scales |->
                 IF i <= nobs /\ sd.scales[i].vox # 0
                 THEN (IF m.chunks[i] # "absent" THEN m.chunks[i]
                       ELSE "obs" \o ToString(k) \o d \o ToString(i))
                 ELSE "absent"],
   mis |-> {},
   blocked |-> m.blocked,
   frags |-> {sd.meshfiles[x].name : x \in {j \in 1..Len(sd.meshfiles) : sd.meshfiles[j].kind = "frag"}},
   links |-> {<<sd.meshfiles[x].label, "obs">> : x \in {j \in 1..Len(sd.meshfiles) : sd.meshfiles[j].kind = "link"}}]

\* ---- behaviour -------------------------------------------------------------------------
TraceInit ==
  /\ tid \in 1..Len(Cases)
  /\ l = 1 /\ bad = "ok" /\ drift = "none" /\ dpos = 0
  /\ cfg = [perfect |-> Cases[tid].cfg.perfect, nall |-> Cases[tid].cfg.nall]
  /\ dirs = [d \in TraceDirs |-> EmptyDir]
  /\ prov = [d \in TraceDirs |-> PEmpty]
  /\ n = 0

Step ==
  /\ l <= Len(Ev) /\ bad = "ok"
  /\ LET c == Ev[l].cmd
         r == Run(c, dirs, cfg)
         pv == [prov EXCEPT ![c.d] = ProvStep(@, c, Ev[l].exit)]
         \* C13 promises a converted destination for EVERY valid source and parameter pair: in a
         \* fault-free program (flag set by the harness: no obstructed path, no damaged source)
         \* whose model state is in step with the observations, a conversion the design accepts
         \* must not end in an error
         \* (likewise the all-in-one command for C19 - the separate steps succeed on the same
         \* input - and scale-stats for C20; the harness names the commands in `mustops`)
         ms == IF /\ "mustops" \in DOMAIN Cases[tid]
                  /\ \E i \in 1..Len(Cases[tid].mustops) : Cases[tid].mustops[i] = c.op
                  /\ drift = "none" /\ r.exit = 0 /\ Ev[l].exit # 0
               THEN "oracle:" \o c.op \o "Failed" ELSE "ok"
         oc == LET o == OracleClause(l, pv) IN IF o # "ok" THEN o ELSE ms
         dc == DesignClause(l, r)
     IN /\ bad' = oc
        /\ prov' = pv
        /\ drift' = IF drift = "none" /\ dc # "ok" THEN dc ELSE drift
        /\ dpos' = IF drift = "none" /\ dc # "ok" THEN l ELSE dpos
        /\ dirs' = IF dc = "ok" THEN r.dirs
                   ELSE [d \in TraceDirs |-> Adopt(r.dirs[d], Ev[l].snap[d], l, d)]
        /\ l' = IF oc = "ok" THEN l + 1 ELSE l
        /\ n' = n + 1
  /\ UNCHANGED <<cfg, tid>>

TraceSpec == TraceInit /\ [][Step]_tvars

Done == bad # "ok" \/ l > Len(Ev)
Emit ==
  Done => PrintT(<<"VERDICT", tid,
                   IF bad # "ok" THEN "bad" ELSE IF drift # "none" THEN "drift" ELSE "ok",
                   IF bad # "ok" THEN bad ELSE IF drift # "none" THEN drift ELSE "ok",
                   IF bad # "ok" THEN l ELSE dpos>>)
=============================================================================
