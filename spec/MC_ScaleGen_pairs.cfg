SPECIFICATION Spec
CONSTANTS
  StopRule = "minusDelay"
  ChunkRule = "code"
  SeedSpace <- SeedsQuick
  SizeSpace <- SizeTriplesQ
INVARIANT PairsOk
