SPECIFICATION Spec
CONSTANTS
  StopRule = "plusDelay"
  ChunkRule = "code"
  ReduceRule = "loop"
  KeyRule = "fallback"
  AssignRule = "strict"
  SeedSpace <- SeedsQuick
  SizeSpace <- SizeTriplesQ
INVARIANT PairsOk
