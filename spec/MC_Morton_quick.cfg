SPECIFICATION Spec
CONSTANTS
  MaxG = 4
  LineMax = 33
  W = 8
  MaxTotal = 10
INVARIANT InjectiveInv
INVARIANT BoundedInv
INVARIANT MonotoneInv
INVARIANT DenseInv
INVARIANT MaskInv
