---------------------------- MODULE Gen_ValueMap ----------------------------
(* S->C for C11: the anchor points of every (input type, output type) pair,  *)
(* enumerated by TLC from the case splits of the oracle:                     *)
(*   0, 1, 2, 3, 4 and 2^k + {-3..3} for the k at which some type's limit,   *)
(*   float32's or float64's integer precision ends (7, 8, 15, 16, 24, 31,    *)
(*   32, 53, 63, 64), each with fraction 0, 1/2 and 1/4, 3/4 (below / above  *)
(*   one half), both signs; for float targets the ties of the 24-bit         *)
(*   significand (1 + 2^-24, ...), the subnormal quanta (2^-149, 2^-150, ...) *)
(*   and the largest finite float32 plus / minus half a unit in the last     *)
(*   place.  Only the points that ARE values of the input type are exported  *)
(*   (InType).  The harness feeds them to the real transformer.              *)
EXTENDS ValueMap, TLC, Json

InNames  == {"int8", "int16", "int32", "int64", "uint8", "uint16", "uint32", "uint64",
             "float32", "float64"}
OutNames == {"uint8", "uint16", "uint32", "uint64", "float32"}
Ks == {7, 8, 15, 16, 24, 31, 32, 53, 63, 64}

Around(k) == {Sub(Pow2B(k), FromNat(d)) : d \in 0..3} \cup {Add(Pow2B(k), FromNat(d)) : d \in 1..3}
IntMags == {FromNat(n) : n \in 0..4} \cup UNION {Around(k) : k \in Ks}
Fracs == {<< >>, <<1>>, <<0, 1>>, <<1, 1>>}
FracPow(k) == [j \in 1..k |-> IF j = k THEN 1 ELSE 0]                     \* 2^-k
FracPow2(k, l) == [j \in 1..l |-> IF j = k \/ j = l THEN 1 ELSE 0]        \* 2^-k + 2^-l
F32 == TypeOf("float32")
FloatMags ==
  { <<<<1>>, FracPow(24)>>, <<<<1>>, FracPow2(24, 50)>>, <<<<1>>, FracPow2(23, 24)>>,
    <<<<1>>, FracPow(23)>>, <<<<1>>, FracPow(25)>>, <<<<1>>, FracPow(52)>>,
    <<<< >>, FracPow(149)>>, <<<< >>, FracPow(150)>>, <<<< >>, FracPow2(150, 151)>>,
    <<<< >>, FracPow2(149, 150)>>, <<<< >>, FracPow(126)>>, <<<< >>, FracPow(151)>>,
    <<<< >>, FracPow(1074)>>,
    <<MaxMag(F32), << >>>>, <<Add(MaxMag(F32), Pow2B(103)), << >>>>,
    <<Add(MaxMag(F32), Pow2B(102)), << >>>>, <<Pow2B(128), << >>>>,
    <<Sub(MaxMag(F32), Pow2B(104)), << >>>>, <<Pow2B(200), << >>>> }
Points == {<<s, m, f>> : s \in {0, 1}, m \in IntMags, f \in Fracs}
          \cup {<<s, mf[1], mf[2]>> : s \in {0, 1}, mf \in FloatMags}

VARIABLE inName
GenInit == inName \in InNames /\ cfg = 0 /\ input = 0 /\ output = 0 /\ status = 0
GenNext == UNCHANGED <<inName, vars>>
GenSpec == GenInit /\ [][GenNext]_<<inName, vars>>
\* one record per input type; the harness crosses it with OutNames
Emit == PrintT(<<"BEH", ToJson([in |-> inName, outs |-> SetToSeq(OutNames),
                 pts |-> SetToSeq({Canon(v) : v \in {w \in Points : InType(w, TypeOf(inName))}})])>>)
=============================================================================
