SPECIFICATION Spec
CONSTANTS
  MaxVox = 4
  Sample = 0
INVARIANT Emit
