SPECIFICATION Spec
CONSTANTS
  StopRule = "minusDelay"
  ChunkRule = "code"
INVARIANT Emit
