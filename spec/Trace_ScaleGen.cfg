SPECIFICATION Spec
CONSTANTS
  StopRule = "plusDelay"
  ChunkRule = "delayAware"
  ReduceRule = "loop"
  KeyRule = "fallback"
  AssignRule = "strict"
INVARIANT Emit
