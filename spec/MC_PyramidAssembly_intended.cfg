SPECIFICATION Spec
CONSTANTS
  AssignRule = "strict"
  CfgSpace <- MCSpaceIntended
INVARIANT NoSilentWrong
INVARIANT IntendedCorrect
