SPECIFICATION Spec
CONSTANTS
  CfgSpace <- MCSpaceIntended
INVARIANT NoSilentWrong
INVARIANT IntendedCorrect
