SPECIFICATION HSpec
CONSTANTS
  SlotPlacement = "bySlot"
  EmptySlotRead = "skip"
  CfgSpace <- SessCfgSpace
CONSTRAINT HConstraint
INVARIANT Emit
