SPECIFICATION Spec
INVARIANT Emit
