---------------------------- MODULE Gen_Dispatch ----------------------------
(* S->C export: behaviours of the Dispatch design (TLC simulation), replayed *)
(* on the real get_accessor_for_url / accessors by harness/dispatch_driver.  *)
(* Opens with a malformed URL are added here (they change no state).        *)
EXTENDS Dispatch, Json, Sequences
VARIABLE hist
gvars == <<vars, hist>>
GenInit == Init /\ hist = <<[op |-> "init", k |-> info]>>
GenNext ==
  \/ \E k \in InfoKinds : WriteInfo(k) /\ hist' = Append(hist, [op |-> "write_info", k |-> k])
  \/ \E b \in BOOLEAN : SetReadable(b) /\ hist' = Append(hist, [op |-> "set_readable", b |-> b])
  \/ \E h \in Handles, s \in Schemes, so \in ShOpts :
        Open(h, s, so) /\ hist' = Append(hist, [op |-> "open", h |-> h, scheme |-> s, so |-> so])
  \/ \E h \in Handles, v \in Data : Store(h, v) /\ hist' = Append(hist, [op |-> "store", h |-> h, v |-> v])
  \/ \E h \in Handles : Close(h) /\ hist' = Append(hist, [op |-> "close", h |-> h])
  \/ \E u \in BadUrls : Tick /\ UNCHANGED <<info, readable, plain, shard, kind, pend, openedFor, latest, epoch>>
                        /\ hist' = Append(hist, [op |-> "open_bad", url |-> u])
GenSpec == GenInit /\ [][GenNext]_gvars
Emit == nops = MaxOps => PrintT(<<"BEH", ToJson([ops |-> hist])>>)
=============================================================================
