------------------------------- MODULE Affine -------------------------------
(* Placement of a converted volume in space (C16).                          *)
(*                                                                          *)
(* ORACLE LAYER (from the property statement and the two conventions):      *)
(*   NIfTI: the affine (A, a), in millimetres, gives the position of the    *)
(*     CENTRE of voxel i:  A.i + a.                                         *)
(*   Neuroglancer: voxel i of a scale with resolution res (nanometres)      *)
(*     occupies [i, i+1] o res in corner-based coordinates, so its centre   *)
(*     is (i + 1/2) o res; the layer transform (T, t) maps these            *)
(*     coordinates to physical nanometres.                                  *)
(*   Hence, for every voxel i of the volume:                                *)
(*        T.((i + 1/2) o res) + t  =  10^6 . (A.i + a)        CentreIdentity *)
(*   and  res[k] = 10^6 . || column k of A ||                  ResIsNorm    *)
(*   Everything is an exact rational <<num, den>> (QRat).  Lengths on the   *)
(*   Neuroglancer side are expressed in a per-case unit (K units per mm;    *)
(*   K = 1000, i.e. micrometres, keeps TLC's 32-bit integers safe; the      *)
(*   identity is homogeneous so the unit does not matter).  The norm is     *)
(*   checked squared (no square roots): res[k]^2 = K^2 . sum_r A[r][k]^2.   *)
(*   Info fields: size = the three spatial extents, channel count 1 for a   *)
(*   3-D file, n for a 4-D file, 3 for an RGB file, and a data type able to *)
(*   hold the values of the image; a sharding option "mb,sb,pb" becomes the *)
(*   sharding record of the precomputed format.                             *)
(*                                                                          *)
(* DESIGN LAYER: volume_reader.nibabel_image_to_info +                      *)
(*   transform.nifti_to_neuroglancer_transform as formulas:                 *)
(*     T[:,k] = A[:,k] / vs[k];  t = 10^6.a - T.(1/2 res)                    *)
(*   Deviation switch (non-vacuity; the code is at "minus"):                *)
(*   HalfShift \in {"minus", "plus", "none"}.                               *)
EXTENDS QRat, FiniteSets

CONSTANTS HalfShift, CfgSpace

\* ---- linear algebra on rationals -------------------------------------------
\* (all vectors have 3 components, matrices 3 rows; explicit tuples make TLC
\* evaluate them once instead of re-evaluating a lazy function at every use)
QVec(v) == <<QInt(v[1]), QInt(v[2]), QInt(v[3])>>
Dot3(u, v) == QAdd(QAdd(QMul(u[1], v[1]), QMul(u[2], v[2])), QMul(u[3], v[3]))
MatVec(M, v) == <<Dot3(M[1], v), Dot3(M[2], v), Dot3(M[3], v)>>
VAdd(u, v) == <<QAdd(u[1], v[1]), QAdd(u[2], v[2]), QAdd(u[3], v[3])>>
VScale(q, v) == <<QMul(q, v[1]), QMul(q, v[2]), QMul(q, v[3])>>
Col(M, k) == <<M[1][k], M[2][k], M[3][k]>>
Half == <<1, 2>>

\* ---- oracle layer --------------------------------------------------------
\* corner-based Neuroglancer coordinates of the centre of voxel i
NgCentre(res, i) == <<QMul(QAdd(QInt(i[1]), Half), res[1]), QMul(QAdd(QInt(i[2]), Half), res[2]),
                      QMul(QAdd(QInt(i[3]), Half), res[3])>>

CentreIdentity(T, t, res, A, a, K, i) ==
  LET lhs == VAdd(MatVec(T, NgCentre(res, i)), t)
      rhs == VScale(K, VAdd(MatVec(A, QVec(i)), a))
  IN \A r \in 1..3 : QEq(lhs[r], rhs[r])

ResIsNorm(res, A, K) ==
  \A k \in 1..3 :
     /\ res[k][1] > 0
     /\ QEq(QMul(res[k], res[k]), QMul(QMul(K, K), Dot3(Col(A, k), Col(A, k))))

\* The same predicate, safe for ANY observed rational res[k] = n/d (lowest
\* terms): R = K^2.|col k|^2 is a small rational P/Q in lowest terms (oracle
\* quantities only); (n/d)^2 = P/Q iff n^2 = P and d^2 = Q because n^2/d^2 is
\* in lowest terms too.  When n or d is 46341 or more its square exceeds every
\* 32-bit P, Q, so the equality is false - decided without computing the
\* square (TLC would stop with an overflow error on a wrong, long-winded
\* resolution such as 333333/1000).
SqrtLimit == 46341
ResIsNormSafe(res, A, K) ==
  \A k \in 1..3 :
     LET q == QNorm(res[k])
         R == QMul(QMul(K, K), Dot3(Col(A, k), Col(A, k)))
     IN /\ q[1] > 0
        /\ q[1] < SqrtLimit /\ q[2] < SqrtLimit
        /\ q[1] * q[1] = R[1] /\ q[2] * q[2] = R[2]

\* Reach of the fixed-point representation.  The harness reports an entry of
\* the generated resolution / translation whose magnitude is >= Reach case
\* units (131 mm at K = 1000; it may not fit TLC's integers) BY NAME instead of
\* by value.  WithinReach (evaluated by TLC on every case) bounds every TRUE
\* quantity of the case below Reach:
\*   res[k] = K.|col k| <= K.L1Col(k)
\*   |t[r]| = |K.a[r] - sum_k T[r][k].res[k]/2| <= K.(|a[r]| + 6.max_k L1Col(k))
\*            for ANY T with entries below 4 that satisfies the identity at
\*            voxel 0 (the true T has entries <= 1)
\* so an entry out of reach cannot satisfy ResIsNorm resp. CentreIdentity.
Reach == 131072
QAbsQ(q) == <<QAbs(q[1]), q[2]>>
L1Col(A, k) == QAdd(QAdd(QAbsQ(A[1][k]), QAbsQ(A[2][k])), QAbsQ(A[3][k]))
WithinReach(A, a, K) ==
  \A r \in 1..3, k \in 1..3 :
     QLess(QMul(K, QAdd(QAbsQ(a[r]), QMul(QInt(6), L1Col(A, k)))), QInt(Reach))
SmallT(T) == \A r \in 1..3, k \in 1..3 : QLess(QAbsQ(T[r][k]), QInt(4))
Thick(size) == \A k \in 1..3 : size[k] >= 2

\* the voxels at which the identity is evaluated: the 8 corners and the centre
CornerVoxels(size) == {<<x, y, z>> : x \in {0, size[1] - 1}, y \in {0, size[2] - 1}, z \in {0, size[3] - 1}}
CentreVoxel(size) == <<size[1] \div 2, size[2] \div 2, size[3] \div 2>>
ProbeVoxels(size) == CornerVoxels(size) \cup {CentreVoxel(size)}
AllVoxels(size) == (0..(size[1] - 1)) \X (0..(size[2] - 1)) \X (0..(size[3] - 1))

Placement(T, t, res, A, a, K, size) ==
  \A i \in ProbeVoxels(size) : CentreIdentity(T, t, res, A, a, K, i)

\* info fields
ExpectedSize(shape) == <<shape[1], shape[2], shape[3]>>
ExpectedChannels(layout, shape) ==
  IF layout = "rgb" THEN 3 ELSE IF Len(shape) >= 4 THEN shape[4] ELSE 1

NgTypes == {"uint8", "uint16", "uint32", "uint64", "float32"}
Pow24 == 16777216
\* data = [lo, hi : Int, integer : BOOLEAN] - range of the image values; the
\* harness keeps |values| < 2^31 and, when not integer, dyadic with few bits
CanHold(dtype, data) ==
  /\ dtype \in NgTypes
  /\ CASE dtype = "uint8"  -> data.integer /\ data.lo >= 0 /\ data.hi <= 255
       [] dtype = "uint16" -> data.integer /\ data.lo >= 0 /\ data.hi <= 65535
       [] dtype \in {"uint32", "uint64"} -> data.integer /\ data.lo >= 0
       [] OTHER -> data.lo >= -Pow24 /\ data.hi <= Pow24

ShardingRecord(mb, sb, pb, enc) ==
  [type |-> "neuroglancer_uint64_sharded_v1", minishard_bits |-> mb, shard_bits |-> sb,
   preshift_bits |-> pb, hash |-> "identity", minishard_index_encoding |-> enc,
   data_encoding |-> enc]

\* compact URL form: the matrix found by parsing the compact text equals the
\* matrix that was formatted (entries compared as exact binary values, given
\* as float.hex strings with the sign of zero dropped)
CompactRoundTrip(M, parsed) == parsed = M

\* ---- design layer --------------------------------------------------------
\* cfg = [D : 3x3 rational direction matrix with unit columns, vs : voxel sizes
\*        (mm, rationals), a : translation (mm), size]
VARIABLES cfg
vars == <<cfg>>

K0 == <<1000, 1>>
Row3(f(_)) == <<f(1), f(2), f(3)>>
AffineOf(c) == Row3(LAMBDA r : Row3(LAMBDA k : QMul(c.D[r][k], c.vs[k])))
DesignRes(c) == Row3(LAMBDA k : QMul(K0, c.vs[k]))
\* direction cosines: column k of the affine divided by the voxel size
DesignTOf(A, c) == Row3(LAMBDA r : Row3(LAMBDA k : QDiv(A[r][k], c.vs[k])))
DesignT(c) == DesignTOf(AffineOf(c), c)
DesignShift(c) == MatVec(DesignT(c), VScale(Half, DesignRes(c)))
DesignTrans(c) ==
  LET t0 == VScale(K0, c.a) IN
  IF HalfShift = "minus" THEN VAdd(t0, VScale(<<-1, 1>>, DesignShift(c)))
  ELSE IF HalfShift = "plus" THEN VAdd(t0, DesignShift(c))
  ELSE t0

Init == cfg \in CfgSpace
Next == UNCHANGED cfg
Spec == Init /\ [][Next]_vars

\* Design => Oracle, on EVERY voxel of the volume
ConventionIdentity ==
  LET A == AffineOf(cfg)
      res == DesignRes(cfg)
      T == DesignTOf(A, cfg)
      t == DesignTrans(cfg)
  IN /\ ResIsNorm(res, A, K0)
     /\ \A i \in AllVoxels(cfg.size) : CentreIdentity(T, t, res, A, cfg.a, K0, i)
\* the probe set used on the real code determines the affine map as soon as
\* every extent is >= 2: for ANY translation t2 (here: the three candidate
\* shifts), agreeing on the probes implies agreeing on every voxel
ProbesSuffice ==
  LET A == AffineOf(cfg)
      res == DesignRes(cfg)
      T == DesignTOf(A, cfg)
      t0 == VScale(K0, cfg.a)
      sh == MatVec(T, VScale(Half, res))
  IN (\A k \in 1..3 : cfg.size[k] >= 2) =>
       \A t2 \in {t0, VAdd(t0, sh), VAdd(t0, VScale(<<-1, 1>>, sh))} :
          Placement(T, t2, res, A, cfg.a, K0, cfg.size)
            <=> \A i \in AllVoxels(cfg.size) : CentreIdentity(T, t2, res, A, cfg.a, K0, i)
=============================================================================
