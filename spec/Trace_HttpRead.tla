--------------------------- MODULE Trace_HttpRead ---------------------------
(* Judge one fetch made by the real HTTP accessors against a loopback       *)
(* server that implements the environment model of HttpRead.                *)
(* case: [kind ("plain"|"shard"|"legacy"), target ("info"|"chunk"),         *)
(*        nminis, declared (info declares sharding for all scales),         *)
(*        accClass, infoFaulted,                                            *)
(*        reqs: Seq([m, rng (BOOLEAN), applied]),                           *)
(*        local: [st, data], http: [st, data, cls]]                         *)
EXTENDS HttpRead, Json, IOUtils

Cases == ndJsonDeserialize(IOEnv.TRACE_FILE)
VARIABLE tid
tvars == <<tid>>

AnyFault(c) == \E i \in 1..Len(c.reqs) : c.reqs[i].applied # "Normal"

Clause(c) ==
  IF c.http.st = "ok" /\ c.local.st = "ok" /\ c.http.data # c.local.data THEN "oracle:WrongBytes"
  \* a chunk that does not exist may be reported as an error or as zero bytes
  \* (the sharded format fills identifier gaps with zero-length entries) - never as data
  ELSE IF c.http.st = "ok" /\ c.local.st # "ok" /\ c.http.data # << >> THEN "oracle:MissingNotError"
  ELSE IF ~AnyFault(c) /\ c.local.st = "ok" /\ c.local.data # << >> /\ c.http.st # "ok"
       THEN "oracle:FaultFreeFailed"
  ELSE IF c.kind = "plain" /\ c.http.st = "exc" /\ c.http.cls # "DataAccessError"
       THEN "oracle:PlainErrorClass"
  ELSE IF ~c.infoFaulted /\ c.accClass # "none"
          /\ ((c.accClass = "ShardedHttpAccessor") # c.declared) THEN "oracle:Dispatch"
  ELSE "ok"

\* design conjunct: the request sequence the model predicts (prefix up to the
\* point where the fetch ended) - DRIFT only
Predicted(c) ==
  IF c.target = "info" THEN << R("GET", FALSE, TRUE, FALSE), R("GET", FALSE, TRUE, FALSE) >>
  ELSE Reqs(c.kind, c.nminis)
SeqMatches(c) ==
  LET p == Predicted(c) IN
  /\ Len(c.reqs) <= Len(p)
  /\ \A i \in 1..Len(c.reqs) : c.reqs[i].m = p[i].m /\ c.reqs[i].rng = p[i].rng
  /\ (c.http.st = "ok" /\ c.target = "chunk" => Len(c.reqs) = Len(p))

TInit == /\ tid \in 1..Len(Cases)
         /\ kind = "plain" /\ nMinis = 1 /\ sched = << >> /\ pc = 1 /\ result = "pending"
TNext == UNCHANGED <<vars, tvars>>
TSpec == TInit /\ [][TNext]_<<vars, tvars>>

Emit == LET c == Cases[tid]
            cl == Clause(c) IN
        \* (a faulted HEAD of the .shard file makes the client probe the legacy
        \* .index file as well: one more HEAD than the straight-line prediction)
        /\ (c.nminis > 0 /\ ~(\E i \in 1..Len(c.reqs) : c.reqs[i].m = "HEAD" /\ c.reqs[i].applied # "Normal")
            /\ ~SeqMatches(c) => PrintT(<<"DRIFT", tid, "design:RequestSequence", Len(c.reqs)>>))
        /\ PrintT(<<"VERDICT", tid, IF cl = "ok" THEN "ok" ELSE "bad", cl, 0>>)
=============================================================================
