SPECIFICATION Spec
CONSTANTS
  MimePolicy = "perName"
  MaxOps = 5
INVARIANT LastWriteWins
INVARIANT NoOverwrite
INVARIANT PathsDocumented
