SPECIFICATION Spec2
CONSTANTS
  AssignRule = "strict"
  CfgSpace <- SmallQuick
INVARIANT Factorises
