SPECIFICATION Spec2
CONSTANTS
  CfgSpace <- SmallQuick
INVARIANT Factorises
