SPECIFICATION Spec
CONSTANTS
  MimePolicy = "perCall"
  MaxOps = 3
INVARIANT LastWriteWins
INVARIANT NoOverwrite
INVARIANT PathsDocumented
