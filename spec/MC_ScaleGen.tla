---------------------------- MODULE MC_ScaleGen ----------------------------
(* Use (M) for C08: the oracle ValidPyramid evaluated on the TRANSCRIPTION  *)
(* of the generator over a bounded input set.  The violating CLASSES are    *)
(* the states: Init enumerates seeds (resolution triple, target), Next maps *)
(* a seed and every (size triple, max_scales) to the class of the instance  *)
(* <<failing clauses, delays, T>>; TLC's state deduplication leaves one     *)
(* state per class and Report prints it (record "CLS").                     *)
EXTENDS ScaleGen, Json
VARIABLES phase, seed, cls
mvars == <<phase, seed, cls>>

R1 == {<<1,1>>, <<2,1>>, <<3,1>>, <<4,1>>, <<5,1>>, <<7,1>>, <<8,1>>, <<12,1>>, <<16,1>>,
       <<40,1>>, <<8,10>>, <<12,10>>, <<5,10>>, <<25,10>>}
RQ == {<<1,1>>, <<2,1>>, <<3,1>>, <<5,1>>, <<12,1>>, <<40,1>>, <<8,10>>, <<12,10>>}
S1 == {1, 2, 3, 5, 8, 9, 31, 32, 33, 63, 64, 65, 100, 1000, 1000000000,
       4194304, 4194305, 33554433, 536870912, 536870913}      \* 2^k and 2^k + 1 for large k
SizeTriples == {<<a, b, c>> : a \in S1, b \in {1, 33, 1000}, c \in {2, 64, 1000000000}}
SizeTriplesT == {<<1000, 1000, 1000>>, <<100, 33, 9>>, <<5, 1000, 64>>, <<1000000000, 2, 1>>,
                 <<1, 1, 1>>, <<65, 64, 63>>, <<31, 32, 33>>, <<8, 1000000000, 3>>,
                 <<2, 9, 1000000000>>, <<63, 3, 100>>}
SizeTriplesQ == {<<1000, 1000, 1000>>, <<100, 33, 9>>, <<5, 1000, 64>>, <<1000000000, 2, 1>>,
                 <<1, 1, 1>>, <<65, 64, 63>>}
Seeds(R, Ts) == {[res |-> <<x, y, z>>, T |-> t, s |-> 0] : x \in R, y \in R, z \in R, t \in Ts}
SeedsFull == Seeds(R1, {1, 2, 3, 4, 6, 8})
SeedsQuick == Seeds(RQ, {1, 2, 4, 6})
\* strongly anisotropic seeds with tiny targets (excess-anisotropy reduction)
RX == {<<1,2>>, <<1,1>>, <<12,1>>, <<16,1>>, <<40,1>>, <<400,1>>}
SeedsExtreme == Seeds(RX, {1, 2})
SeedsFullX == SeedsFull \cup SeedsExtreme
SeedsQuickX == SeedsQuick \cup SeedsExtreme
SeedsIso == {[res |-> <<x, x, x>>, T |-> t, s |-> sc] : x \in R1, t \in 1..8, sc \in {0, 3, 6}}
CONSTANTS SeedSpace, SizeSpace

Inst(sd, sz, mx) == [size |-> sz, res |-> sd.res, s |-> sd.s, T |-> sd.T, maxs |-> mx]
ClassOf(c) ==
  LET g == G(c)
      sc == DesignScales(c, g)
  IN <<IF Raises(c, g) THEN "X" ELSE FailListD(c, sc, TRUE),
       g.d[1], g.d[2], g.d[3], c.T>>

Init == phase = "seed" /\ seed \in SeedSpace /\ cls = << >>
Next == /\ phase = "seed"
        /\ \E sz \in SizeSpace, mx \in {0, 1, 2, 3} :
              /\ phase' = "cls"
              /\ seed' = << >>
              /\ cls' = ClassOf(Inst(seed, sz, mx))
Spec == Init /\ [][Next]_mvars

HasLetter(x) == \E k \in 1..Len(cls[1]) : SubSeq(cls[1], k, k) = x
Report == phase = "cls" => PrintT(<<"CLS", ToJson(cls)>>)
\* the design satisfies the oracle and never raises: holds on the whole input
\* space with every switch in the conforming position; each deviating
\* position breaks its own clause (MC_ScaleGen_minus / _pairs / _keys / _once)
DesignValid == phase = "cls" => cls[1] = ""
NoRaise == phase = "cls" => ~HasLetter("X")
PairsOk == phase = "cls" => ~HasLetter("P")
KeysOk == phase = "cls" => ~HasLetter("K")
LastFits == phase = "cls" => \A k \in 1..Len(cls[1]) : SubSeq(cls[1], k, k) # "L"
=============================================================================
