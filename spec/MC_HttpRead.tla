---- MODULE MC_HttpRead ----
EXTENDS HttpRead
====
