SPECIFICATION Spec
CONSTANTS
  Dirs <- MCDirs
  TypeEncs <- QuickTypeEncs
  Maxes <- QuickMaxes
  Methods <- QuickMethods
  Shardings <- FullShardings
  Codes <- QuickCodes
  MeshDirs <- NoMesh
  MeshNames <- NoMesh
  Tables <- NoMesh
  MeshRewritesInfo = "keepAll"
  CfgSpace <- QuickCfg
  MaxLen = 6
  AioForwardsMethod = FALSE
  CopyInfoLayout = "byInfo"
INVARIANT TypeOK
INVARIANT AllInOneEqualsSteps
INVARIANT RepeatIsNoop
INVARIANT SuccessMeansComplete
INVARIANT SourceUntouched
INVARIANT ConvertPreserves
