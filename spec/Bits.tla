------------------------------- MODULE Bits -------------------------------
(* Natural numbers as little-endian bit sequences.  TLC integers are 32 bit; *)
(* chunk identifiers, voxel labels and counts in this code base are 64 bit   *)
(* (and beyond), so every quantity that may exceed 2^30 is carried as a      *)
(* normalised Seq({0,1}) (no trailing zero; zero is << >>).                  *)
EXTENDS Naturals, Sequences, SequencesExt, FiniteSets, Functions

Bit == {0, 1}

RECURSIVE Norm(_)
Norm(b) == IF b = << >> THEN << >>
           ELSE IF b[Len(b)] = 0 THEN Norm(SubSeq(b, 1, Len(b) - 1)) ELSE b

IsBits(b) == /\ b \in Seq(Bit)
             /\ (b = << >> \/ b[Len(b)] = 1)

RECURSIVE FromNat(_)
FromNat(n) == IF n = 0 THEN << >> ELSE <<n % 2>> \o FromNat(n \div 2)

\* only for values known to be small (< 2^30)
RECURSIVE ToNat(_)
ToNat(b) == IF b = << >> THEN 0 ELSE b[1] + 2 * ToNat(Tail(b))

BitAt(b, i) == IF i + 1 <= Len(b) THEN b[i + 1] ELSE 0      \* i is 0-based

\* -1, 0, 1
Cmp(a, b) ==
  IF Len(a) # Len(b) THEN (IF Len(a) < Len(b) THEN 0 - 1 ELSE 1)
  ELSE IF a = b THEN 0
  ELSE LET d == CHOOSE i \in 1..Len(a) :
                   /\ a[i] # b[i]
                   /\ \A j \in (i+1)..Len(a) : a[j] = b[j]
       IN IF a[d] < b[d] THEN 0 - 1 ELSE 1

Less(a, b) == Cmp(a, b) = 0 - 1
Leq(a, b)  == Cmp(a, b) # 1

RECURSIVE AddC(_, _, _)
AddC(a, b, c) ==
  IF a = << >> /\ b = << >> THEN (IF c = 0 THEN << >> ELSE <<1>>)
  ELSE LET x == IF a = << >> THEN 0 ELSE a[1]
           y == IF b = << >> THEN 0 ELSE b[1]
           s == x + y + c
       IN <<s % 2>> \o AddC(IF a = << >> THEN << >> ELSE Tail(a),
                            IF b = << >> THEN << >> ELSE Tail(b), s \div 2)
Add(a, b) == Norm(AddC(a, b, 0))

\* a - b for a >= b
RECURSIVE SubB(_, _, _)
SubB(a, b, br) ==
  IF a = << >> THEN << >>
  ELSE LET y == IF b = << >> THEN 0 ELSE b[1]
           d == a[1] - y - br
       IN <<(d + 2) % 2>> \o SubB(Tail(a), IF b = << >> THEN << >> ELSE Tail(b),
                                  IF d < 0 THEN 1 ELSE 0)
Sub(a, b) == Norm(SubB(a, b, 0))

ShiftR(b, n) == IF n >= Len(b) THEN << >> ELSE SubSeq(b, n + 1, Len(b))
ShiftL(b, n) == IF b = << >> THEN << >> ELSE [i \in 1..n |-> 0] \o b
Low(b, n)    == Norm(IF n >= Len(b) THEN b ELSE SubSeq(b, 1, n))
\* bits [lo, lo+n) of b as a number
Field(b, lo, n) == Low(ShiftR(b, lo), n)
\* exactly n bits (padded), not normalised
Pad(b, n) == [i \in 1..n |-> BitAt(b, i - 1)]

Fits(b, n) == Len(b) <= n

\* lower-case hexadecimal of b, zero padded to at least `digits` characters
HexDigit(v) == SubSeq("0123456789abcdef", v + 1, v + 1)
RECURSIVE HexRev(_)
HexRev(b) == IF b = << >> THEN ""
             ELSE HexRev(ShiftR(b, 4)) \o HexDigit(ToNat(Low(b, 4)))
RECURSIVE Zeros(_)
Zeros(n) == IF n <= 0 THEN "" ELSE "0" \o Zeros(n - 1)
Hex(b, digits) ==
  LET h == IF b = << >> THEN "0" ELSE HexRev(b)
  IN Zeros(digits - Len(h)) \o h

\* value of a lower-case hexadecimal string (<< -1 >> style failure: returns
\* <<2>> - not a bit sequence - when a character is not a hex digit)
IsHexChar(c) == \E v \in 0..15 : HexDigit(v) = c
HexCharVal(c) == CHOOSE v \in 0..15 : HexDigit(v) = c
IsHex(s) == Len(s) > 0 /\ \A i \in 1..Len(s) : IsHexChar(SubSeq(s, i, i))
RECURSIVE HexValRev(_, _)
HexValRev(s, i) == IF i > Len(s) THEN << >>
                   ELSE Pad(FromNat(HexCharVal(SubSeq(s, Len(s) - i + 1, Len(s) - i + 1))), 4)
                        \o HexValRev(s, i + 1)
HexVal(s) == Norm(HexValRev(s, 1))
=============================================================================
