SPECIFICATION MCSpec
CONSTANTS
  CopyPolicy = "copyFalse"
  CfgSpace = {}
INVARIANT Encoding
INVARIANT Nearest
INVARIANT TiesToEven
INVARIANT Saturates
INVARIANT IdentityWhenRepresentable
INVARIANT Monotone
INVARIANT Idempotent
INVARIANT OverflowFlag
INVARIANT InTypeIsRep
INVARIANT Works
INVARIANT PreserveRespected
INVARIANT OutputIsConvert
