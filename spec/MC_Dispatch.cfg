SPECIFICATION Spec
CONSTANTS
  Fallback = "absentOnly"
  MaxOps = 1000
VIEW NoCounterView
INVARIANT TypeOK
INVARIANT ReadYourWrites
INVARIANT NoSilentMisroute
INVARIANT NoStaleRead
