SPECIFICATION Spec
CONSTANTS
  IndexOrder = "last"
  NWrites = 5
INVARIANT AfterCrashClassified
INVARIANT FailIsError
INVARIANT NoSilentFailure
INVARIANT OthersUntouched
