SPECIFICATION Spec
CONSTANTS
  Threshold = "gt10"
  Dense <- DenseQuick
  W = 30
INVARIANT DesignOk
