SPECIFICATION Spec
CONSTANTS
  Threshold = "gt10"
  Dense = 12000
  W = 40
INVARIANT DesignOk
