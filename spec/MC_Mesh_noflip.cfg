SPECIFICATION Spec
CONSTANTS
  BoundCheck = "ge"
  ShortHeaderExc = "meshError"
  Pairs = FALSE
  FlipRule = "never"
INVARIANT ReaderMeetsOracle
INVARIANT BoundsSound
INVARIANT RoundTripModel
INVARIANT WindingModel
