------------------------ MODULE Gen_PyramidAssembly ------------------------
(* S->C export for C06: for every per-axis (old chunk, new chunk, factor)   *)
(* TLC enumerates the outcome of every old size 1..MaxSize (one letter per  *)
(* size: C Correct, E Error, S SilentWrong) and whether the scale generator *)
(* (ScaleGen.tla transcription, conforming switch positions) can emit the   *)
(* chunk pair with that factor ratio on some axis of some level, over       *)
(* resolution triples up to 40:1 (and fractional) and targets 2..256.       *)
(* The harness turns every distinct class (o, n, f, outcome, size) into     *)
(* 3-D infos for the real pyramid code.                                     *)
EXTENDS PyramidAssembly, Json
SG == INSTANCE ScaleGen WITH StopRule <- "plusDelay", ChunkRule <- "delayAware",
                             ReduceRule <- "loop", KeyRule <- "fallback"

MaxSize == 40
Chunks == {1, 2, 4, 8, 16}
R1 == {<<1,1>>, <<2,1>>, <<3,1>>, <<4,1>>, <<5,1>>, <<7,1>>, <<8,1>>, <<12,1>>, <<16,1>>,
       <<40,1>>, <<8,10>>, <<12,10>>, <<5,10>>, <<25,10>>}
\* the emitted chunk pairs only depend on the delay triple and the target
DelayTriples == {SG!Delays([res |-> <<x, y, z>>]) : x \in R1, y \in R1, z \in R1}
EmitOf(d, t) ==
  SG!EmitTriples([T |-> t], [d |-> d, D |-> SG!MaxOf3(d), unit |-> 5, levels |-> 14,
                              keys |-> << >>], 14)
Emittable == UNION {EmitOf(d, t) : d \in DelayTriples, t \in 1..8}

Letter(out) == IF out = "Correct" THEN "C" ELSE IF out = "Error" THEN "E" ELSE "S"
Outs(o, n, f) ==
  FoldLeft(LAMBDA acc, s : acc \o Letter(Outcome([size |-> s, o |-> o, n |-> n, f |-> f])),
           "", [s \in 1..MaxSize |-> s])

ASSUME LET E == Emittable IN
       /\ \A o \in Chunks, n \in Chunks, f \in {1, 2} :
             PrintT(<<"BEH", ToJson([o |-> o, n |-> n, f |-> f, outs |-> Outs(o, n, f),
                                     emit |-> <<o, n, f>> \in E])>>)
       \* all emittable pairs, larger chunks included (for the evidence)
       /\ PrintT(<<"BEH", ToJson([emittable |-> SetToSeq(E)])>>)

GInit == cfg = 0 /\ i = 0 /\ part = "gen" /\ dest = << >> /\ level = << >>
GNext == UNCHANGED vars
GSpec == GInit /\ [][GNext]_vars
=============================================================================
