---------------------------- MODULE Trace_CSeg ----------------------------
(* Case specification for the chunk codecs (C->S and the verdict half of    *)
(* S->C).  One case = one call sequence recorded from the REAL code:        *)
(*  mode "C02"     : cfg, the input array, what encode() returned (bytes as *)
(*                   halves, or the exception class), what the package's    *)
(*                   own decode() made of those bytes.                      *)
(*  mode "C10cseg" : cfg, requested dtype, a byte string, what decode() did *)
(*                   with it (array / exception class / "hang" = the 5 s    *)
(*                   alarm of the driver fired).                            *)
(*  mode "C10raw"  : the same for the raw codec (bytes as a byte list).     *)
(*  mode "C10jpeg" : the same for the jpeg codec, plus the PIL facts.       *)
(* Verdict line: <<"VERDICT", tid, "ok"|"bad", clause, designOutcome>>.     *)
(* With status "ok" the clause is "ok" or "design:<...>" (DRIFT: the        *)
(* implementation-shaped automaton predicted something else; never a        *)
(* violation).  designOutcome = "<kind>:<exit>" of the automaton.           *)
(*                                                                          *)
(* C02 clauses, in order: oracle:EncodeRaised, oracle:WellFormed.<sub>,     *)
(*   oracle:SpecDecodeEqualsInput, oracle:OwnDecodeEqualsInput.             *)
(* C10 clauses, in order: oracle:Hang, oracle:ForbiddenException,           *)
(*   oracle:WrongShape, oracle:ValidRejected, oracle:ValidDecodedWrong.     *)
(*   A lenient decoder returning a right-shaped array for a malformed       *)
(*   buffer is allowed.                                                     *)
EXTENDS CSeg, RawJpeg, Json, IOUtils

Cases == ndJsonDeserialize(IOEnv.TRACE_FILE)

VARIABLE tid
vars == <<tid>>

Shape4(cf) == <<cf.C, cf.Z, cf.Y, cf.X>>

\* ---- the outcome clauses shared by the three decoders --------------------
OutcomeClause(d, shape, dtype, alen) ==
  IF d.st = "hang" THEN "oracle:Hang"
  ELSE IF d.st = "exc" /\ d.cls # "InvalidFormatError" THEN "oracle:ForbiddenException"
  ELSE IF d.st = "ok" /\ (d.shape # shape \/ d.dtype # dtype \/ Len(d.a) # alen)
       THEN "oracle:WrongShape"
  ELSE IF d.st \notin {"ok", "exc"} THEN "machinery:OutcomeEncoding"
  ELSE "ok"

\* does what was observed match the design-layer prediction po ?
DesignMatch(d, po, arr) ==
  CASE po.kind = "ok"    -> d.st = "ok" /\ d.a = arr
    [] po.kind = "err"   -> d.st = "exc" /\ d.cls = "InvalidFormatError"
    [] po.kind = "crash" -> d.st = "exc" /\ d.cls = po.clause
    [] OTHER -> FALSE
DesignTag(po) == po.kind \o ":" \o po.clause

\* ---- C02 -----------------------------------------------------------------
C02Clause(c) ==
  LET cf == c.cfg IN
  IF Len(c.arr) # ArrLen(cf) THEN "machinery:ArrayEncoding"
  ELSE IF c.enc.st # "ok" THEN "oracle:EncodeRaised"
  ELSE LET B == [n |-> c.enc.n, h |-> c.enc.h]
           L == Layout(B, cf)
           wf == WFClauseL(B, cf, L)
       IN IF Len(B.h) # (B.n + 1) \div 2 THEN "machinery:BufferEncoding"
          ELSE IF wf # "ok" THEN wf
          ELSE IF DecodeL(B, cf, L) # c.arr THEN "oracle:SpecDecodeEqualsInput"
          ELSE IF c.dec.st # "ok" \/ c.dec.shape # Shape4(cf) \/ c.dec.dtype # c.dtype
                  \/ c.dec.a # c.arr
               THEN "oracle:OwnDecodeEqualsInput"
          ELSE "ok"
C02Verdict(c) == <<C02Clause(c), "">>

\* ---- C10, compressed_segmentation ----------------------------------------
C10CSegVerdict(c) ==
  LET cf == c.cfg
      B == c.buf
      d == c.dec
      oc == OutcomeClause(d, Shape4(cf), c.dtype, ArrLen(cf))
      L == Layout(B, cf)
      po == ParseOutcome(B, cf)
      orc == IF Len(B.h) # (B.n + 1) \div 2 THEN "machinery:BufferEncoding"
             ELSE IF oc # "ok" THEN oc
             ELSE IF ~ValidL(B, cf, L) THEN "ok"
             ELSE IF d.st # "ok" THEN "oracle:ValidRejected"
             ELSE IF d.a # DecodeL(B, cf, L) THEN "oracle:ValidDecodedWrong"
             ELSE "ok"
  IN IF orc # "ok" THEN <<orc, DesignTag(po)>>
     ELSE IF DesignMatch(d, po, po.arr) THEN <<"ok", DesignTag(po)>>
     ELSE <<"design:ParseOutcome", DesignTag(po)>>

\* ---- C10, raw ------------------------------------------------------------
C10RawVerdict(c) ==
  LET cf == c.cfg
      d == c.dec
      oc == OutcomeClause(d, Shape4(cf), c.dtype, NElems(cf) * cf.isz)
      po == RawOutcome(c.buf.n, cf)
      orc == IF oc # "ok" THEN oc
             ELSE IF ~RawValid(c.buf.n, cf) THEN "ok"
             ELSE IF d.st # "ok" THEN "oracle:ValidRejected"
             ELSE IF d.a # c.buf.b THEN "oracle:ValidDecodedWrong"
             ELSE "ok"
  IN IF orc # "ok" THEN <<orc, DesignTag(po)>>
     ELSE IF DesignMatch(d, po, d.a) THEN <<"ok", DesignTag(po)>>
     ELSE <<"design:RawOutcome", DesignTag(po)>>

\* ---- C10, jpeg -----------------------------------------------------------
C10JpegVerdict(c) ==
  LET cf == c.cfg
      d == c.dec
      oc == OutcomeClause(d, Shape4(cf), "uint8", NElems(cf))
      po == JpegOutcome(c.pil, cf)
      orc == IF oc # "ok" THEN oc
             ELSE IF ~JpegValid(c.pil, cf) THEN "ok"
             ELSE IF d.st # "ok" THEN "oracle:ValidRejected"
             ELSE IF Len(c.pil.pix) # NElems(cf) THEN "machinery:PixelEncoding"
             ELSE IF d.a # JpegPixels(c.pil, cf) THEN "oracle:ValidDecodedWrong"
             ELSE "ok"
  IN IF orc # "ok" THEN <<orc, DesignTag(po)>>
     ELSE IF DesignMatch(d, po, d.a) THEN <<"ok", DesignTag(po)>>
     ELSE <<"design:JpegOutcome", DesignTag(po)>>

Verdict(c) ==
  CASE c.mode = "C02"     -> C02Verdict(c)
    [] c.mode = "C10cseg" -> C10CSegVerdict(c)
    [] c.mode = "C10raw"  -> C10RawVerdict(c)
    [] c.mode = "C10jpeg" -> C10JpegVerdict(c)
    [] OTHER              -> <<"machinery:UnknownMode", "">>

IsBad(cl) == cl # "ok" /\ SubSeq(cl, 1, 7) # "design:"

Init == tid \in 1..Len(Cases)
Next == UNCHANGED tid
Spec == Init /\ [][Next]_vars

Emit == LET v == Verdict(Cases[tid]) IN
        PrintT(<<"VERDICT", tid, IF IsBad(v[1]) THEN "bad" ELSE "ok", v[1], v[2]>>)
=============================================================================
