SPECIFICATION Spec
CONSTANTS
  StopRule = "plusDelay"
  ChunkRule = "delayAware"
  ReduceRule = "loop"
  KeyRule = "single"
  AssignRule = "strict"
  SeedSpace <- SeedsQuick
  SizeSpace <- SizeTriplesQ
INVARIANT KeysOk
