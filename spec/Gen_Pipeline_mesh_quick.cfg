SPECIFICATION GenSpec
CONSTANTS
  Dirs <- GenDirs
  TypeEncs <- GenMeshTypeEncs
  Maxes <- GenMaxesQuick
  Methods <- GenOneMethod
  Shardings <- GenShardings
  Codes <- GenNone
  MeshDirs <- GenMeshDirs
  MeshNames <- GenMeshNamesQuick
  Tables <- GenTablesQuick
  MeshRewritesInfo = "keepAll"
  CfgSpace <- GenCfg
  MaxLen = 5
  AioForwardsMethod = TRUE
  CopyInfoLayout = "byInfo"
VIEW GenView
INVARIANT Emit
