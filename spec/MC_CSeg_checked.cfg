SPECIFICATION Spec
CONSTANTS
  ChannelSlice = "next_checked"
  CfgSpace <- MCSpaceQuick
INVARIANT EncodingWellFormed
INVARIANT EncodingValid
INVARIANT EncodingDecodes
INVARIANT ParseTotal
INVARIANT ParseAgrees
INVARIANT ParseComplete
INVARIANT MacroEqualsSteps
INVARIANT UnmutatedAccepted
