SPECIFICATION Spec
CONSTANTS
  ChannelSlice = "next_checked"
  CfgSpace <- MutSpaceQuick
INVARIANT EncodingWellFormed
INVARIANT EncodingValid
INVARIANT EncodingDecodes
INVARIANT EncodingAccepted
INVARIANT ParseTotal
INVARIANT ParseAgrees
INVARIANT ParseComplete
INVARIANT MacroEqualsSteps
INVARIANT UnmutatedAccepted
