------------------------------ MODULE MC_Mesh ------------------------------
(* Bounded instance for C17 (use M).  One TLC run covers three families of  *)
(* cases, chosen at Init through the variable cfg:                          *)
(*  "read" : structurally enumerated reader inputs (declared count n in     *)
(*           0..3 or a huge count, every body length 0..4+12n+36, one index *)
(*           word at a time set to {0, n-1, n, n+1, 2^32-1}); the reader    *)
(*           AUTOMATON (design layer) is stepped to Done and must produce   *)
(*           the outcome of the format ORACLE ReadOutcome, exit by exit;    *)
(*  "rt"   : Write(v, t) has the specified layout and reads back as (v, t); *)
(*  "wind" : ModelTransform keeps orientation on tetrahedra (outward,       *)
(*           inward, displaced), an open triangle and the empty mesh under  *)
(*           the 48 signed permutation matrices, shears and singular maps.  *)
(* The ASSUME makes the run fail if some exit of the oracle is unreachable  *)
(* on the enumerated inputs (non-vacuity).                                  *)
EXTENDS Mesh

CONSTANTS BoundCheck, ShortHeaderExc, FlipRule,
          Pairs            \* TRUE: also two index words at a time (thorough)
SW == [bound |-> BoundCheck, hdr |-> ShortHeaderExc, flip |-> FlipRule]

\* ---- structural reader inputs -------------------------------------------
MaxWord == <<65535, 65535>>                  \* 2^32 - 1
SpecialIdx(n) == {W(0), W(n), W(n + 1), MaxWord} \cup (IF n > 0 THEN {W(n - 1)} ELSE {})
BaseIdx(n, p) == IF n = 0 THEN W(0) ELSE W(p % n)      \* p = 0-based index position
SmallInputs ==
  UNION { UNION { (IF L >= 16 + 12 * n /\ (L - 4 - 12 * n) % 12 = 0
                   THEN {[hdr |-> W(n), n |-> n, len |-> L, pos |-> p, idx |-> x,
                            pos2 |-> p, idx2 |-> x] :
                           p \in 0..((L - 4 - 12 * n) \div 4 - 1), x \in SpecialIdx(n)}
                   ELSE {[hdr |-> W(n), n |-> n, len |-> L, pos |-> 0, idx |-> BaseIdx(n, 0),
                           pos2 |-> 0, idx2 |-> BaseIdx(n, 0)]}) :
                  L \in 0..(4 + 12 * n + 36) } : n \in 0..3 }
\* two index words set at a time (complete triangle blocks only)
PairInputs ==
  IF ~Pairs THEN {}
  ELSE UNION { UNION { {[hdr |-> W(n), n |-> n, len |-> 4 + 12 * n + 12 * m, pos |-> p, idx |-> x,
                         pos2 |-> p2, idx2 |-> x2] :
                          p \in 0..(3 * m - 1), p2 \in 0..(3 * m - 1), x \in SpecialIdx(n), x2 \in SpecialIdx(n)} :
                       m \in 1..3 } : n \in 0..3 }
HugeCounts == {<<0, 1>>, <<21846, 5461>>, <<65535, 32767>>, MaxWord}   \* 2^16, 0x15555556, 2^31-1, 2^32-1
HugeInputs == {[hdr |-> h, n |-> 1, len |-> L, pos |-> 0, idx |-> W(0), pos2 |-> 0, idx2 |-> W(0)] : h \in HugeCounts, L \in 4..20}
ReadInputs == SmallInputs \cup HugeInputs \cup {i \in PairInputs : i.pos < i.pos2}

VWord(j, d) == <<256 * j + d, 16256 + 16 * j + d>>
FullHalves(i) ==
  i.hdr
  \o Flatten3([j \in 1..i.n |-> [d \in 1..3 |-> VWord(j, d)]])
  \o FoldLeft(LAMBDA acc, p : acc \o (IF p = i.pos THEN i.idx ELSE IF p = i.pos2 THEN i.idx2 ELSE BaseIdx(i.n, p)),
              << >>, [q \in 1..9 |-> q - 1])
BytesOf(i) ==
  LET full == FullHalves(i)
      nh == (i.len + 1) \div 2
      cut == SubSeq(full, 1, nh)
  IN [len |-> i.len,
      hs  |-> IF i.len % 2 = 1 THEN [cut EXCEPT ![nh] = @ % 256] ELSE cut]

\* ---- round-trip inputs -----------------------------------------------------
\* float32 patterns incl. -0, denormal, inf, quiet NaN, pi
Patterns == << <<0, 0>>, <<0, 32768>>, <<1, 0>>, <<0, 32640>>, <<1, 32704>>, <<4059, 16457>>,
               <<0, 16256>>, <<65535, 65535>>, <<0, 49024>> >>
VPat(f, j, d) == Patterns[((f + 3 * j + d) % Len(Patterns)) + 1]
TriSets(n, m) == IF m = 0 THEN {<< >>}
                 ELSE IF n = 0 THEN {}
                 ELSE IF m = 1 THEN {<<x>> : x \in (0..(n-1)) \X (0..(n-1)) \X (0..(n-1))}
                 ELSE {<<x, y>> : x \in (0..(n-1)) \X (0..(n-1)) \X (0..(n-1)),
                                  y \in {<<n-1, 0, n-1>>, <<0, 0, 0>>, <<n-1, n-1, n-1>>, <<0, n-1, 0>>}}
RtInputs == UNION { UNION { {[f |-> f, n |-> n, t |-> t] : t \in TriSets(n, m), f \in 0..2} :
                            m \in 0..2 } : n \in 0..3 }
RtV(i) == [j \in 1..i.n |-> [d \in 1..3 |-> VPat(i.f, j, d)]]
RtT(i) == [k \in 1..Len(i.t) |-> [d \in 1..3 |-> W(i.t[k][d])]]

\* ---- winding inputs -----------------------------------------------------------
Perm3 == {p \in (1..3) \X (1..3) \X (1..3) : p[1] # p[2] /\ p[1] # p[3] /\ p[2] # p[3]}
Unit(k, sg) == [d \in 1..3 |-> IF d = k THEN sg ELSE 0]
SignedPerms == {<<Unit(p[1], g[1]), Unit(p[2], g[2]), Unit(p[3], g[3])>> :
                  p \in Perm3, g \in {0 - 1, 1} \X {0 - 1, 1} \X {0 - 1, 1}}
Shears == { <<<<1, 1, 0>>, <<0, 1, 0>>, <<0, 0, 1>>>>,
            <<<<1, 0, 0>>, <<2, 1, 0>>, <<0, 0 - 1, 1>>>>,
            <<<<2, 1, 0>>, <<0, 1, 1>>, <<1, 0, 1>>>>,
            <<<<1, 2, 3>>, <<0, 0 - 1, 4>>, <<0, 0, 2>>>>,
            <<<<0 - 2, 1, 1>>, <<1, 0 - 2, 1>>, <<1, 1, 3>>>>,
            <<<<1, 2, 3>>, <<2, 4, 6>>, <<0, 0, 1>>>>,          \* singular
            <<<<0, 0, 0>>, <<0, 0, 0>>, <<0, 0, 0>>>> }          \* singular
Matrices == SignedPerms \cup Shears
Translations == {<<0, 0, 0>>, <<3, 0 - 2, 5>>}
TetraV == << <<0, 0, 0>>, <<1, 0, 0>>, <<0, 1, 0>>, <<0, 0, 1>> >>
TetraOut == << <<0, 2, 1>>, <<0, 1, 3>>, <<0, 3, 2>>, <<1, 2, 3>> >>
TetraIn == [i \in 1..4 |-> <<TetraOut[i][2], TetraOut[i][1], TetraOut[i][3]>>]
Shifted == [j \in 1..4 |-> <<2 * TetraV[j][1] + 1, 3 * TetraV[j][2] - 2, TetraV[j][3] + 3>>]
WindMeshes == { [v |-> TetraV, t |-> TetraOut], [v |-> TetraV, t |-> TetraIn],
                [v |-> Shifted, t |-> TetraOut],
                [v |-> TetraV, t |-> << <<1, 2, 3>> >>],
                [v |-> << >>, t |-> << >>] }
WindInputs == {[mesh |-> me, M |-> M, tr |-> tr] : me \in WindMeshes, M \in Matrices, tr \in Translations}

\* ---- the instance -------------------------------------------------------------
Cases == {[kind |-> "read", p |-> i] : i \in ReadInputs}
         \cup {[kind |-> "rt", p |-> i] : i \in RtInputs}
         \cup {[kind |-> "wind", p |-> i] : i \in WindInputs}

ASSUME ExitsReachable ==
  \A e \in Exits : \E i \in ReadInputs : ReadOutcome(BytesOf(i)).exit = e
ASSUME Cardinality(SignedPerms) = 48

VARIABLES cfg, s
vars == <<cfg, s>>
Init == cfg \in Cases /\ s = RStart
Next == /\ cfg.kind = "read"
        /\ s.pc # "Done"
        /\ s' = RStep(SW, BytesOf(cfg.p), s)
        /\ UNCHANGED cfg
Spec == Init /\ [][Next]_vars

\* Design => Oracle: the automaton ends in exactly the oracle's outcome
ReaderMeetsOracle ==
  (cfg.kind = "read" /\ s.pc = "Done") =>
     LET b == BytesOf(cfg.p)
         o == ReadOutcome(b)
     IN /\ ReadClause(b, s.res) = "ok"
        /\ o.st = "error" => (s.res.st = "mesh_error" /\ s.res.cls = o.exit)
        /\ o.st = "ok" => s.res.st = "ok"
\* an accepted mesh never references a vertex that does not exist
BoundsSound ==
  (cfg.kind = "read" /\ s.pc = "Done" /\ s.res.st = "ok") =>
     \A i \in 1..Len(s.res.t), d \in 1..3 : IndexExists(s.res.t[i][d], Len(s.res.v))
RoundTripModel ==
  cfg.kind = "rt" =>
     LET v == RtV(cfg.p)
         t == RtT(cfg.p)
         b == Write(v, t)
         o == ReadOutcome(b)
     IN /\ LayoutClause(b, v, t) = "ok"
        /\ o.st = "ok" /\ o.v = v /\ o.t = t
WindingModel ==
  cfg.kind = "wind" =>
     LET me == cfg.p.mesh
         r == ModelTransform(SW, me.v, me.t, cfg.p.M, cfg.p.tr)
     IN /\ WindingClause(me.v, me.t, cfg.p.M, cfg.p.tr, r.v, r.t) = "ok"
        /\ (Len(me.t) = 4 => Closed(me.t) /\ CentredVolume6(me.v, me.t) # 0)
        /\ (DetM(cfg.p.M) # 0 /\ Len(me.t) = 4) =>
              /\ SignedVolume6(r.v, r.t) = CentredVolume6(r.v, r.t)      \* translation invariant
              /\ Sign(SignedVolume6(r.v, r.t)) = Sign(SignedVolume6(me.v, me.t))
=============================================================================
