------------------------- MODULE Trace_Orientation -------------------------
(* Case specification for real slice-stack conversions (C15, C->S).         *)
(* One case = one run of the real slices-to-precomputed tool on a stack     *)
(* written by harness/slice_driver.py, whose pixel values encode where each *)
(* pixel comes from:                                                        *)
(*    value = 1 + column + ncol*(row + nrow*(slice + nslice*channel))       *)
(* (0 in every pixel of a slice marked in `blank`);                          *)
(* channel = position in the expected channel order (directories in         *)
(* command-line order; R, G, B inside an RGB file).  Fields:                *)
(*   code     <<l1, l2, l3>> one-letter strings                             *)
(*   insize   <<ncol, nrow, nslice>>;  outsize the size in the info file    *)
(*   channels num_channels of the info file; depth chunk size on slice axis *)
(*   run      [outcome : "ok" | "raised" | "timeout", exit]                 *)
(*   stored   values read back through a fresh accessor, flat in the C      *)
(*            order of a (C,Z,Y,X) array; nonrep / missing as in Trace_Grid *)
(* ORACLE (Orientation.tla, from the tool's documentation): the voxel at    *)
(*   output <<x,y,z>>, channel k holds the pixel SrcIndex(code, insize,     *)
(*   <<x,y,z>>) of channel k.                                               *)
(* invalid = TRUE: the stack has one slice fewer than the info announces -   *)
(*   only oracle:InvalidStackAccepted is judged.                            *)
(* Clauses: oracle:ConversionRaised (the whole stack must be converted      *)
(*   without error, whatever the slice count relative to the chunk depth),  *)
(*   oracle:Unwritten, oracle:VoxelProvenance, oracle:ChannelOrder.         *)
(* DESIGN comparison (DRIFT only, 5th field of the verdict): the outcome    *)
(*   predicted by the slice-window design with the switch SliceStop in the  *)
(*   position given in the cfg (the code's current position).               *)
EXTENDS Integers, Sequences, Json, IOUtils, TLC

CONSTANT SliceStop

O == INSTANCE Orientation WITH SliceStop <- SliceStop, CfgSpace <- {}, cfg <- 0, g <- 0,
                               stored <- 0, count <- 0, phase <- 0

Cases == ndJsonDeserialize(IOEnv.TRACE_FILE)

VARIABLE tid
tvars == <<tid>>

FirstBad(seq) ==
  IF \E i \in 1..Len(seq) : seq[i] # "ok"
  THEN seq[CHOOSE i \in 1..Len(seq) : seq[i] # "ok" /\ \A j \in 1..(i - 1) : seq[j] = "ok"]
  ELSE "ok"

NVox(c) == c.insize[1] * c.insize[2] * c.insize[3] * c.channels

Shape(c) ==
  /\ c.code \in O!Codes
  /\ c.outsize = O!OutSize(c.code, c.insize)
  /\ Len(c.stored) = NVox(c)
  /\ Len(c.blank) = c.insize[3]

\* flat position (1-based) of output voxel p, channel k (1-based)
Flat(c, p, k) == ((((k - 1) * c.outsize[3] + p[3]) * c.outsize[2] + p[2]) * c.outsize[1] + p[1]) + 1

\* decode a pixel value into <<column, row, slice, channel(0-based)>>
Decode(c, v) ==
  LET w == v - 1
      nc == c.insize[1]
      nr == c.insize[2]
      ns == c.insize[3]
  IN <<w % nc, (w \div nc) % nr, (w \div (nc * nr)) % ns, w \div (nc * nr * ns)>>

\* blank[s+1] = 1: input slice s is entirely black (pixel value 0) in every
\* channel - empty slices are ordinary input and must be converted like any other
Blank(c, src) == c.blank[src[3] + 1] = 1

RunClause(c) == IF c.run.outcome # "ok" \/ c.run.exit # 0 THEN "oracle:ConversionRaised" ELSE "ok"
UnwrittenClause(c) == IF c.missing = << >> THEN "ok" ELSE "oracle:Unwritten"

ProvenanceClause(c) ==
  IF /\ c.nonrep = << >>
     /\ \A p \in O!Box(c.outsize) : \A k \in 1..c.channels :
          LET v == c.stored[Flat(c, p, k)]
              d == Decode(c, v)
              s == O!SrcIndex(c.code, c.insize, p)
          IN IF Blank(c, s) THEN v = 0
             ELSE v >= 1 /\ d[1] = s[1] /\ d[2] = s[2] /\ d[3] = s[3]
  THEN "ok" ELSE "oracle:VoxelProvenance"

ChannelClause(c) ==
  IF \A p \in O!Box(c.outsize) : \A k \in 1..c.channels :
        \/ Blank(c, O!SrcIndex(c.code, c.insize, p))
        \/ Decode(c, c.stored[Flat(c, p, k)])[4] = k - 1
  THEN "ok" ELSE "oracle:ChannelOrder"

\* an INVALID stack (fewer slices than the info announces) cannot be converted:
\* the tool must report it (exception / non-zero status); returning normally
\* would claim a volume that cannot be there
InvalidClause(c) ==
  IF c.run.outcome = "ok" /\ c.run.exit = 0 THEN "oracle:InvalidStackAccepted" ELSE "ok"

Clause(c) ==
  IF ~Shape(c) THEN "machinery:CaseShape"
  ELSE IF c.invalid THEN InvalidClause(c)
  ELSE FirstBad(<<RunClause(c), UnwrittenClause(c), ProvenanceClause(c), ChannelClause(c)>>)

\* design prediction: with the reversed stop passed as a number the final
\* group of an inverted slice axis is empty and the tool raises
DesignRaises(c) == SliceStop = "minus1" /\ ~O!Positive(c.code[3])
Drift(c) == IF DesignRaises(c) # (c.run.outcome = "raised") THEN 1 ELSE 0

Init == tid \in 1..Len(Cases)
Next == UNCHANGED tid
Spec == Init /\ [][Next]_tvars

Emit == LET c == Cases[tid]
            cl == Clause(c)
        IN PrintT(<<"VERDICT", tid, IF cl = "ok" THEN "ok" ELSE "bad", cl,
                    IF cl = "machinery:CaseShape" THEN 0 ELSE Drift(c)>>)
=============================================================================
