SPECIFICATION Spec
CONSTANTS
  JpegLoad = "unguarded"
INVARIANT JpegTotal
INVARIANT JpegValidAccepted
INVARIANT JpegDoneShape
INVARIANT JpegMacro
INVARIANT RawRule
