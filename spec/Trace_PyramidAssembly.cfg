SPECIFICATION TSpec
CONSTANTS
  AssignRule = "strict"
  CfgSpace <- NoSpace
INVARIANT Emit
