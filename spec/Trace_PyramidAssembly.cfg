SPECIFICATION TSpec
CONSTANTS
  CfgSpace <- NoSpace
INVARIANT Emit
