---------------------------- MODULE MC_RawJpeg ----------------------------
(* Bounded instance for the raw length rule and the JPEG wrapper automaton  *)
(* over every combination of PIL facts (use M).                             *)
(*  JpegTotal         : the wrapper ends in Done or Error, never Crash      *)
(*                      (must FAIL with JpegLoad = "unguarded");            *)
(*  JpegValidAccepted : valid data is never rejected;                       *)
(*  JpegDoneShape     : Done => the pixels fill exactly the requested shape *)
(*                      with the mode of the requested channel count;       *)
(*  JpegMacro         : JpegOutcome (used by Trace_CSeg) = the stepwise run *)
(*  RawRule           : raw is Ok iff len = C*X*Y*Z*itemsize.               *)
EXTENDS RawJpeg
VARIABLES c, pil, n, s
vars == <<c, pil, n, s>>

Bands(m) == CASE m = "L" -> 1 [] m = "RGB" -> 3 [] m = "CMYK" -> 4 [] OTHER -> 1
Init ==
  /\ c \in {[C |-> C, X |-> X, Y |-> Y, Z |-> Z, isz |-> i] :
              C \in {1, 3}, X \in 1..2, Y \in 1..2, Z \in 1..2, i \in {1, 4}}
  /\ pil \in {[open |-> o, format |-> f, mode |-> m, w |-> w, h |-> h, bands |-> Bands(m),
               load |-> l, loadcls |-> "OSError", pix |-> << >>] :
                o \in {"ok", "err"}, f \in {"JPEG", "PNG"}, m \in {"L", "RGB", "CMYK"},
                w \in 1..4, h \in 1..4, l \in {"ok", "err"}}
  /\ n \in {NElems(c) * c.isz - 1, NElems(c) * c.isz}
  /\ s = JInit
Next == ~JTerminal(s) /\ s' = JStep(pil, c, s) /\ UNCHANGED <<c, pil, n>>
Spec == Init /\ [][Next]_vars

JpegTotal == JTerminal(s) => s.pc # "Crash"
JpegValidAccepted == JTerminal(s) /\ JpegValid(pil, c) => s.pc = "Done"
JpegDoneShape == s.pc = "Done" =>
   /\ pil.w * pil.h * pil.bands = NElems(c)
   /\ (c.C = 1 /\ pil.mode = "L") \/ (c.C = 3 /\ pil.mode = "RGB")
JpegMacro == JTerminal(s) => JpegOutcome(pil, c) = JOutcomeOf(s)
RawRule == (RawOutcome(n, c).kind = "ok") <=> (n = c.C * c.X * c.Y * c.Z * c.isz)
=============================================================================
