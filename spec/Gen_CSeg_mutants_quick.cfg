SPECIFICATION Spec
CONSTANTS
  ChannelSlice = "to_end"
  Part = "mutants"
  Tier = "quick"
INVARIANT Emit
