------------------------------ MODULE ValueMap ------------------------------
(* C11 - data-type conversion rounds to nearest and saturates, never wraps.  *)
(*                                                                           *)
(* ORACLE LAYER (from the property statement and IEEE 754 only):             *)
(*   Convert(v, inT, outT) on exact values <<s, i, f>> (see BitsNum):        *)
(*     - integer target: round half-to-even, then saturate at the limits;    *)
(*     - float target  : nearest value with p significant bits and quantum   *)
(*       2^-q (so subnormals are handled), ties to even;                     *)
(*     - identity whenever the target can hold the value (a consequence).    *)
(*   inT only delimits the domain (v must be a value of inT); the result     *)
(*   does not depend on it.                                                  *)
(*   Buffer contract of one call transform(chunk, preserve_input):           *)
(*     the call returns (Works); the caller's buffer is bit-identical after  *)
(*     the call when preserve_input (InputKept); the result is the same for  *)
(*     every mode / memory layout / writability (Independent).               *)
(*                                                                           *)
(* INTERPRETATIONS (weaker readings, chosen to avoid false alarms):          *)
(*   * float target, |rounded value| beyond the largest finite float: the    *)
(*     property's "becomes the target maximum" and IEEE's "infinity" are     *)
(*     BOTH accepted (FloatOverflow tells the trace spec when).              *)
(*   * -0.0 and +0.0 are the same value.                                     *)
(*   * NaN / infinite inputs are outside the property ("all finite values"). *)
(*   * in the in-place mode the input buffer may hold anything afterwards.   *)
(*                                                                           *)
(* DESIGN LAYER (implementation shaped): work buffer, optional aliasing of   *)
(* the caller's buffer, rint, clip, final cast - a two-variable state        *)
(* machine (input, output) with the deviation switch CopyPolicy.             *)
EXTENDS BitsNum

\* ---------------------------------------------------------------- types ---
\* kind "uint"/"int": bits;  kind "float": p significant bits, smallest
\* quantum 2^-q, every finite magnitude < 2^top
UIntT(n)         == [kind |-> "uint", bits |-> n, p |-> 0, q |-> 0, top |-> 0]
SIntT(n)         == [kind |-> "int", bits |-> n, p |-> 0, q |-> 0, top |-> 0]
FloatT(p, q, t)  == [kind |-> "float", bits |-> 0, p |-> p, q |-> q, top |-> t]

TypeOf(name) ==
  CASE name = "uint8" -> UIntT(8)   [] name = "uint16" -> UIntT(16)
    [] name = "uint32" -> UIntT(32) [] name = "uint64" -> UIntT(64)
    [] name = "int8" -> SIntT(8)    [] name = "int16" -> SIntT(16)
    [] name = "int32" -> SIntT(32)  [] name = "int64" -> SIntT(64)
    [] name = "float32" -> FloatT(24, 149, 128)
    [] name = "float64" -> FloatT(53, 1074, 1024)

IsIntT(T) == T.kind # "float"

\* magnitude of the largest / of the most negative value of T
MaxMag(T) == CASE T.kind = "uint" -> Ones(T.bits)
               [] T.kind = "int" -> Ones(T.bits - 1)
               [] T.kind = "float" -> ShiftL(Ones(T.p), T.top - T.p)
MinMag(T) == CASE T.kind = "uint" -> << >>
               [] T.kind = "int" -> Pow2B(T.bits - 1)
               [] T.kind = "float" -> ShiftL(Ones(T.p), T.top - T.p)

\* --------------------------------------------------------------- oracle ---
ConvertInt(v, T) ==
  LET m == RoundMagHE(Norm(v[2]), v[3]) IN
  IF v[1] = 1
  THEN Canon(<<1, IF Leq(m, MinMag(T)) THEN m ELSE MinMag(T), << >>>>)
  ELSE <<0, IF Leq(m, MaxMag(T)) THEN m ELSE MaxMag(T), << >>>>

\* v rounded to p significant bits / quantum 2^-q, as <<scaled magnitude, e>>
FloatRound(v, T) ==
  LET e == Len(NormFrac(v[3]))
      M == ScaledMag(v)                                   \* |v| * 2^e
      d == MaxI(MaxI(Len(M) - T.p, e - T.q), 0)           \* bits to drop
      kept == ShiftR(M, d)
      guard == IF d = 0 THEN 0 ELSE BitAt(M, d - 1)
      sticky == \E j \in 1..MinI(d - 1, Len(M)) : M[j] = 1
      up == guard = 1 /\ (sticky \/ IsOdd(kept))
  IN <<ShiftL(IF up THEN Inc(kept) ELSE kept, d), e>>

FloatOverflow(v, T) ==
  LET r == FloatRound(v, T) IN Len(ShiftR(r[1], r[2])) > T.top

ConvertFloat(v, T) ==
  LET r == FloatRound(v, T) IN
  IF Len(ShiftR(r[1], r[2])) > T.top THEN <<v[1], MaxMag(T), << >>>>
  ELSE FromScaledMag(v[1], r[1], r[2])

ConvertTo(v, T) == IF T.kind = "float" THEN ConvertFloat(v, T) ELSE ConvertInt(v, T)
Convert(v, inT, outT) == ConvertTo(v, outT)

\* v is a value of type T
InType(v, T) == ConvertTo(v, T) = Canon(v) /\ (T.kind = "float" => ~FloatOverflow(v, T))

\* buffer contract; buffers are compared as lossless dumps (hex strings)
InputKept(mode, before, after) == mode = "preserve" => after = before
Independent(res, ref) == res = ref

\* --------------------------------------------------------------- design ---
(* The transformer closure of data_types.get_chunk_dtype_transformer:        *)
(*   needs work  = round_to_nearest \/ clip_values                           *)
(*   work buffer = copy of the input, or the input itself (alias)            *)
(*   rint, clip in place on the work buffer; final astype (always a copy).   *)
(* CopyPolicy = "copyFalse": np.array(chunk, work_dtype, copy=preserve) as   *)
(*   written for NumPy 1 - under NumPy 2 it raises when a copy is needed,    *)
(*   and aliases a read-only buffer that rint cannot write.                  *)
(* CopyPolicy = "reuseWhenPossible": alias only a writable buffer that       *)
(*   already has the work type, copy otherwise (the conforming design).      *)
CONSTANTS CopyPolicy, CfgSpace
VARIABLES cfg, input, output, status
vars == <<cfg, input, output, status>>

RoundToNearest(inT, outT) == IsIntT(outT) /\ ~IsIntT(inT)
\* numpy can_cast(in, out, "safe") for an integer target
IntSafe(inT, outT) ==
  CASE inT.kind = "float" -> FALSE
    [] inT.kind = "uint" -> (IF outT.kind = "uint" THEN inT.bits <= outT.bits ELSE inT.bits < outT.bits)
    [] inT.kind = "int" -> outT.kind = "int" /\ inT.bits <= outT.bits
ClipValues(inT, outT) == IsIntT(outT) /\ ~IntSafe(inT, outT)
NeedsWork(c) == RoundToNearest(c.inT, c.outT) \/ ClipValues(c.inT, c.outT)
\* promote_types(in, out) = in  <=>  every value of out is a value of in
WorkIsInput(inT, outT) ==
  CASE inT.kind = "float" -> TRUE               \* one float type in the model
    [] outT.kind = "float" -> FALSE
    [] OTHER -> IntSafe(outT, inT)

Rint(c, v) == IF RoundToNearest(c.inT, c.outT)
              THEN Canon(<<v[1], RoundMagHE(Norm(v[2]), v[3]), << >>>>) ELSE v
Clip(c, v) == IF ~ClipValues(c.inT, c.outT) THEN v
              ELSE IF v[1] = 1 THEN (IF Leq(v[2], MinMag(c.outT)) /\ (v[3] = << >> \/ Less(v[2], MinMag(c.outT)))
                                     THEN v ELSE Canon(<<1, MinMag(c.outT), << >>>>))
              ELSE (IF Less(v[2], MaxMag(c.outT)) \/ (v[2] = MaxMag(c.outT) /\ v[3] = << >>)
                    THEN v ELSE <<0, MaxMag(c.outT), << >>>>)
\* astype(unsafe) of a value that the target can hold, or of any value for a float target
Cast(c, v) == IF c.outT.kind = "float" THEN ConvertFloat(v, c.outT) ELSE v

Init == /\ cfg \in CfgSpace
        /\ input = cfg.vals
        /\ output = << >>
        /\ status = "idle"

Transform ==
  /\ status = "idle"
  /\ IF ~NeedsWork(cfg)
     THEN /\ output' = [k \in DOMAIN input |-> Cast(cfg, input[k])]
          /\ status' = "done"
          /\ UNCHANGED input
     ELSE LET copyNeeded == ~WorkIsInput(cfg.inT, cfg.outT)
              alias == IF CopyPolicy = "copyFalse" THEN ~cfg.preserve /\ ~copyNeeded
                       ELSE ~cfg.preserve /\ cfg.writable /\ ~copyNeeded
              raises == \/ (CopyPolicy = "copyFalse" /\ ~cfg.preserve /\ copyNeeded)
                        \/ (alias /\ ~cfg.writable)
              work == [k \in DOMAIN input |-> Clip(cfg, Rint(cfg, input[k]))]
          IN IF raises
             THEN status' = "raised" /\ UNCHANGED <<input, output>>
             ELSE /\ input' = IF alias THEN work ELSE input
                  /\ output' = [k \in DOMAIN input |-> Cast(cfg, work[k])]
                  /\ status' = "done"
  /\ UNCHANGED cfg

Next == Transform
Spec == Init /\ [][Next]_vars

\* Design => Oracle
Works == status # "raised"
PreserveRespected == (status = "done" /\ cfg.preserve) => input = cfg.vals
OutputIsConvert ==
  status = "done" => output = [k \in DOMAIN cfg.vals |-> Convert(cfg.vals[k], cfg.inT, cfg.outT)]
=============================================================================
