SPECIFICATION Spec
CONSTANTS
  StopRule = "minusDelay"
  ChunkRule = "code"
  SeedSpace <- SeedsIso
  SizeSpace <- SizeTriplesT
INVARIANT DesignValid
