SPECIFICATION GenSpec
CONSTANTS
  Dirs <- GenDirs
  TypeEncs <- GenTypeEncsQuick
  Maxes <- GenMaxesQuick
  Methods <- GenMethodsQuick
  Shardings <- GenShardings
  Codes <- GenCodesQuick
  MeshDirs <- GenNone
  MeshNames <- GenNone
  Tables <- GenNone
  MeshRewritesInfo = "keepAll"
  CfgSpace <- GenCfg
  MaxLen = 6
  AioForwardsMethod = TRUE
  CopyInfoLayout = "byInfo"
VIEW GenView
INVARIANT Emit
