SPECIFICATION GenSpec
CONSTANTS
  Dirs <- GenDirs
  TypeEncs <- GenTypeEncs
  Maxes <- GenMaxes
  Methods <- GenMethods
  Shardings <- GenShardings
  CfgSpace <- GenCfg
  MaxLen = 6
  AioForwardsMethod = TRUE
  CopyInfoLayout = "byInfo"
VIEW GenView
INVARIANT Emit
