SPECIFICATION GenSpec
CONSTANTS
  Dirs <- GenDirs
  TypeEncs <- GenTypeEncs
  Maxes <- GenMaxesQuick
  Methods <- GenMethods
  Shardings <- GenShardings
  CfgSpace <- GenCfg
  MaxLen = 6
  AioForwardsMethod = TRUE
  CopyInfoLayout = "byInfo"
VIEW GenView
INVARIANT Emit
