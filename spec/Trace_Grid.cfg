SPECIFICATION Spec
INVARIANT Emit
