--------------------------- MODULE Gen_ChunkStore ---------------------------
(* S->C export for C03: behaviours of the ChunkStore design incl. invalid    *)
(* writes, reads and re-opens (TLC simulation).                              *)
EXTENDS ChunkStore, Json
VARIABLE hist
gvars == <<vars, hist>>
GenInfos == {
  << [size |-> <<3, 4, 1>>, chunks |-> << <<2, 2, 1>> >>], [size |-> <<2, 2, 1>>, chunks |-> << <<2, 2, 1>> >>] >>,
  << [size |-> <<5, 3, 2>>, chunks |-> << <<2, 2, 2>> >>], [size |-> <<3, 2, 1>>, chunks |-> << <<2, 2, 2>> >>] >>,
  << [size |-> <<4, 5, 3>>, chunks |-> << <<4, 4, 4>> >>], [size |-> <<1, 1, 1>>, chunks |-> << <<4, 4, 4>> >>] >> }
GenInit == Init /\ hist = << >>
GenNext ==
  \/ \E s \in 1..Len(info) : \E c \in Cands(info[s]), a \in Arrays :
        Write(s, c, a) /\ hist' = Append(hist, [op |-> "write", s |-> s, c |-> c, a |-> a])
  \/ \E s \in 1..Len(info) : \E c \in {k[2] : k \in {kk \in DOMAIN store : kk[1] = s}} :
        nops < MaxOps /\ nops' = nops + 1 /\ UNCHANGED <<info, store, lastRes>> /\
        hist' = Append(hist, [op |-> "read", s |-> s, c |-> c, a |-> 0])
  \/ nops < MaxOps /\ nops' = nops + 1 /\ UNCHANGED <<info, store, lastRes>> /\
        hist' = Append(hist, [op |-> "reopen", s |-> 0, c |-> << >>, a |-> 0])
GenSpec == GenInit /\ [][GenNext]_gvars
Emit == nops = MaxOps => PrintT(<<"BEH", ToJson([info |-> info, ops |-> hist])>>)
=============================================================================
