------------------------------ MODULE Pipeline ------------------------------
(* Command-level state machine of the conversion tools (C19, C13, report    *)
(* half of C20).  One state = the dataset directories a user works on; one  *)
(* action = one command line of the documented workflows                    *)
(* (docs/script-usage.rst, docs/examples.rst):                              *)
(*                                                                          *)
(*   GenInfo    volume-to-precomputed --generate-info [--sharding S] VOL d  *)
(*   GenScales  generate-scales-info [--type T] [--encoding E]              *)
(*                 [--max-scales N] src/info_fullres.json d                 *)
(*   Vol        volume-to-precomputed VOL d                                 *)
(*   Slices     slices-to-precomputed --input-orientation CODE DIRS... d    *)
(*   Rechunk    the user re-tiles the stored scales of d with additional    *)
(*              chunk sizes and lists them in the info (the format allows   *)
(*              several chunk_sizes per scale; no tool generates them).     *)
(*              Contents are whole-scale values, so the abstract state does *)
(*              not change.  Harness action, not in the MC alphabet.        *)
(*   Obstruct   ENVIRONMENT: something else occupies a path the tools must   *)
(*              create in d - m = "last": a regular file where the LAST     *)
(*              scale's directory goes; "first": a directory where one      *)
(*              chunk file / one shard file of the FIRST scale goes;        *)
(*              "info": a directory named info.  A command that cannot      *)
(*              write must not exit 0.  Harness action, not in the MC       *)
(*              alphabet.                                                   *)
(*   Damage     ENVIRONMENT: one chunk file of the FIRST scale of d is        *)
(*              removed, truncated or moved aside (m = "remove" |           *)
(*              "truncate" | "hide"): the scale is no longer completely     *)
(*              readable; Restore puts a hidden file back.  Likewise a Convert with  *)
(*              m = "srcfault" meets a source whose server fails the first  *)
(*              chunk request once.  A conversion that cannot read a source *)
(*              chunk must not exit 0.  Harness actions, not in the MC      *)
(*              alphabet.                                                   *)
(*   HandInfo   the user writes d/info_fullres.json by hand (script-usage   *)
(*              step 1: there is no --generate-info for slice stacks); no   *)
(*              transform.json.  Performed by the harness, not a tool.      *)
(*   Compute    compute-scales [--downscaling-method M] d                   *)
(*   Convert    convert-chunks [--copy-info] src d                          *)
(*   Stats      scale-stats d                                  (read-only)  *)
(*   AllInOne   volume-to-precomputed-pyramid [--type T] [--encoding E]     *)
(*                 [--downscaling-method M] VOL d                           *)
(*   Mesh       mesh-to-precomputed --mesh-dir M --mesh-name NAME mesh.gii d  *)
(*   Link       link-mesh-fragments TABLE.csv d                             *)
(*              (help texts: --mesh-dir "must match the mesh key of the     *)
(*              info file.  It will be written to the info file if not      *)
(*              already present"; the link files list the fragments of each *)
(*              label "in the mesh directory")                              *)
(*   Edit       the user edits d/info by hand before any chunk is written   *)
(*              (examples.rst: "info was edited to contain the desired      *)
(*              sharding specification"; widening "data_type"): sets the    *)
(*              sharding the info declares; the data type is not part of    *)
(*              the abstract state (sh = "keep": only the data type is      *)
(*              edited).  Performed by the harness, not a tool.             *)
(*                                                                          *)
(* Contents are ABSTRACT: a scale's decoded voxels are a content id -        *)
(* "map" (the input volume mapped to the info's data type), "S<code>" (the  *)
(* slice stack re-oriented from <code> to RAS+), "D<m>(<c>)" (c downscaled  *)
(* once with method m), "absent".  Content ids denote VALUES:    *)
(* a lossless re-encoding / widening conversion keeps the id.  The concrete *)
(* voxel comparison happens in Trace_Pipeline on decoded arrays.            *)
(*                                                                          *)
(* DESIGN LAYER  = Run(c, D): precondition, exit status and effect of each  *)
(*                 command as the code implements it (info refused when it  *)
(*                 exists, chunks overwritten, convert-chunks walks the     *)
(*                 DESTINATION info's scales coarsest first and stops at    *)
(*                 the first unreadable source scale, accessor chosen from  *)
(*                 the info found in the directory).                        *)
(* ORACLE LAYER  = the four clauses of the property statement, written as   *)
(*                 predicates over (state, command, result):                *)
(*   AllInOneEqualsSteps   SuccessMeansComplete                             *)
(*   RepeatIsNoop          SourceUntouched                                  *)
(* TLC checks Design => Oracle on all programs (MC_Pipeline).  Since Run is *)
(* a function, the clauses that relate a command to its result are written  *)
(* as one-/two-step LOOKAHEAD predicates evaluated in every reachable state *)
(* (equivalent to the action properties [][A(c) => P']_vars, cheaper).      *)
(*                                                                          *)
(* Interpretations (weakest reading that the statement supports):           *)
(*  - "the same info / voxels": all-in-one on an EMPTY directory versus     *)
(*    exactly GenInfo; GenScales(same type/encoding, no --max-scales, from  *)
(*    its own info_fullres.json); Vol; Compute(same method) on an EMPTY     *)
(*    directory, all exit 0 (GenInfo may exit 4 = data type adjusted), with *)
(*    nothing but scale-stats in between.  File layout options (--flat,     *)
(*    --no-gzip) do not enter: decoded contents are compared.               *)
(*  - "a second time on its own output": the first run exited 0; the second *)
(*    may exit with any status.                                             *)
(*  - info-writing steps refuse to overwrite (exit /= 0) - allowed; they    *)
(*    must then change nothing.                                             *)
(*                                                                          *)
(* Deviation switches (CONSTANTS):                                          *)
(*   AioForwardsMethod  TRUE = conforming; FALSE = the all-in-one command   *)
(*                      ignores --downscaling-method (non-vacuity of (a))   *)
(*   MeshRewritesInfo   "keepAll" = conforming: mesh-to-precomputed adds the *)
(*                      mesh key to the info it found; "fromScratch" = it   *)
(*                      writes an info that holds the mesh key only         *)
(*   CopyInfoLayout     "byInfo" = conforming: convert-chunks --copy-info   *)
(*                      stores chunks in the layout the copied info         *)
(*                      declares; "byOptions" = the destination accessor is *)
(*                      chosen BEFORE the info is copied, so a sharded      *)
(*                      source info lands next to unsharded chunk files     *)
(*                      that no reader of that info finds.                  *)
EXTENDS Naturals, Sequences, FiniteSets, TLC

CONSTANTS Dirs,        \* directory names, e.g. {"A", "B"}
          TypeEncs,    \* set of <<type, encoding>> option pairs
          Maxes,       \* subset of {"all", "two", "one"} (--max-scales)
          Methods,     \* subset of {"auto", "average", "majority", "stride"}
          Shardings,   \* subset of {"nosh", "s110"} (--sharding on GenInfo)
          Codes,       \* input orientation codes of slices-to-precomputed, e.g. {"RPI"}
          MeshDirs,    \* --mesh-dir values, e.g. {"m1", "m2"} ({}: no mesh commands)
          MeshNames,   \* fragment names (one input mesh per name), e.g. {"f1", "f2"}
          Tables,      \* label tables of link-mesh-fragments, subset of {"t1", "t2"}
          MeshRewritesInfo,   \* deviation switch, see below
          CfgSpace,    \* set of input classes [perfect : BOOLEAN (data type needs no
                       \* adjustment), nall : 1..3 (scales generated without --max-scales)]
          MaxLen,      \* program length bound
          AioForwardsMethod, CopyInfoLayout

VARIABLES cfg,     \* input volume class, fixed at Init
          dirs,    \* [Dirs -> directory state]
          prov,    \* [Dirs -> provenance tracker used by clause (a)]
          n        \* number of commands run so far

vars == <<cfg, dirs, prov, n>>

U == "-"
MaxScales == 3
Scales == 1..MaxScales
NScales(mx, cf) == IF mx = "one" THEN 1
                   ELSE IF mx = "two" THEN (IF cf.nall < 2 THEN cf.nall ELSE 2)
                   ELSE cf.nall

\* ---- commands (uniform records so that they travel as JSON) -------------
Cmd(op, d, src, type, enc, mx, m, sh, copy) ==
  [op |-> op, d |-> d, src |-> src, type |-> type, enc |-> enc, max |-> mx,
   m |-> m, sh |-> sh, copy |-> copy, code |-> U]
CmdSlices(d, code) == [Cmd("Slices", d, U, U, U, U, U, U, U) EXCEPT !.code = code]

Alphabet ==
  {Cmd("GenInfo", d, U, U, U, U, U, sh, U) : d \in Dirs, sh \in Shardings}
  \cup {Cmd("GenScales", d, s, te[1], te[2], mx, U, U, U) :
          d \in Dirs, s \in Dirs, te \in TypeEncs, mx \in Maxes}
  \cup {Cmd("Vol", d, U, U, U, U, U, U, U) : d \in Dirs}
  \cup {Cmd("Compute", d, U, U, U, U, m, U, U) : d \in Dirs, m \in Methods}
  \cup {Cmd("Convert", ds[1], ds[2], U, U, U, U, U, cp) :
          ds \in {p \in Dirs \X Dirs : p[1] # p[2]}, cp \in {"copy", "keep"}}
  \cup {Cmd("Stats", d, U, U, U, U, U, U, U) : d \in Dirs}
  \cup {Cmd("AllInOne", d, U, te[1], te[2], U, m, U, U) :
          d \in Dirs, te \in TypeEncs, m \in Methods}
  \cup {Cmd("Edit", d, U, U, U, U, U, sh, U) : d \in Dirs, sh \in Shardings}
  \cup {CmdSlices(d, code) : d \in Dirs, code \in Codes}
  \cup {Cmd("HandInfo", d, U, U, U, U, U, "nosh", U) : d \in Dirs}   \* sharding: by Edit of the info
  \cup {[Cmd("Mesh", d, U, U, U, U, md, U, U) EXCEPT !.code = nm] :
          d \in Dirs, md \in MeshDirs, nm \in MeshNames}
  \cup {Cmd("Link", d, U, U, U, U, t, U, U) : d \in Dirs, t \in Tables}

\* ---- directory states ----------------------------------------------------
NoInfo == [type |-> U, enc |-> U, n |-> 0, sh |-> U, mesh |-> "none"]   \* mesh: the "mesh" key
EmptyDir == [fullres |-> "absent",      \* "absent" | "nosh" | "s110" (sharding it carries)
             transform |-> FALSE,
             info |-> NoInfo,
             chunks |-> [i \in Scales |-> "absent"],
             mis |-> {},                \* scales stored in a layout the info does not declare
             blocked |-> {},            \* scales (0: the info file) whose files cannot be created
             frags |-> {},              \* fragment files in the mesh directory (names)
             links |-> {}]              \* link files <<label, table>> in the mesh directory

Resolve(m, type) == IF m = "auto" THEN (IF type = "image" THEN "average" ELSE "stride") ELSE m
Down(m, c) == "D" \o m \o "(" \o c \o ")"

Readable(ds, i) == ds.chunks[i] # "absent" /\ i \notin ds.mis

Res(D, e) == [dirs |-> D, exit |-> e]

\* chunks of scales 2..k computed from scale 1 with method m
Pyramid(ch, k, m) ==
  LET c2 == Down(m, ch[1])
      c3 == Down(m, c2)
  IN [i \in Scales |-> IF i = 1 \/ i > k THEN ch[i] ELSE IF i = 2 THEN c2 ELSE c3]

RunGenInfo(c, D, cf) ==
  IF D[c.d].fullres # "absent" THEN Res(D, 1)
  ELSE Res([D EXCEPT ![c.d].fullres = c.sh, ![c.d].transform = TRUE],
           IF cf.perfect THEN 0 ELSE 4)

RunGenScales(c, D, cf) ==
  IF D[c.src].fullres = "absent" \/ D[c.d].info.n # 0 \/ 0 \in D[c.d].blocked THEN Res(D, 1)
  ELSE Res([D EXCEPT ![c.d].info = [type |-> c.type, enc |-> c.enc,
                                    n |-> NScales(c.max, cf), sh |-> D[c.src].fullres,
                                    mesh |-> "none"]], 0)

RunVol(c, D) ==
  IF D[c.d].info.n = 0 \/ 1 \in D[c.d].blocked THEN Res(D, 1)
  ELSE Res([D EXCEPT ![c.d].chunks[1] = "map", ![c.d].mis = @ \ {1}], 0)

\* same refusal / exit rules as Vol; the content is the re-oriented stack
SliceContent(code) == "S" \o code
RunSlices(c, D) ==
  IF D[c.d].info.n = 0 \/ 1 \in D[c.d].blocked THEN Res(D, 1)
  ELSE Res([D EXCEPT ![c.d].chunks[1] = SliceContent(c.code), ![c.d].mis = @ \ {1}], 0)

RunHandInfo(c, D) ==
  IF D[c.d].fullres # "absent" THEN Res(D, 1)
  ELSE Res([D EXCEPT ![c.d].fullres = c.sh], 0)

RunCompute(c, D) ==
  LET ds == D[c.d] IN
  IF ds.info.n = 0 THEN Res(D, 1)
  ELSE IF ds.info.n = 1 THEN Res(D, 0)
  ELSE IF ds.chunks[1] # "absent" /\ 1 \in ds.mis /\ 2 \notin ds.blocked
    \* the full resolution is stored but one chunk cannot be read: the chunks of the second
    \* scale that do not need it are written, then the run fails
    THEN Res([D EXCEPT ![c.d].chunks[2] = Down(Resolve(c.m, ds.info.type), ds.chunks[1]),
                       ![c.d].mis = @ \cup {2}], 1)
  ELSE IF ~Readable(ds, 1) THEN Res(D, 1)
  ELSE IF ds.blocked \cap (2..ds.info.n) # {}   \* the scales before the first blocked one are computed
    THEN LET k == CHOOSE i \in ds.blocked \cap (2..ds.info.n) :
                     \A j \in ds.blocked \cap (2..ds.info.n) : i <= j
         IN Res([D EXCEPT ![c.d].chunks = Pyramid(ds.chunks, k - 1, Resolve(c.m, ds.info.type)),
                          ![c.d].mis = @ \ (2..(k - 1))], 1)
  ELSE Res([D EXCEPT ![c.d].chunks = Pyramid(ds.chunks, ds.info.n, Resolve(c.m, ds.info.type)),
                     ![c.d].mis = @ \ (2..ds.info.n)], 0)

RunConvert(c, D) ==
  LET s == D[c.src]
      t == D[c.d]
  IN
  IF s.info.n = 0 THEN Res(D, 1)
  ELSE IF c.copy = "copy" /\ (t.info.n # 0 \/ 0 \in t.blocked) THEN Res(D, 1)
  ELSE IF c.copy = "keep" /\ t.info.n = 0 THEN Res(D, 1)
  ELSE
    LET di == IF c.copy = "copy" THEN s.info ELSE t.info
        ok(i) == i <= s.info.n /\ Readable(s, i) /\ i \notin t.blocked /\ c.m # "srcfault"
        bad == {i \in 1..di.n : ~ok(i)}
        \* scales are walked coarsest first; the walk stops at the first bad one
        stop == IF bad = {} THEN 0 ELSE CHOOSE i \in bad : \A j \in bad : j <= i
        done == {i \in 1..di.n : i > stop}
        mislaid == c.copy = "copy" /\ CopyInfoLayout = "byOptions" /\ di.sh # "nosh"
        \* a source scale that is stored but not completely readable (damaged chunk file): the
        \* chunks before the damaged one are converted - the destination scale is left incomplete
        part == IF stop >= 1 /\ stop <= s.info.n /\ s.chunks[stop] # "absent" /\ stop \in s.mis
                   /\ stop \notin t.blocked /\ c.m # "srcfault" /\ ~mislaid
                THEN {stop} ELSE {}
    IN Res([D EXCEPT ![c.d].info = di,
                     ![c.d].chunks = [i \in Scales |-> IF i \in done \cup part THEN s.chunks[i] ELSE t.chunks[i]],
                     ![c.d].mis = IF mislaid THEN @ \cup done ELSE (@ \ done) \cup part],
           IF bad = {} THEN 0 ELSE 1)

RunStats(c, D) == IF D[c.d].info.n = 0 THEN Res(D, 1) ELSE Res(D, 0)

RunAllInOne(c, D, cf) ==
  IF D[c.d].info.n # 0 \/ 0 \in D[c.d].blocked THEN Res(D, 1)
  ELSE LET k == NScales("all", cf)
           m == Resolve(IF AioForwardsMethod THEN c.m ELSE "auto", c.type)
           base == [D[c.d].chunks EXCEPT ![1] = "map"]
       IN Res([D EXCEPT ![c.d].info = [type |-> c.type, enc |-> c.enc, n |-> k, sh |-> "nosh", mesh |-> "none"],
                        ![c.d].chunks = Pyramid(base, k, m),
                        ![c.d].mis = {}], 0)

\* hand edit of the info: only before any chunk exists (the harness refuses
\* otherwise and reports exit status 1)
RunEdit(c, D) ==
  IF D[c.d].info.n = 0 \/ \E i \in Scales : D[c.d].chunks[i] # "absent" THEN Res(D, 1)
  ELSE Res([D EXCEPT ![c.d].info.sh = IF c.sh = "keep" THEN @ ELSE c.sh], 0)

\* the rows of a label table: <<label, fragment names>>
TableRows(t) == IF t = "t1" THEN << <<1, <<"f1">>>> >>
                ELSE << <<1, <<"f1">>>>, <<2, <<"f1", "f2">>>> >>

\* mesh-to-precomputed: needs an info; writes the mesh key when the info has none; refuses another
\* directory than the key; the fragment file is created exclusively; the sharded accessor
\* cannot create the mesh directory (the key is written, then the command fails) - it can
\* write into one that exists from the time the info was not sharded
RunMesh(c, D) ==
  LET ds == D[c.d] IN
  IF ds.info.n = 0 THEN Res(D, 1)
  ELSE IF ds.info.mesh # "none" /\ ds.info.mesh # c.m THEN Res(D, 1)
  ELSE LET keyed == IF ds.info.mesh # "none" THEN ds.info
                    ELSE IF MeshRewritesInfo = "fromScratch" THEN [NoInfo EXCEPT !.mesh = c.m]
                    ELSE [ds.info EXCEPT !.mesh = c.m]
           D1 == [D EXCEPT ![c.d].info = keyed]
           \* the sharded accessor does not create the mesh directory: it must exist already
           nodir == ds.info.sh # "nosh" /\ ds.frags = {} /\ ds.links = {}
       IN IF nodir \/ c.code \in ds.frags THEN Res(D1, 1)
          ELSE Res([D1 EXCEPT ![c.d].frags = @ \cup {c.code}], 0)

\* link-mesh-fragments: needs the mesh key; one exclusively created JSON file per row, in order
RECURSIVE LinkRows(_, _, _)
LinkRows(ls, rows, t) ==
  IF rows = << >> THEN [links |-> ls, exit |-> 0]
  ELSE IF \E p \in ls : p[1] = rows[1][1] THEN [links |-> ls, exit |-> 1]
  ELSE LinkRows(ls \cup {<<rows[1][1], t>>}, Tail(rows), t)
RunLink(c, D) ==
  LET ds == D[c.d] IN
  IF ds.info.n = 0 \/ ds.info.mesh = "none"
     \/ (ds.info.sh # "nosh" /\ ds.frags = {} /\ ds.links = {}) THEN Res(D, 1)
  ELSE LET r == LinkRows(ds.links, TableRows(c.m), c.m)
       IN Res([D EXCEPT ![c.d].links = r.links], r.exit)

RunObstruct(c, D) ==
  LET ds == D[c.d] IN
  IF c.m = "info"
    THEN (IF ds.info.n # 0 THEN Res(D, 1) ELSE Res([D EXCEPT ![c.d].blocked = @ \cup {0}], 0))
  ELSE LET i == IF c.m = "first" THEN 1 ELSE ds.info.n IN
       IF ds.info.n = 0 \/ ds.chunks[i] # "absent" THEN Res(D, 1)
       ELSE Res([D EXCEPT ![c.d].blocked = @ \cup {i}], 0)

\* THE design function: result of running command c in directory state D for
\* input class cf
Run(c, D, cf) ==
  CASE c.op = "GenInfo"   -> RunGenInfo(c, D, cf)
    [] c.op = "GenScales" -> RunGenScales(c, D, cf)
    [] c.op = "Vol"       -> RunVol(c, D)
    [] c.op = "Compute"   -> RunCompute(c, D)
    [] c.op = "Convert"   -> RunConvert(c, D)
    [] c.op = "Stats"     -> RunStats(c, D)
    [] c.op = "AllInOne"  -> RunAllInOne(c, D, cf)
    [] c.op = "Edit"      -> RunEdit(c, D)
    [] c.op = "Slices"    -> RunSlices(c, D)
    [] c.op = "HandInfo"  -> RunHandInfo(c, D)
    [] c.op = "Obstruct"  -> RunObstruct(c, D)
    [] c.op = "Mesh"      -> RunMesh(c, D)
    [] c.op = "Link"      -> RunLink(c, D)
    [] c.op = "Damage"    -> IF D[c.d].info.n = 0 \/ D[c.d].chunks[1] = "absent" THEN Res(D, 1)
                             ELSE Res([D EXCEPT ![c.d].mis = @ \cup {1}], 0)
    [] c.op = "Restore"   -> IF 1 \notin D[c.d].mis THEN Res(D, 1)
                             ELSE Res([D EXCEPT ![c.d].mis = @ \ {1}], 0)
    [] c.op = "Rechunk"   -> IF D[c.d].info.n = 0 \/ D[c.d].info.sh # "nosh" THEN Res(D, 1) ELSE Res(D, 0)

Succ(e) == e = 0
GenInfoOk(e) == e = 0 \/ e = 4

\* ---- provenance tracker for clause (a) -----------------------------------
PEmpty == [k |-> "empty", stage |-> 0, type |-> U, enc |-> U, m |-> U]
POther == [k |-> "other", stage |-> 0, type |-> U, enc |-> U, m |-> U]

\* p: tracker of the command's destination directory; e: observed exit status
ProvStep(p, c, e) ==
  IF c.op = "Stats" THEN p
  ELSE IF p.k = "empty" THEN
    (IF c.op = "AllInOne"
       THEN [k |-> "aio", stage |-> IF Succ(e) THEN 1 ELSE 0, type |-> c.type, enc |-> c.enc, m |-> c.m]
     ELSE IF c.op = "GenInfo" /\ c.sh = "nosh" /\ GenInfoOk(e)
       THEN [k |-> "steps", stage |-> 1, type |-> U, enc |-> U, m |-> U]
     ELSE POther)
  ELSE IF p.k = "steps" THEN
    (IF p.stage = 1 /\ c.op = "GenScales" /\ c.src = c.d /\ c.max = "all" /\ Succ(e)
       THEN [p EXCEPT !.stage = 2, !.type = c.type, !.enc = c.enc]
     ELSE IF p.stage = 2 /\ c.op = "Vol" /\ Succ(e) THEN [p EXCEPT !.stage = 3]
     ELSE IF p.stage = 3 /\ c.op = "Compute" /\ Succ(e) THEN [p EXCEPT !.stage = 4, !.m = c.m]
     ELSE POther)
  ELSE POther

\* pairs of directories that clause (a) relates
AioPairs(pv) ==
  {p \in Dirs \X Dirs :
     /\ pv[p[1]].k = "aio" /\ pv[p[2]].k = "steps" /\ pv[p[2]].stage = 4
     /\ pv[p[1]].type = pv[p[2]].type /\ pv[p[1]].enc = pv[p[2]].enc
     /\ pv[p[1]].m = pv[p[2]].m}

\* ---- behaviour -------------------------------------------------------------
Init == /\ cfg \in CfgSpace
        /\ dirs = [d \in Dirs |-> EmptyDir]
        /\ prov = [d \in Dirs |-> PEmpty]
        /\ n = 0

Do(c) == LET r == Run(c, dirs, cfg) IN
         /\ n < MaxLen
         /\ dirs' = r.dirs
         /\ prov' = [prov EXCEPT ![c.d] = ProvStep(@, c, r.exit)]
         /\ n' = n + 1
         /\ UNCHANGED cfg

Next == \E c \in Alphabet : Do(c)
Spec == Init /\ [][Next]_vars

\* ---- ORACLE clauses ---------------------------------------------------------
\* (a) all-in-one = steps
AllInOneEqualsSteps ==
  \A p \in AioPairs(prov) :
     /\ prov[p[1]].stage = 1
     /\ dirs[p[1]].info = dirs[p[2]].info
     /\ \A i \in Scales : /\ dirs[p[1]].chunks[i] = dirs[p[2]].chunks[i]
                          /\ Readable(dirs[p[1]], i) = Readable(dirs[p[2]], i)

\* (b) repeating a step on its own output changes nothing
RepeatIsNoop ==
  \A c \in Alphabet :
     LET r1 == Run(c, dirs, cfg) IN
     (Succ(r1.exit) \/ (c.op = "GenInfo" /\ GenInfoOk(r1.exit)))
        => Run(c, r1.dirs, cfg).dirs = r1.dirs

\* (c) exit status 0 => everything the step is responsible for exists and is readable
Complete(c, D) ==
  LET ds == D[c.d] IN
  CASE c.op = "GenInfo"   -> ds.fullres # "absent" /\ ds.transform
    [] c.op = "GenScales" -> ds.info.n # 0
    [] c.op = "Vol"       -> ds.info.n # 0 /\ Readable(ds, 1)
    [] c.op = "Compute"   -> ds.info.n # 0 /\ \A i \in 2..ds.info.n : Readable(ds, i)
    [] c.op = "Convert"   -> ds.info.n # 0 /\ \A i \in 1..ds.info.n : Readable(ds, i)
    [] c.op = "AllInOne"  -> ds.info.n # 0 /\ \A i \in 1..ds.info.n : Readable(ds, i)
    [] c.op = "Stats"     -> TRUE
    [] c.op = "Edit"      -> ds.info.n # 0
    [] c.op = "Slices"    -> ds.info.n # 0 /\ Readable(ds, 1)
    [] c.op = "HandInfo"  -> ds.fullres # "absent"
    [] c.op = "Obstruct"  -> TRUE
    [] c.op = "Mesh"      -> ds.info.n # 0 /\ ds.info.mesh = c.m /\ c.code \in ds.frags
    [] c.op = "Link"      -> /\ ds.info.n # 0 /\ ds.info.mesh # "none"
                             /\ \A k \in 1..Len(TableRows(c.m)) : <<TableRows(c.m)[k][1], c.m>> \in ds.links
    [] c.op = "Damage"    -> TRUE
    [] c.op = "Restore"   -> TRUE
    [] c.op = "Rechunk"   -> ds.info.n # 0

SuccessMeansComplete ==
  \A c \in Alphabet :
     LET r == Run(c, dirs, cfg) IN Succ(r.exit) => Complete(c, r.dirs)

\* (d) the source of a conversion (and every directory a command does not
\*     name as its destination) is left alone; scale-stats changes nothing
SourceUntouched ==
  \A c \in Alphabet :
     LET r == Run(c, dirs, cfg) IN
     /\ \A d \in Dirs \ {c.d} : r.dirs[d] = dirs[d]
     /\ c.op = "Stats" => r.dirs = dirs

\* C13 in the abstract: a successful conversion gives the destination the
\* source's contents (value ids) at every scale of the destination info
ConvertPreserves ==
  \A c \in Alphabet :
     c.op = "Convert" =>
       LET r == Run(c, dirs, cfg) IN
       Succ(r.exit) => \A i \in 1..r.dirs[c.d].info.n :
                          r.dirs[c.d].chunks[i] = dirs[c.src].chunks[i]

\* ---- mesh commands (growth beyond the listed properties; from the tool help texts) ----------
MeshCmds == {c \in Alphabet : c.op \in {"Mesh", "Link"}}
CoreInfo(i) == [i EXCEPT !.mesh = "none"]
\* a mesh command never changes the scales / type / data type of the info and never touches the
\* chunk storage (nor another directory)
InfoScalesPreserved ==
  \A c \in MeshCmds :
     LET r == Run(c, dirs, cfg) IN
     /\ CoreInfo(r.dirs[c.d].info) = CoreInfo(dirs[c.d].info)
     /\ r.dirs[c.d].chunks = dirs[c.d].chunks /\ r.dirs[c.d].mis = dirs[c.d].mis
     /\ \A d \in Dirs \ {c.d} : r.dirs[d] = dirs[d]
\* once written the mesh key never changes; a command naming another directory fails and
\* changes nothing
MeshKeyStable ==
  \A c \in Alphabet :
     LET r == Run(c, dirs, cfg) IN
     /\ dirs[c.d].info.mesh # "none" => r.dirs[c.d].info.mesh = dirs[c.d].info.mesh
     /\ (c.op = "Mesh" /\ dirs[c.d].info.mesh \notin {"none", c.m}) => (r.exit # 0 /\ r.dirs = dirs)
\* no link file without the mesh key
LinksNeedKey ==
  /\ \A d \in Dirs : (dirs[d].links # {} \/ dirs[d].frags # {}) => dirs[d].info.mesh # "none"
  /\ \A c \in MeshCmds : (c.op = "Link" /\ dirs[c.d].info.mesh = "none")
                             => LET r == Run(c, dirs, cfg) IN r.exit # 0 /\ r.dirs = dirs

\* ---- design sanity ----------------------------------------------------------
TypeOK ==
  \A d \in Dirs :
     /\ dirs[d].info.n \in 0..MaxScales
     /\ dirs[d].info.n = 0 => \A i \in Scales : dirs[d].chunks[i] = "absent"
     /\ \A i \in Scales : dirs[d].chunks[i] # "absent" => i <= dirs[d].info.n
     /\ dirs[d].transform => (dirs[d].fullres # "absent")
=============================================================================
