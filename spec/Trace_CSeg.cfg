SPECIFICATION Spec
CONSTANTS
  ChannelSlice = "next_unchecked"
  JpegLoad = "unguarded"
INVARIANT Emit
