------------------------------ MODULE Morton ------------------------------
(* Oracle layer for chunk identifiers and shard routing, written from the   *)
(* Neuroglancer precomputed volume / sharded format text only:              *)
(*   - compressed Morton code: for bit level i = 0,1,..., for axis x,y,z in *)
(*     that order, output bit i of the grid coordinate unless 2^i >= grid   *)
(*     size on that axis (the axis is exhausted);                           *)
(*   - hashed id = id >> preshift_bits (identity hash);                     *)
(*   - minishard number = low minishard_bits bits of the hashed id;         *)
(*   - shard number = next shard_bits bits;                                 *)
(*   - shard file name = lower-case hex of the shard number zero padded to  *)
(*     ceil(shard_bits / 4) digits, extension .shard.                       *)
(* Identifiers are 64-bit unsigned numbers, carried as bit sequences.       *)
EXTENDS Bits, Integers

IdWidth == 64

\* number of bits needed for coordinates 0..g-1   (ceil(log2 g))
NBits(g) == CHOOSE n \in 0..31 : 2^n >= g /\ (n = 0 \/ 2^(n-1) < g)

Max3(a, b, c) == IF a >= b /\ a >= c THEN a ELSE IF b >= c THEN b ELSE c

BitOfNat(v, i) == (v \div 2^i) % 2

GridOf(size, chunk) == [d \in 1..3 |-> (size[d] + chunk[d] - 1) \div chunk[d]]

InGrid(grid, pos) == \A d \in 1..3 : pos[d] \in 0..(grid[d] - 1)

\* the compressed Morton code of grid position pos (0-based) in `grid`
CodeRaw(grid, pos) ==
  LET mx == Max3(NBits(grid[1]), NBits(grid[2]), NBits(grid[3]))
      piece(k) == LET i == (k - 1) \div 3
                      d == ((k - 1) % 3) + 1
                  IN IF 2^i < grid[d] THEN <<BitOfNat(pos[d], i)>> ELSE << >>
  IN FlattenSeq([k \in 1..(3 * mx) |-> piece(k)])
Code(grid, pos) == Norm(CodeRaw(grid, pos))

TotalBits(grid) == NBits(grid[1]) + NBits(grid[2]) + NBits(grid[3])

\* routing ---------------------------------------------------------------
Hashed(id, pb)       == ShiftR(id, pb)
MiniOf(id, pb, mb)   == Low(Hashed(id, pb), mb)
ShardOf(id, pb, mb, sb) == Low(ShiftR(Hashed(id, pb), mb), sb)
HexDigits(sb)        == (sb + 3) \div 4
ShardName(id, pb, mb, sb) == Hex(ShardOf(id, pb, mb, sb), HexDigits(sb))

\* acceptance of a chunk-coordinate 6-tuple  (xmin,xmax,ymin,ymax,zmin,zmax)
\* the identifier only depends on the minima; a position is acceptable iff
\* every minimum is a non-negative multiple of the chunk size inside the volume
OnLattice(size, chunk, mins) ==
  \A d \in 1..3 : /\ mins[d] >= 0
                  /\ mins[d] % chunk[d] = 0
                  /\ mins[d] \div chunk[d] < GridOf(size, chunk)[d]
PosOf(chunk, mins) == [d \in 1..3 |-> mins[d] \div chunk[d]]

\* properties of the definition itself (checked by MC_Morton) -------------
AllPos(grid) == {<<x, y, z>> : x \in 0..(grid[1]-1), y \in 0..(grid[2]-1), z \in 0..(grid[3]-1)}
Injective(grid) == \A p, q \in AllPos(grid) : Code(grid, p) = Code(grid, q) => p = q
Bounded(grid)   == \A p \in AllPos(grid) : Len(Code(grid, p)) <= TotalBits(grid)
\* power-of-two cubic grids reduce to the plain Morton code
=============================================================================
