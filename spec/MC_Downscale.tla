---------------------------- MODULE MC_Downscale ----------------------------
(* Use (M) for C07: on every array of at most MaxVox voxels with sizes 1..3  *)
(* (MaxVoxOther for the majority / stride methods, factors 1..3; arrays of   *)
(* MaxVox+1..MaxVox2 voxels, e.g. 2x2x2 and 3x3x1, over {0, type max} only)  *)
(* per axis over the values {0, 1, type max}, every factor triple in {1,2}^3 *)
(* and edge / constant (0, type max) completion, the implementation-shaped   *)
(* pairwise half-sum per axis (z, then y, then x, padding one plane when the *)
(* size is odd) followed by rint / clip / cast yields exactly the oracle's   *)
(* BlockMean (exact sum and count, half-even) - this is the argument that    *)
(* BlockMean is the right reading of "the exact mean of the block completed  *)
(* at the border".  The design runs in plain integer arithmetic (rationals   *)
(* n / 2^k), the oracle on bit sequences.  For all three methods the range   *)
(* clause follows from the statistic (OracleInRange).                        *)
(* An output voxel only reads its own block (extent 1 or 2 per axis, inside  *)
(* or overhanging the border): every such block situation of arrays up to    *)
(* 3x3x3 occurs in the enumerated shapes.                                    *)
EXTENDS Downscale
CONSTANTS MaxVox, MaxVox2, MaxVoxOther

M == 2^TypeBits - 1
V == {0, 1, M}
Pads == {<<"edge", 0>>, <<"const", 0>>, <<"const", M>>}
Fs(m) == IF m = "average" THEN {1, 2} ELSE {1, 2, 3}

MCInit ==
  \E m \in {"average", "majority", "stride"}, Z \in 1..3, Y \in 1..3, X \in 1..3 :
    /\ Z * Y * X <= (IF m = "average" THEN MaxI(MaxVox, MaxVox2) ELSE MaxVoxOther)
    /\ \E fx \in Fs(m), fy \in Fs(m), fz \in Fs(m), pd \in Pads,
          d \in [1..(Z * Y * X) -> IF Z * Y * X <= MaxVox \/ m # "average" THEN V ELSE {0, M}] :
         /\ (m # "average" => pd = <<"edge", 0>>)
         /\ cfg = [method |-> m, f |-> <<fx, fy, fz>>, pad |-> pd[1], ov |-> pd[2], kind |-> "int",
                   enc |-> "nat", shape |-> <<1, Z, Y, X>>, data |-> d]
MCSpec == MCInit /\ [][DNext]_dvars

(* NON-INTEGER outside value on integer data (--outside-value is a float): the *)
(* case is in units of 1/2 (u = 1): data 2v for v in V, outside values 1/2,    *)
(* 3/2 and M - 1/2.  The design pads the WORK array (float64) with the value   *)
(* itself; the oracle is BlockMean in units of 2^-u.  Same shapes and factors. *)
PadsU == {<<"const", 1>>, <<"const", 3>>, <<"const", 2 * M - 1>>}
MCInitU ==
  \E Z \in 1..3, Y \in 1..3, X \in 1..3 :
    /\ Z * Y * X <= MaxVox
    /\ \E fx \in {1, 2}, fy \in {1, 2}, fz \in {1, 2}, pd \in PadsU,
          d \in [1..(Z * Y * X) -> {2 * v : v \in V}] :
         cfg = [method |-> "average", f |-> <<fx, fy, fz>>, pad |-> pd[1], ov |-> pd[2], kind |-> "int",
                enc |-> "nat", shape |-> <<1, Z, Y, X>>, data |-> d, u |-> 1]
MCSpecU == MCInitU /\ [][DNext]_dvars
\* must-fail (deviation): a design that pads the INTEGER array before the promotion to
\* the work type casts the outside value to the data type (floor) - seeded change C06_r8m2
DesignCastAgrees ==
  LET d == PairwiseHalfSum([cfg EXCEPT !.ov = 2 * (cfg.ov \div 2)])
  IN \A p \in DOMAIN d[1] : <<0, FromNat(d[1][p])>> = BlockMean(cfg, p)

Design == cfg.method = "average" => DesignAgrees
=============================================================================
