SPECIFICATION Spec
CONSTANTS
  ChannelSlice = "to_end"
  Part = "valid"
  Tier = "full"
INVARIANT Emit
