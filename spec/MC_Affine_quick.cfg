SPECIFICATION Spec
CONSTANTS
  HalfShift = "minus"
  CfgSpace <- MCCfgSpaceQuick
INVARIANT ConventionIdentity
INVARIANT ProbesSuffice
