---- MODULE MC_ChunkStore ----
EXTENDS ChunkStore
MCInfos == {
  << [size |-> <<3, 4, 1>>, chunks |-> << <<2, 2, 1>> >>], [size |-> <<2, 2, 1>>, chunks |-> << <<2, 2, 1>> >>] >>,
  << [size |-> <<5, 3, 2>>, chunks |-> << <<2, 2, 2>>, <<4, 4, 4>> >>] >>,
  << [size |-> <<1, 1, 1>>, chunks |-> << <<4, 4, 4>> >>], [size |-> <<4, 5, 3>>, chunks |-> << <<4, 4, 4>> >>] >> }
\* exploration without the operation counter: every reachable store state, histories of any length
NoCounterView == <<info, store, lastRes>>
====
